"""Small dataflow helpers on top of vlib.cfg: parameter specialisation and a forward solver."""
from __future__ import annotations

import ast
from typing import Any, Callable, Dict, Iterable, List, Optional, Set, Tuple

from .cfg import CFG, Node

UNKNOWN = object()


def eval_const(e: ast.AST, env: Dict[str, Any]):
    """Evaluate a tiny expression language over ``env`` (param name -> python constant).
    Returns UNKNOWN when the value is not determined."""
    if isinstance(e, ast.Constant):
        return e.value
    if isinstance(e, ast.Name):
        return env.get(e.id, UNKNOWN)
    if isinstance(e, ast.UnaryOp) and isinstance(e.op, ast.Not):
        v = eval_const(e.operand, env)
        return UNKNOWN if v is UNKNOWN else (not v)
    if isinstance(e, ast.Compare) and len(e.ops) == 1:
        a = eval_const(e.left, env)
        b = eval_const(e.comparators[0], env)
        if a is UNKNOWN or b is UNKNOWN:
            return UNKNOWN
        op = e.ops[0]
        if isinstance(op, ast.Is):
            return a is b
        if isinstance(op, ast.IsNot):
            return a is not b
        if isinstance(op, ast.Eq):
            return a == b
        if isinstance(op, ast.NotEq):
            return a != b
        return UNKNOWN
    if isinstance(e, ast.BoolOp):
        vals = [eval_const(v, env) for v in e.values]
        if isinstance(e.op, ast.And):
            if any(v is not UNKNOWN and not v for v in vals):
                return False
            if all(v is not UNKNOWN for v in vals):
                return all(vals)
            return UNKNOWN
        else:
            if any(v is not UNKNOWN and v for v in vals):
                return True
            if all(v is not UNKNOWN for v in vals):
                return any(vals)
            return UNKNOWN
    return UNKNOWN


def specialise(cfg: CFG, env: Dict[str, Any], reassigned_ok: bool = False) -> Set[Tuple[int, Optional[str]]]:
    """Edges (node id, label) that are infeasible when the parameters in ``env`` have the given
    constant values.  A parameter that is assigned anywhere in the function is dropped from
    ``env`` first (its value is then not a constant of the call)."""
    env = dict(env)
    for n in ast.walk(cfg.func):
        if isinstance(n, ast.Name) and isinstance(n.ctx, (ast.Store, ast.Del)) and n.id in env:
            del env[n.id]
    blocked: Set[Tuple[int, Optional[str]]] = set()
    for node in cfg.nodes:
        if node.kind != "test" or node.ast is None:
            continue
        v = eval_const(node.ast, env)
        if v is UNKNOWN:
            continue
        blocked.add((node.id, "F" if v else "T"))
    return blocked


def forward(cfg: CFG, init: Any, transfer: Callable[[Node, Any], Any], join: Callable[[Any, Any], Any],
            blocked_edges: Iterable[Tuple[int, Optional[str]]] = (), ignore_labels: Iterable[str] = (),
            edge_transfer: Optional[Callable[[Node, Optional[str], Any], Any]] = None) -> Dict[int, Any]:
    """Forward may-analysis; returns IN state per node id (absent = unreachable)."""
    blocked = set(blocked_edges)
    ign = set(ignore_labels)
    IN: Dict[int, Any] = {cfg.entry.id: init}
    work: List[Node] = [cfg.entry]
    guard = 0
    while work:
        guard += 1
        if guard > 200000:
            raise RuntimeError("dataflow did not converge")
        n = work.pop()
        out = transfer(n, IN[n.id])
        for (m, lab) in n.succ:
            if lab in ign or (n.id, lab) in blocked:
                continue
            o = edge_transfer(n, lab, out) if edge_transfer else out
            cur = IN.get(m.id)
            new = o if cur is None else join(cur, o)
            if cur is None or new != cur:
                IN[m.id] = new
                work.append(m)
    return IN
