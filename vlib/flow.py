"""Small dataflow helpers on top of vlib.cfg: parameter specialisation and a forward solver."""
from __future__ import annotations

import ast
from typing import Any, Callable, Dict, Iterable, List, Optional, Set, Tuple

from .cfg import CFG, Node

UNKNOWN = object()


def eval_const(e: ast.AST, env: Dict[str, Any]):
    """Evaluate a tiny expression language over ``env`` (param name -> python constant).
    Returns UNKNOWN when the value is not determined."""
    if isinstance(e, ast.Constant):
        return e.value
    if isinstance(e, ast.Name):
        return env.get(e.id, UNKNOWN)
    if isinstance(e, ast.UnaryOp) and isinstance(e.op, ast.Not):
        v = eval_const(e.operand, env)
        return UNKNOWN if v is UNKNOWN else (not v)
    if isinstance(e, ast.Compare) and len(e.ops) == 1:
        a = eval_const(e.left, env)
        b = eval_const(e.comparators[0], env)
        if a is UNKNOWN or b is UNKNOWN:
            return UNKNOWN
        op = e.ops[0]
        if isinstance(op, ast.Is):
            return a is b
        if isinstance(op, ast.IsNot):
            return a is not b
        if isinstance(op, ast.Eq):
            return a == b
        if isinstance(op, ast.NotEq):
            return a != b
        return UNKNOWN
    if isinstance(e, ast.BoolOp):
        vals = [eval_const(v, env) for v in e.values]
        if isinstance(e.op, ast.And):
            if any(v is not UNKNOWN and not v for v in vals):
                return False
            if all(v is not UNKNOWN for v in vals):
                return all(vals)
            return UNKNOWN
        else:
            if any(v is not UNKNOWN and v for v in vals):
                return True
            if all(v is not UNKNOWN for v in vals):
                return any(vals)
            return UNKNOWN
    return UNKNOWN


def specialise(cfg: CFG, env: Dict[str, Any], reassigned_ok: bool = False) -> Set[Tuple[int, Optional[str]]]:
    """Edges (node id, label) that are infeasible when the parameters in ``env`` have the given
    constant values.  A parameter that is assigned anywhere in the function is dropped from
    ``env`` first (its value is then not a constant of the call)."""
    env = dict(env)
    for n in ast.walk(cfg.func):
        if isinstance(n, ast.Name) and isinstance(n.ctx, (ast.Store, ast.Del)) and n.id in env:
            del env[n.id]
    blocked: Set[Tuple[int, Optional[str]]] = set()
    for node in cfg.nodes:
        if node.kind != "test" or node.ast is None:
            continue
        v = eval_const(node.ast, env)
        if v is UNKNOWN:
            continue
        blocked.add((node.id, "F" if v else "T"))
    return blocked


def forward(cfg: CFG, init: Any, transfer: Callable[[Node, Any], Any], join: Callable[[Any, Any], Any],
            blocked_edges: Iterable[Tuple[int, Optional[str]]] = (), ignore_labels: Iterable[str] = (),
            edge_transfer: Optional[Callable[[Node, Optional[str], Any], Any]] = None) -> Dict[int, Any]:
    """Forward may-analysis; returns IN state per node id (absent = unreachable)."""
    blocked = set(blocked_edges)
    ign = set(ignore_labels)
    IN: Dict[int, Any] = {cfg.entry.id: init}
    work: List[Node] = [cfg.entry]
    guard = 0
    while work:
        guard += 1
        if guard > 200000:
            raise RuntimeError("dataflow did not converge")
        n = work.pop()
        out = transfer(n, IN[n.id])
        for (m, lab) in n.succ:
            if lab in ign or (n.id, lab) in blocked:
                continue
            o = edge_transfer(n, lab, out) if edge_transfer else out
            cur = IN.get(m.id)
            new = o if cur is None else join(cur, o)
            if cur is None or new != cur:
                IN[m.id] = new
                work.append(m)
    return IN


def _assigned_names(node: Node) -> Set[str]:
    a = node.ast
    out: Set[str] = set()
    if a is None:
        return out
    targets: List[ast.AST] = []
    if node.kind == "stmt":
        if isinstance(a, ast.Assign):
            targets = list(a.targets)
        elif isinstance(a, (ast.AugAssign, ast.AnnAssign)):
            targets = [a.target]
        elif isinstance(a, (ast.Import, ast.ImportFrom)):
            for al in a.names:
                out.add((al.asname or al.name).split(".")[0])
        elif isinstance(a, (ast.FunctionDef, ast.AsyncFunctionDef, ast.ClassDef)):
            out.add(a.name)
    elif node.kind == "for":
        targets = [a.target]
    elif node.kind == "with":
        targets = [i.optional_vars for i in a.items if i.optional_vars is not None]
    elif node.kind == "handler" and a.name:
        out.add(a.name)
    for t in targets:
        for n in ast.walk(t):
            if isinstance(n, ast.Name) and isinstance(n.ctx, (ast.Store, ast.Del)):
                out.add(n.id)
    # walrus inside expressions
    if node.kind in ("stmt", "test"):
        for n in ast.walk(a):
            if isinstance(n, ast.NamedExpr) and isinstance(n.target, ast.Name):
                out.add(n.target.id)
    return out


def reaching_defs(cfg: CFG, var: str, blocked_edges: Iterable[Tuple[int, Optional[str]]] = (),
                  ignore_labels: Iterable[str] = ()) -> Dict[int, frozenset]:
    """IN sets of definition node ids of ``var`` (-1 = function parameter / undefined) per CFG node id."""

    def transfer(n: Node, st: frozenset) -> frozenset:
        if var in _assigned_names(n):
            # an augmented assignment both uses and defines; treat it as a new definition
            return frozenset({n.id})
        return st

    def join(a: frozenset, b: frozenset) -> frozenset:
        return a | b

    return forward(cfg, frozenset({-1}), transfer, join, blocked_edges=blocked_edges, ignore_labels=ignore_labels)


def def_value(cfg: CFG, def_id: int, var: str) -> Optional[ast.AST]:
    """The expression assigned by a plain ``var = expr`` definition node (None for other kinds)."""
    if def_id < 0:
        return None
    n = cfg.nodes[def_id]
    a = n.ast
    if n.kind == "stmt" and isinstance(a, ast.Assign) and any(isinstance(t, ast.Name) and t.id == var for t in a.targets):
        return a.value
    if n.kind == "stmt" and isinstance(a, ast.AnnAssign) and isinstance(a.target, ast.Name) and a.target.id == var:
        return a.value
    return None
