"""LAYER engine: abstract interpretation of dictionary layering over a finite domain.

A "scope" is a dictionary obtained from one of a fixed set of getter methods (for FlowIR: default-global, default-stage,
platform-global, platform-stage variables).  For one key, which value a chain of ``a.update(b)`` / filtered copies
finally holds depends only on the set of scopes that define the key: 2**n membership patterns.  The engine executes the
statements of a function once per pattern; the abstract value of a dictionary is the label of the scope whose value the
key currently has in it (or None when the key is absent).  Aliasing (``x = y`` then ``x.update(..)``) is modelled by
sharing cells.  Transformations that keep the key set and only rewrite values in place (``d[name] = f(d[name])`` for
name in d; ``d = FlowIR.fill_in(d, ...)``) keep the label: the engine decides *which scope wins*, not the value.

Anything the engine does not understand that touches a tracked dictionary raises AnalysisError (exit 2), never a pass.
"""
from __future__ import annotations

import ast
from typing import Callable, Dict, FrozenSet, List, Optional

from .source import AnalysisError, dotted, short, src


class Cell:
    __slots__ = ("value", "scoped", "unknown")

    def __init__(self, value: Optional[str] = None, scoped: bool = True, unknown: Optional[str] = None):
        self.value = value
        self.scoped = scoped        # False: an empty literal that never received a scope (a plain local container)
        self.unknown = unknown      # set when something the engine cannot model was merged in (checked on the outputs only)

    def copy(self) -> "Cell":
        return Cell(self.value, self.scoped, self.unknown)


class Interp:
    """One abstract run of a function body for one membership pattern."""

    def __init__(self, fn: ast.AST, getters: Dict[str, Callable[[ast.Call, "Interp"], Optional[str]]],
                 pattern: FrozenSet[str], test_eval: Callable[[ast.AST, "Interp"], Optional[bool]],
                 value_preserving_calls: FrozenSet[str] = frozenset()):
        self.fn = fn
        self.getters = getters
        self.pattern = pattern
        self.test_eval = test_eval
        self.vp_calls = value_preserving_calls
        self.env: Dict[str, Cell] = {}
        self.elems: Dict[str, Cell] = {}       # name -> cell stored by ``name[<index>] = tracked``
        self.uncertain = 0
        self.trace: List[str] = []

    # ------------------------------------------------------------------ expressions
    def ev(self, e: Optional[ast.AST]) -> Optional[Cell]:
        """Cell for a tracked dictionary expression, None when the expression is not a tracked dictionary."""
        if e is None:
            return None
        if isinstance(e, ast.Name):
            return self.env.get(e.id)
        if isinstance(e, ast.Dict) and not e.keys:
            return Cell(None, scoped=False)
        if isinstance(e, ast.IfExp):
            t = self.test_eval(e.test, self)
            if t is None:
                a, b = self.ev(e.body), self.ev(e.orelse)
                if a is None and b is None:
                    return None
                raise AnalysisError("LAYER: conditional expression with an undecidable test selects a tracked dictionary: %s" % short(e, 100))
            return self.ev(e.body if t else e.orelse)
        if isinstance(e, ast.Subscript):
            base = e.value
            if isinstance(base, ast.Name) and base.id in self.elems:
                return self.elems[base.id]
            return None
        if isinstance(e, ast.Call):
            f = e.func
            if isinstance(f, ast.Attribute):
                if f.attr in self.getters:
                    label = self.getters[f.attr](e, self)
                    return Cell(label if label in self.pattern else None)
                if f.attr in ("copy",) and not e.args:
                    c = self.ev(f.value)
                    return c.copy() if c is not None else None
                if f.attr == "get" and len(e.args) == 2 and isinstance(f.value, ast.Name) and f.value.id in self.elems:
                    return self.elems[f.value.id]
            name = dotted(f) or ""
            if name in ("dict", "deep_copy", "copy.deepcopy", "copy.copy") and len(e.args) == 1:
                c = self.ev(e.args[0])
                return c.copy() if c is not None else None
            if name.split(".")[-1] in self.vp_calls and e.args:
                c = self.ev(e.args[0])
                return c.copy() if c is not None else None
            return None
        if isinstance(e, ast.DictComp):
            return self._dictcomp(e)
        return None

    def _dictcomp(self, e: ast.DictComp) -> Optional[Cell]:
        if len(e.generators) != 1:
            return None
        g = e.generators[0]
        it = g.iter
        if isinstance(it, ast.Call) and isinstance(it.func, ast.Attribute) and it.func.attr in ("keys", "items") and not it.args:
            it = it.func.value
        srcc = self.ev(it)
        if srcc is None:
            return None
        # key variable
        if isinstance(g.target, ast.Name):
            kv = g.target.id
        elif isinstance(g.target, ast.Tuple) and g.target.elts and isinstance(g.target.elts[0], ast.Name):
            kv = g.target.elts[0].id
        else:
            raise AnalysisError("LAYER: unrecognised comprehension target over a tracked dictionary: %s" % short(e, 100))
        if not (isinstance(e.key, ast.Name) and e.key.id == kv):
            raise AnalysisError("LAYER: comprehension over a tracked dictionary renames keys: %s" % short(e, 100))
        present = srcc.value is not None
        for cond in g.ifs:
            r = self._key_membership(cond, kv)
            if r is None:
                raise AnalysisError("LAYER: unrecognised filter in a comprehension over a tracked dictionary: %s" % short(cond, 100))
            present = present and r
        return Cell(srcc.value if present else None)

    def _key_membership(self, cond: ast.AST, kv: str) -> Optional[bool]:
        if isinstance(cond, ast.Compare) and len(cond.ops) == 1 and isinstance(cond.left, ast.Name) and cond.left.id == kv:
            other = self.ev(cond.comparators[0])
            if other is None:
                return None
            if isinstance(cond.ops[0], ast.NotIn):
                return other.value is None
            if isinstance(cond.ops[0], ast.In):
                return other.value is not None
        if isinstance(cond, ast.UnaryOp) and isinstance(cond.op, ast.Not):
            r = self._key_membership(cond.operand, kv)
            return None if r is None else not r
        if isinstance(cond, ast.BoolOp):
            rs = [self._key_membership(v, kv) for v in cond.values]
            if any(r is None for r in rs):
                return None
            return all(rs) if isinstance(cond.op, ast.And) else any(rs)
        return None

    # ------------------------------------------------------------------ statements
    def _mutating(self, what: str, node: ast.AST) -> None:
        if self.uncertain:
            raise AnalysisError("LAYER: a tracked dictionary is modified under a test the engine cannot decide: %s (%s:%d)"
                                % (what, short(node, 80), getattr(node, "lineno", 0)))

    def run(self, body: List[ast.stmt]) -> None:
        for s in body:
            self.stmt(s)

    def stmt(self, s: ast.stmt) -> None:
        if isinstance(s, (ast.FunctionDef, ast.AsyncFunctionDef, ast.ClassDef)):
            return
        if isinstance(s, ast.Assign) and len(s.targets) == 1:
            t = s.targets[0]
            if isinstance(t, ast.Name):
                c = self.ev(s.value)
                if c is not None:
                    if c.scoped or (t.id in self.env and self.env[t.id].scoped):
                        self._mutating("assignment", s)
                    self.env[t.id] = c
                    self.trace.append("%d %s := %s" % (s.lineno, t.id, c.value))
                elif t.id in self.env:
                    if isinstance(s.value, ast.Dict) and s.value.keys:
                        raise AnalysisError("LAYER: tracked dictionary rebuilt from a literal: %s" % short(s, 100))
                    # rebinding to an untracked value: forget
                    if self.env[t.id].scoped:
                        self._mutating("rebinding", s)
                    del self.env[t.id]
                return
            if isinstance(t, ast.Subscript) and isinstance(t.value, ast.Name):
                base = t.value.id
                c = self.ev(s.value)
                if c is not None and base in self.env:
                    # container of tracked dictionaries: name[index] = tracked
                    self._mutating("store into container", s)
                    self.elems[base] = c
                    self.trace.append("%d %s[] := %s" % (s.lineno, base, c.value))
                    return
                if base in self.env and not self._is_loop_key(t, base):
                    if c is None and base not in self.elems and self.env[base].scoped:
                        raise AnalysisError("LAYER: a key is added to / overwritten in tracked dictionary '%s' outside the "
                                            "recognised idioms: %s" % (base, short(s, 100)))
                return
            return
        if isinstance(s, ast.AugAssign):
            return
        if isinstance(s, ast.Expr) and isinstance(s.value, ast.Call):
            c = s.value
            f = c.func
            if isinstance(f, ast.Attribute):
                tgt = self.ev(f.value)
                if tgt is not None:
                    if f.attr == "update" and len(c.args) == 1:
                        other = self.ev(c.args[0])
                        if other is None:
                            if not tgt.scoped:
                                return
                            if self.on_untracked_update is not None and self.on_untracked_update(c):
                                return
                            tgt.unknown = "updated from an untracked source: %s" % short(s, 100)
                            return
                        self._mutating("update", s)
                        if other.value is not None:
                            tgt.value = other.value
                        tgt.scoped = tgt.scoped or other.scoped
                        tgt.unknown = tgt.unknown or other.unknown
                        self.trace.append("%d %s.update -> %s" % (s.lineno, src(f.value), tgt.value))
                        return
                    if f.attr in ("pop", "clear", "setdefault", "popitem", "__setitem__", "__delitem__"):
                        raise AnalysisError("LAYER: tracked dictionary modified by .%s(): %s" % (f.attr, short(s, 100)))
            return
        if isinstance(s, ast.Delete):
            for t in s.targets:
                if isinstance(t, ast.Subscript) and self.ev(t.value) is not None:
                    raise AnalysisError("LAYER: key deleted from a tracked dictionary: %s" % short(s, 100))
            return
        if isinstance(s, ast.If):
            t = self.test_eval(s.test, self)
            if t is True:
                self.run(s.body)
            elif t is False:
                self.run(s.orelse)
            else:
                self.uncertain += 1
                self.run(s.body)
                self.run(s.orelse)
                self.uncertain -= 1
            return
        if isinstance(s, (ast.For, ast.AsyncFor)):
            it = s.iter
            if isinstance(it, ast.Call) and dotted(it.func) in ("list", "sorted", "tuple") and len(it.args) == 1:
                it = it.args[0]
            if isinstance(it, ast.Call) and isinstance(it.func, ast.Attribute) and it.func.attr == "keys":
                it = it.func.value
            self._loopvars.append((s.target.id if isinstance(s.target, ast.Name) else None,
                                   it.id if isinstance(it, ast.Name) else None))
            self.run(s.body)
            self._loopvars.pop()
            self.run(s.orelse)
            return
        if isinstance(s, ast.While):
            self.uncertain += 1
            self.run(s.body)
            self.uncertain -= 1
            return
        if isinstance(s, (ast.With, ast.AsyncWith)):
            self.run(s.body)
            return
        if isinstance(s, ast.Try):
            self.run(s.body)
            self.uncertain += 1
            for h in s.handlers:
                self.run(h.body)
            self.uncertain -= 1
            self.run(s.orelse)
            self.run(s.finalbody)
            return
        if isinstance(s, ast.Return):
            if self.returned is None:
                self.returned = s.value
            return

    on_untracked_update: Optional[Callable[[ast.Call], bool]] = None
    returned: Optional[ast.AST] = None
    _loopvars: list

    def _is_loop_key(self, t: ast.Subscript, base: str) -> bool:
        """``base[k] = ...`` where k iterates over base itself: values are rewritten, the key set is unchanged."""
        sl = t.slice
        return isinstance(sl, ast.Name) and any(v == sl.id and over == base for (v, over) in self._loopvars)


def new_interp(fn, getters, pattern, test_eval, value_preserving_calls=frozenset(), on_untracked_update=None) -> Interp:
    it = Interp(fn, getters, pattern, test_eval, frozenset(value_preserving_calls))
    it._loopvars = []
    it.on_untracked_update = on_untracked_update
    it.returned = None
    return it
