"""ITER: one-shot iterators consumed twice.

A local bound to a one-shot iterator (``graph.predecessors(n)``, ``map``/``filter``/``zip``/``iter``/``reversed``, a generator
expression, ``re.finditer``, ``os.scandir``) yields its elements once.  If two reads of the local lie on one path without a new
binding in between, the second read sees an exhausted iterator - also when the first read is "only" a log statement
(``sorted(it)`` in a debug message).  ``double_consumptions`` reports such pairs; a truthiness / ``is None`` test of the local does
not consume it and is not counted.
"""
from __future__ import annotations

import ast
from typing import List, Tuple

from . import source
from .cfg import CFG, Node

ONE_SHOT_METHODS = {"predecessors", "successors", "neighbors", "finditer", "scandir", "iterdir", "iterrows", "itertuples"}
ONE_SHOT_FUNCS = {"map", "filter", "zip", "iter", "reversed", "enumerate"}


def is_one_shot(v: ast.AST) -> bool:
    if isinstance(v, ast.GeneratorExp):
        return True
    if isinstance(v, ast.Call):
        if isinstance(v.func, ast.Attribute) and v.func.attr in ONE_SHOT_METHODS:
            return True
        if isinstance(v.func, ast.Name) and v.func.id in ONE_SHOT_FUNCS:
            return True
    return False


NON_CONSUMING_CALLS = {"str", "repr", "type", "id", "isinstance", "print", "format", "hasattr", "getattr"}
LOG_METHODS = {"debug", "info", "warning", "warn", "error", "critical", "exception", "log"}


def _consuming_uses(tree: ast.AST, var: str) -> bool:
    """does evaluating tree advance the iterator bound to var?  Iteration, membership tests, unpacking and being handed to a call
    do; being formatted into a string (%, format, f-string, logging arguments) or inspected (type/id/repr) does not."""
    parents = {}
    for p_ in ast.walk(tree):
        for ch in ast.iter_child_nodes(p_):
            parents[id(ch)] = p_
    for x in ast.walk(tree):
        if not (isinstance(x, ast.Name) and x.id == var and isinstance(x.ctx, ast.Load)):
            continue
        p_ = parents.get(id(x))
        if p_ is None:
            return True        # the whole expression is the iterator (e.g. the iterable of a for statement)
        if isinstance(p_, ast.comprehension) and p_.iter is x:
            return True
        if isinstance(p_, ast.Starred):
            return True
        if isinstance(p_, ast.Compare) and any(isinstance(o, (ast.In, ast.NotIn)) for o in p_.ops) and any(c is x for c in p_.comparators):
            return True
        if isinstance(p_, ast.Assign) and p_.value is x and isinstance(p_.targets[0], (ast.Tuple, ast.List)):
            return True
        if isinstance(p_, ast.Call) and (any(a is x for a in p_.args) or any(k.value is x for k in p_.keywords)):
            fname = p_.func.attr if isinstance(p_.func, ast.Attribute) else p_.func.id if isinstance(p_.func, ast.Name) else ""
            if fname in NON_CONSUMING_CALLS or (isinstance(p_.func, ast.Attribute) and fname in LOG_METHODS):
                continue
            return True
        # formatting: '%s' % (.., it), f'{it}', a tuple that is only formatted ...: not a consumption
    return False


def _reads(n: Node, var: str) -> bool:
    if n.ast is None or n.kind not in ("stmt", "test", "for", "with"):
        return False
    a = n.ast
    if isinstance(a, (ast.FunctionDef, ast.AsyncFunctionDef, ast.ClassDef)):
        return False
    if n.kind == "for":
        return _consuming_uses(a.iter, var)
    return _consuming_uses(a, var)


def double_consumptions(fn: ast.AST, cfg: CFG = None) -> List[Tuple[ast.Assign, Node, Node]]:
    """[(binding, first read, second read)] with both reads on one path after the binding and no new binding of the name between them"""
    defs = [n for n in source.walk_own(fn) if isinstance(n, ast.Assign) and len(n.targets) == 1 and isinstance(n.targets[0], ast.Name)
            and is_one_shot(n.value)]
    if not defs:
        return []
    cfg = cfg or CFG(fn)
    out = []
    for d in defs:
        var = d.targets[0].id
        dn = [x for x in cfg.nodes if x.kind == "stmt" and x.ast is d]
        if not dn:
            continue
        binders = [x for x in cfg.nodes if x.ast is not None and (
            (x.kind == "stmt" and isinstance(x.ast, (ast.Assign, ast.AugAssign, ast.AnnAssign)) and any(
                isinstance(t, ast.Name) and t.id == var for t in (x.ast.targets if isinstance(x.ast, ast.Assign) else [x.ast.target])))
            or (x.kind == "for" and any(isinstance(t, ast.Name) and t.id == var for t in ast.walk(x.ast.target))))]
        live = cfg.reach([m for (m, lab) in dn[0].succ if lab != "exc"], blocked=binders, ignore_labels=("exc",))
        readers = [x for x in cfg.nodes if x.id in live and _reads(x, var)]
        for r1 in readers:
            # a for statement evaluates its iterable once: coming back to it from its own body is not a second read
            after = cfg.reach([m for (m, lab) in r1.succ if lab != "exc"], blocked=binders + ([r1] if r1.kind == "for" else []), ignore_labels=("exc",))
            for r2 in readers:
                if r2.id in after:
                    out.append((d, r1, r2))
                    break
            else:
                continue
            break
    return out
