"""Matching helpers used by the property checkers (all purely syntactic, on ast + CFG)."""
from __future__ import annotations

import ast
from typing import Callable, Iterable, List, Optional, Sequence, Set, Tuple

from . import source
from .cfg import CFG, Node, own_calls, own_exprs
from .source import call_name, dotted, last_attr


def polarity(test: ast.AST, matcher: Callable[[ast.AST], bool]) -> Optional[str]:
    """If ``test`` is ``X``, ``X is True/False``, ``X == True/False`` (or the negated comparisons) with
    matcher(X), return the edge label ('T' or 'F') of the test node on which X is truthy."""
    if matcher(test):
        return "T"
    if isinstance(test, ast.Compare) and len(test.ops) == 1 and matcher(test.left):
        c = test.comparators[0]
        if isinstance(c, ast.Constant) and isinstance(c.value, bool):
            op = test.ops[0]
            if isinstance(op, (ast.Is, ast.Eq)):
                return "T" if c.value else "F"
            if isinstance(op, (ast.IsNot, ast.NotEq)):
                return "F" if c.value else "T"
    return None


def is_call_to(e: ast.AST, names: Iterable[str]) -> bool:
    return isinstance(e, ast.Call) and (call_name(e) in set(names))


def is_method_call(e: ast.AST, attr: str) -> bool:
    return isinstance(e, ast.Call) and isinstance(e.func, ast.Attribute) and e.func.attr == attr


def test_nodes(cfg: CFG, pred: Callable[[ast.AST], Optional[str]]) -> List[Tuple[Node, str]]:
    """All test nodes for which pred(test ast) returns the label of the *positive* side."""
    out = []
    for n in cfg.nodes:
        if n.kind == "test" and n.ast is not None:
            lab = pred(n.ast)
            if lab:
                out.append((n, lab))
    return out


def other(label: str) -> str:
    return "F" if label == "T" else "T"


def only_via_edges(cfg: CFG, target: Node, edges: Sequence[Tuple[Node, str]],
                   ignore_labels: Iterable[str] = ()) -> bool:
    """True iff every path entry -> target uses one of the (node, label) edges."""
    if not edges:
        return False
    blocked = {(n.id, lab) for (n, lab) in edges}
    r = cfg.reach([cfg.entry], blocked_edges=blocked, ignore_labels=ignore_labels)
    return target.id not in r


def never_via_edges(cfg: CFG, target: Node, edges: Sequence[Tuple[Node, str]],
                    ignore_labels: Iterable[str] = ()) -> bool:
    """True iff no path entry -> target uses any of the edges, i.e. target is reachable only
    through the *other* side of every listed test: blocking the other sides makes it unreachable
    for each test separately."""
    for (n, lab) in edges:
        if not only_via_edges(cfg, target, [(n, other(lab))], ignore_labels):
            return False
    return True


def nodes_calling(cfg: CFG, pred: Callable[[ast.Call], bool], kinds=("stmt", "test", "for", "with")) -> List[Node]:
    out = []
    for n in cfg.nodes:
        if n.ast is None or n.kind not in kinds:
            continue
        if any(pred(c) for c in own_calls(n.ast)):
            out.append(n)
    return out


def attr_chain_endswith(e: ast.AST, suffix: str) -> bool:
    d = dotted(e)
    return bool(d) and (d == suffix or d.endswith("." + suffix))


def compare_parts(e: ast.AST) -> Optional[Tuple[ast.AST, ast.cmpop, ast.AST]]:
    if isinstance(e, ast.Compare) and len(e.ops) == 1:
        return e.left, e.ops[0], e.comparators[0]
    return None


def mentions(e: ast.AST, text: str) -> bool:
    """Does the expression mention a dotted name / attribute whose rendering ends with text?"""
    for n in ast.walk(e):
        if isinstance(n, (ast.Attribute, ast.Name)):
            d = dotted(n)
            if d and (d == text or d.endswith("." + text) or d.endswith(text)):
                return True
        if isinstance(n, ast.Constant) and isinstance(n.value, str) and n.value == text:
            return True
    return False


def assigned_value(fn: ast.AST, name: str) -> List[ast.AST]:
    """All values assigned to local ``name`` in fn (own body)."""
    out = []
    for n in source.walk_own(fn):
        if isinstance(n, ast.Assign):
            for t in n.targets:
                if isinstance(t, ast.Name) and t.id == name:
                    out.append(n.value)
        elif isinstance(n, ast.AnnAssign) and isinstance(n.target, ast.Name) and n.target.id == name and n.value:
            out.append(n.value)
    return out


def enclosing_with_items(node: ast.AST) -> List[str]:
    """Renderings of the context expressions of every ``with`` lexically enclosing node (inside its function)."""
    out = []
    for a in source.ancestors(node):
        if isinstance(a, (ast.FunctionDef, ast.AsyncFunctionDef, ast.Lambda)):
            break
        if isinstance(a, (ast.With, ast.AsyncWith)):
            for it in a.items:
                out.append(source.src(it.context_expr))
    return out


def in_finally_of_outermost_try(fn: ast.FunctionDef, node: ast.AST) -> bool:
    """Is node inside the finalbody of a try statement that is a direct child of fn's body (possibly the
    only non-trivial statement)?"""
    for st in fn.body:
        if isinstance(st, ast.Try) and st.finalbody:
            for fb in st.finalbody:
                for sub in ast.walk(fb):
                    if sub is node:
                        return True
    return False
