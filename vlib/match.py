"""Matching helpers used by the property checkers (all purely syntactic, on ast + CFG)."""
from __future__ import annotations

import ast
from typing import Callable, Iterable, List, Optional, Sequence, Set, Tuple

from . import source
from .cfg import CFG, Node, own_calls, own_exprs
from .source import call_name, dotted, last_attr


def polarity(test: ast.AST, matcher: Callable[[ast.AST], bool]) -> Optional[str]:
    """If ``test`` is ``X``, ``X is True/False``, ``X == True/False`` (or the negated comparisons) with
    matcher(X), return the edge label ('T' or 'F') of the test node on which X is truthy."""
    if matcher(test):
        return "T"
    if isinstance(test, ast.Compare) and len(test.ops) == 1 and matcher(test.left):
        c = test.comparators[0]
        if isinstance(c, ast.Constant) and isinstance(c.value, bool):
            op = test.ops[0]
            if isinstance(op, (ast.Is, ast.Eq)):
                return "T" if c.value else "F"
            if isinstance(op, (ast.IsNot, ast.NotEq)):
                return "F" if c.value else "T"
    return None


def is_call_to(e: ast.AST, names: Iterable[str]) -> bool:
    return isinstance(e, ast.Call) and (call_name(e) in set(names))


def is_method_call(e: ast.AST, attr: str) -> bool:
    return isinstance(e, ast.Call) and isinstance(e.func, ast.Attribute) and e.func.attr == attr


def test_nodes(cfg: CFG, pred: Callable[[ast.AST], Optional[str]]) -> List[Tuple[Node, str]]:
    """All test nodes for which pred(test ast) returns the label of the *positive* side."""
    out = []
    for n in cfg.nodes:
        if n.kind == "test" and n.ast is not None:
            lab = pred(n.ast)
            if lab:
                out.append((n, lab))
    return out


def other(label: str) -> str:
    return "F" if label == "T" else "T"


def only_via_edges(cfg: CFG, target: Node, edges: Sequence[Tuple[Node, str]],
                   ignore_labels: Iterable[str] = ()) -> bool:
    """True iff every path entry -> target uses one of the (node, label) edges."""
    if not edges:
        return False
    blocked = {(n.id, lab) for (n, lab) in edges}
    r = cfg.reach([cfg.entry], blocked_edges=blocked, ignore_labels=ignore_labels)
    return target.id not in r


def never_via_edges(cfg: CFG, target: Node, edges: Sequence[Tuple[Node, str]],
                    ignore_labels: Iterable[str] = ()) -> bool:
    """True iff no path entry -> target uses any of the edges, i.e. target is reachable only
    through the *other* side of every listed test: blocking the other sides makes it unreachable
    for each test separately."""
    for (n, lab) in edges:
        if not only_via_edges(cfg, target, [(n, other(lab))], ignore_labels):
            return False
    return True


def nodes_calling(cfg: CFG, pred: Callable[[ast.Call], bool], kinds=("stmt", "test", "for", "with")) -> List[Node]:
    out = []
    for n in cfg.nodes:
        if n.ast is None or n.kind not in kinds:
            continue
        if any(pred(c) for c in own_calls(n.ast)):
            out.append(n)
    return out


def attr_chain_endswith(e: ast.AST, suffix: str) -> bool:
    d = dotted(e)
    return bool(d) and (d == suffix or d.endswith("." + suffix))


def compare_parts(e: ast.AST) -> Optional[Tuple[ast.AST, ast.cmpop, ast.AST]]:
    if isinstance(e, ast.Compare) and len(e.ops) == 1:
        return e.left, e.ops[0], e.comparators[0]
    return None


def mentions(e: ast.AST, text: str) -> bool:
    """Does the expression mention a dotted name / attribute whose rendering ends with text?"""
    for n in ast.walk(e):
        if isinstance(n, (ast.Attribute, ast.Name)):
            d = dotted(n)
            if d and (d == text or d.endswith("." + text) or d.endswith(text)):
                return True
        if isinstance(n, ast.Constant) and isinstance(n.value, str) and n.value == text:
            return True
    return False


def assigned_value(fn: ast.AST, name: str) -> List[ast.AST]:
    """All values assigned to local ``name`` in fn (own body)."""
    out = []
    for n in source.walk_own(fn):
        if isinstance(n, ast.Assign):
            for t in n.targets:
                if isinstance(t, ast.Name) and t.id == name:
                    out.append(n.value)
        elif isinstance(n, ast.AnnAssign) and isinstance(n.target, ast.Name) and n.target.id == name and n.value:
            out.append(n.value)
    return out


def enclosing_with_items(node: ast.AST) -> List[str]:
    """Renderings of the context expressions of every ``with`` lexically enclosing node (inside its function)."""
    out = []
    for a in source.ancestors(node):
        if isinstance(a, (ast.FunctionDef, ast.AsyncFunctionDef, ast.Lambda)):
            break
        if isinstance(a, (ast.With, ast.AsyncWith)):
            for it in a.items:
                out.append(source.src(it.context_expr))
    return out


def in_finally_of_outermost_try(fn: ast.FunctionDef, node: ast.AST) -> bool:
    """Is node inside the finalbody of a try statement that is a direct child of fn's body (possibly the
    only non-trivial statement)?"""
    for st in fn.body:
        if isinstance(st, ast.Try) and st.finalbody:
            for fb in st.finalbody:
                for sub in ast.walk(fb):
                    if sub is node:
                        return True
    return False


def stable_step(cfg: CFG, stable: Iterable[str]):
    """step function for CFG.reach_product that keeps repeated tests of *stable* expressions consistent along a path.

    ``stable`` are source texts of expressions whose truth value cannot change while the function runs (parameters that
    are never reassigned, flags that are only ever set by another party in one direction).  The state is a frozenset of
    (text, bool).  Copies are followed: after ``X = <stable expr>`` a test of X has the value of the stable expression
    until X is assigned again."""
    stable = set(stable)

    def truth(test: ast.AST, st: dict) -> Tuple[Optional[str], bool]:
        """(text, negated) when the test is a (possibly negated / 'is True'-compared) stable or copied expression"""
        neg = False
        t = test
        while isinstance(t, ast.UnaryOp) and isinstance(t.op, ast.Not):
            neg = not neg
            t = t.operand
        if isinstance(t, ast.Compare) and len(t.ops) == 1 and isinstance(t.comparators[0], ast.Constant) \
                and isinstance(t.comparators[0].value, bool):
            c = t.comparators[0].value
            if isinstance(t.ops[0], (ast.Is, ast.Eq)):
                neg = neg if c else not neg
                t = t.left
            elif isinstance(t.ops[0], (ast.IsNot, ast.NotEq)):
                neg = (not neg) if c else neg
                t = t.left
        txt = source.src(t)
        if txt in stable or txt in st:
            return txt, neg
        return None, False

    def step(src: Node, label: Optional[str], dst: Node, state):
        st = dict(state)
        if src.kind == "test" and src.ast is not None and label in ("T", "F"):
            txt, neg = truth(src.ast, st)
            if txt is not None:
                val = (label == "T") != neg
                if txt in st and st[txt] != val:
                    return None
                st[txt] = val
        elif src.kind == "stmt" and isinstance(src.ast, (ast.Assign, ast.AugAssign, ast.AnnAssign)) and label != "exc":
            targets = src.ast.targets if isinstance(src.ast, ast.Assign) else [src.ast.target]
            for t in targets:
                ttxt = source.src(t)
                if ttxt in stable:
                    continue
                st.pop(ttxt, None)
                if isinstance(src.ast, ast.Assign):
                    v = src.ast.value
                    if isinstance(v, ast.Constant) and isinstance(v.value, bool):
                        st[ttxt] = v.value
                    else:
                        vtxt = source.src(v)
                        if vtxt in st and (vtxt in stable):
                            st[ttxt] = st[vtxt]
        return frozenset(st.items())
    return step


def reach_consistent(cfg: CFG, starts: Sequence[Node], stable: Iterable[str], blocked: Iterable[Node] = (),
                     blocked_edges: Iterable[Tuple[int, Optional[str]]] = (), ignore_labels: Iterable[str] = (),
                     init: Iterable[Tuple[str, bool]] = ()) -> Set[int]:
    """node ids reachable from ``starts`` on paths that are consistent in the stable expressions."""
    step = stable_step(cfg, stable)
    out: Set[int] = set()
    for s in starts:
        for (nid, _st) in cfg.reach_product(s, frozenset(init), step, blocked=blocked, blocked_edges=blocked_edges,
                                            ignore_labels=ignore_labels):
            out.add(nid)
    return out


def only_via_edges_consistent(cfg: CFG, target: Node, edges: Sequence[Tuple[Node, str]], stable: Iterable[str],
                              ignore_labels: Iterable[str] = ()) -> bool:
    """like only_via_edges, but infeasible paths (contradicting tests of a stable expression) are not counted."""
    if not edges:
        return False
    blocked = {(n.id, lab) for (n, lab) in edges}
    r = reach_consistent(cfg, [cfg.entry], stable, blocked_edges=blocked, ignore_labels=ignore_labels)
    return target.id not in r


def resolve_local(fn: ast.AST, e: ast.AST) -> ast.AST:
    """A local name that is assigned exactly once in fn (not a loop target / augmented) stands for that value."""
    if isinstance(e, ast.Name):
        vals = assigned_value(fn, e.id)
        stores = [n for n in ast.walk(fn) if isinstance(n, ast.Name) and n.id == e.id and isinstance(n.ctx, ast.Store)]
        if len(vals) == 1 and len(stores) == 1:
            return vals[0]
    return e


def polarity_through_locals(fn: ast.AST, test: ast.AST, matcher: Callable[[ast.AST], bool]) -> Optional[str]:
    """polarity() where a single-assignment local holding the matched expression counts as that expression."""
    return polarity(test, lambda x: matcher(resolve_local(fn, x)))


def locals_where(fn: ast.AST, pred: Callable[[ast.AST], bool], include_nested: bool = False) -> List[str]:
    """Names of locals of fn that have at least one plain assignment ``name = value`` with pred(value) - the way to find a
    variable by its *role* (how it is defined) instead of by its spelling.  In source order, without duplicates."""
    out: List[str] = []
    for n in source.walk_own(fn, include_nested=include_nested):
        tgts = []
        if isinstance(n, ast.Assign):
            tgts = [(t, n.value) for t in n.targets]
        elif isinstance(n, ast.AnnAssign) and n.value is not None:
            tgts = [(n.target, n.value)]
        for t, v in tgts:
            if isinstance(t, ast.Name) and t.id not in out:
                try:
                    if pred(v):
                        out.append(t.id)
                except Exception:
                    pass
    return out


def role(fn: ast.AST, pred: Callable[[ast.AST], bool], default: str) -> str:
    """The unique local satisfying pred, else ``default`` (the spelling on the pinned tree)."""
    names = locals_where(fn, pred)
    return names[0] if len(names) >= 1 else default
