"""INCL: which collections a list-valued expression is guaranteed to include, on every path.

A forward *must* analysis over the statement CFG.  The abstract value of a local is the set of *sources* whose elements it
certainly contains; sources are given by a classifier ``leaf(expr) -> Optional[str]`` (for instance "SPECIAL" for
``cls.SpecialFolders``) and by tracked parameters (source ``P:<name>``).  Concatenation, ``+=`` and ``extend`` unite, copies
(``list``, ``sorted``, ``set``, ``tuple``, ``copy``/``deepcopy``) keep, ``a or b`` keeps what ``a`` guarantees, joins
intersect.  When a test shows a variable to be empty/None on an edge, every source that variable includes is empty there,
so it is included vacuously by everything from then on (``if p: x += list(p)`` includes ``p`` on both sides).
"""
from __future__ import annotations

import ast
from typing import Callable, Dict, FrozenSet, Iterable, List, Optional, Set, Tuple

from . import flow
from .cfg import CFG, Node, own_calls

COPIES = {"list", "sorted", "set", "tuple", "frozenset", "deepcopy", "copy", "deep_copy"}
EMPTY = "__empty__"
State = FrozenSet[Tuple[str, str]]


class Inclusion:
    def __init__(self, fn: ast.AST, leaf: Callable[[ast.AST], Optional[str]], params: Iterable[str], cfg: Optional[CFG] = None,
                 empty_with: Optional[Dict[str, List[str]]] = None):
        """``empty_with``: source -> sources derived from it element by element (empty whenever it is empty)"""
        self.fn = fn
        self.leaf = leaf
        self.cfg = cfg or CFG(fn)
        self.empty_with = empty_with or {}
        have = {a.arg for a in fn.args.args + fn.args.kwonlyargs}
        self.params = [p for p in params if p in have]
        init: State = frozenset((p, "P:" + p) for p in self.params)
        self.IN: Dict[int, State] = flow.forward(self.cfg, init, self._transfer, lambda a, b: a & b, edge_transfer=self._edge)

    # ---------------------------------------------------------------------------------------------
    def eval(self, e: Optional[ast.AST], st: State, depth: int = 0) -> FrozenSet[str]:
        vac = frozenset(s for (v, s) in st if v == EMPTY)
        return self._eval(e, st, depth) | vac

    def _eval(self, e: Optional[ast.AST], st: State, depth: int = 0) -> FrozenSet[str]:
        if e is None or depth > 12:
            return frozenset()
        k = self.leaf(e)
        if k:
            return frozenset({k})
        if isinstance(e, ast.Name):
            return frozenset(s for (v, s) in st if v == e.id)
        if isinstance(e, ast.Call):
            name = e.func.id if isinstance(e.func, ast.Name) else e.func.attr if isinstance(e.func, ast.Attribute) else None
            if name in COPIES and len(e.args) >= 1:
                return self._eval(e.args[0], st, depth + 1)
            return frozenset()
        if isinstance(e, ast.BinOp) and isinstance(e.op, (ast.Add, ast.BitOr)):
            return self._eval(e.left, st, depth + 1) | self._eval(e.right, st, depth + 1)
        if isinstance(e, ast.BoolOp) and isinstance(e.op, ast.Or):
            return self._eval(e.values[0], st, depth + 1)
        if isinstance(e, ast.IfExp):
            lab = self._truthy_label(e.test)
            if lab is not None:
                var, truthy_on = lab
                srcs = self._eval(ast.Name(id=var, ctx=ast.Load()), st, depth + 1)
                srcs |= frozenset(d for s in srcs for d in self.empty_with.get(s, []))
                st_empty = st | frozenset((EMPTY, s) for s in srcs)
                body_st, else_st = (st, st_empty) if truthy_on == "T" else (st_empty, st)
                return self.eval(e.body, body_st, depth + 1) & self.eval(e.orelse, else_st, depth + 1)
            return self._eval(e.body, st, depth + 1) & self._eval(e.orelse, st, depth + 1)
        if isinstance(e, (ast.List, ast.Tuple, ast.Set)):
            out: FrozenSet[str] = frozenset()
            for x in e.elts:
                if isinstance(x, ast.Starred):
                    out |= self._eval(x.value, st, depth + 1)
            return out
        if isinstance(e, ast.NamedExpr):
            return self._eval(e.value, st, depth + 1)
        return frozenset()

    @staticmethod
    def _truthy_label(t: ast.AST) -> Optional[Tuple[str, str]]:
        """(variable, edge label on which it is non-empty / not None) for the tests  v, not v, v is None, v is not None,
        len(v) > 0, len(v) == 0, v == [] ..."""
        if isinstance(t, ast.Name):
            return (t.id, "T")
        if isinstance(t, ast.UnaryOp) and isinstance(t.op, ast.Not):
            inner = Inclusion._truthy_label(t.operand)
            return (inner[0], "F" if inner[1] == "T" else "T") if inner else None
        if isinstance(t, ast.Compare) and len(t.ops) == 1:
            l, op, r = t.left, t.ops[0], t.comparators[0]
            if isinstance(l, ast.Name) and isinstance(r, ast.Constant) and r.value is None:
                if isinstance(op, (ast.Is, ast.Eq)):
                    return (l.id, "F")
                if isinstance(op, (ast.IsNot, ast.NotEq)):
                    return (l.id, "T")
            if isinstance(l, ast.Call) and isinstance(l.func, ast.Name) and l.func.id == "len" and l.args and isinstance(l.args[0], ast.Name) \
                    and isinstance(r, ast.Constant) and r.value == 0:
                if isinstance(op, (ast.Gt, ast.NotEq)):
                    return (l.args[0].id, "T")
                if isinstance(op, ast.Eq):
                    return (l.args[0].id, "F")
        return None

    # ---------------------------------------------------------------------------------------------
    def _set(self, st: State, var: str, srcs: FrozenSet[str]) -> State:
        return frozenset(p for p in st if p[0] != var) | frozenset((var, s) for s in srcs)

    def _transfer(self, n: Node, st: State) -> State:
        a = n.ast
        if a is None:
            return st
        if n.kind == "stmt":
            if isinstance(a, (ast.Assign, ast.AnnAssign)):
                targets = a.targets if isinstance(a, ast.Assign) else [a.target]
                val = a.value
                for t in targets:
                    if isinstance(t, ast.Name):
                        st = self._set(st, t.id, self.eval(val, st) if val is not None else frozenset())
                    elif isinstance(t, (ast.Tuple, ast.List)):
                        for x in ast.walk(t):
                            if isinstance(x, ast.Name):
                                st = self._set(st, x.id, frozenset())
                return st
            if isinstance(a, ast.AugAssign) and isinstance(a.target, ast.Name):
                if isinstance(a.op, (ast.Add, ast.BitOr)):
                    return st | frozenset((a.target.id, s) for s in self.eval(a.value, st))
                return self._set(st, a.target.id, frozenset())
            if isinstance(a, ast.Expr) and isinstance(a.value, ast.Call) and isinstance(a.value.func, ast.Attribute) \
                    and isinstance(a.value.func.value, ast.Name):
                c = a.value
                v = c.func.value.id
                if c.func.attr in ("extend", "update") and c.args:
                    return st | frozenset((v, s) for s in self.eval(c.args[0], st))
                if c.func.attr in ("clear", "remove", "pop", "discard", "difference_update", "intersection_update"):
                    return self._set(st, v, frozenset())
                return st
            if isinstance(a, ast.Delete):
                for t in a.targets:
                    if isinstance(t, ast.Name):
                        st = self._set(st, t.id, frozenset())
                    elif isinstance(t, ast.Subscript) and isinstance(t.value, ast.Name):
                        st = self._set(st, t.value.id, frozenset())
                return st
            return st
        if n.kind in ("for", "with", "handler"):
            for v in flow._assigned_names(n):
                st = self._set(st, v, frozenset())
        return st

    def _edge(self, n: Node, lab: Optional[str], st: State) -> State:
        if n.kind != "test" or n.ast is None or lab not in ("T", "F"):
            return st
        tl = self._truthy_label(n.ast)
        if tl is None:
            return st
        var, truthy_on = tl
        if lab == truthy_on:
            return st
        srcs = frozenset(s for (v, s) in st if v == var)
        srcs |= frozenset(d for s in srcs for d in self.empty_with.get(s, []))
        # var is empty here: every source it includes is empty, hence included by every collection from now on
        add = set()
        for s in srcs:
            add.add((EMPTY, s))
            for (v, _s) in st:
                if v != EMPTY:
                    add.add((v, s))
        return st | frozenset(add)

    # ---------------------------------------------------------------------------------------------
    def at(self, expr: ast.AST) -> Optional[FrozenSet[str]]:
        """guaranteed sources of ``expr`` at the CFG node that contains it (None when the node is unreachable / not found)"""
        for n in self.cfg.nodes:
            if n.ast is None or n.kind not in ("stmt", "test", "for", "with"):
                continue
            if isinstance(n.ast, (ast.FunctionDef, ast.AsyncFunctionDef, ast.ClassDef)):
                continue
            hay = n.ast.iter if n.kind == "for" else n.ast
            if n.kind == "with":
                found = any(x is expr for it in n.ast.items for x in ast.walk(it.context_expr))
            elif n.kind == "stmt" and isinstance(n.ast, (ast.If, ast.While, ast.For, ast.With, ast.Try)):
                continue
            else:
                found = any(x is expr for x in ast.walk(hay))
            if found:
                st = self.IN.get(n.id)
                if st is None:
                    return None
                return self.eval(expr, st)
        return None
