"""SUB engine: anchored reference substitution (serves C03, C05, C10, C16).

A *substitution site* is a call that rewrites a string by content:
    s.replace(key, value)          -> kind 'plain'
    re.sub(pat, value, s, ...)     -> kind 'regex'
    compiled.sub(value, s)         -> kind 'regex' (pattern = what ``compiled`` was compiled from)
A site whose key is a string literal is not a reference substitution and is skipped.

For the remaining sites the rule is: the pattern must be built from ``re.escape(<key>)`` with a left anchor and
a right anchor (``\\b`` or a look-around group) adjacent to it.  A legacy reference ``[stageN.]producer[/file]:method``
is not self-delimiting: ``A:ref`` is a suffix of ``BA:ref`` and of ``stage0.A:ref``; ``X:copy`` is a prefix of
``X:copyout``.  So with an unanchored (or un-escaped) pattern there is always an input that is rewritten wrongly.
"""
from __future__ import annotations

import ast
from typing import Dict, List, Optional, Tuple

from . import source
from .source import call_name, dotted, last_attr

LEFT_ANCHORS = ("\\b", "(?<!", "(?<=", "(?:^|", "^")
RIGHT_ANCHORS = ("\\b", "(?!", "(?=", "(?:$|", "$")


class Site:
    def __init__(self, call: ast.Call, kind: str, key: Optional[ast.AST], pattern: Optional[ast.AST],
                 value: Optional[ast.AST], subject: Optional[ast.AST]):
        self.call = call
        self.kind = kind
        self.key = key
        self.pattern = pattern
        self.value = value
        self.subject = subject


def _local_values(fn: ast.AST, name: str) -> List[ast.AST]:
    out = []
    scopes = [fn] + [a for a in source.ancestors(fn) if isinstance(a, (ast.FunctionDef, ast.AsyncFunctionDef))]
    for sc in scopes:
        for n in source.walk_own(sc):
            if isinstance(n, ast.Assign):
                for t in n.targets:
                    if isinstance(t, ast.Name) and t.id == name:
                        out.append(n.value)
        if out:
            break
    return out


def _loop_element_values(fn: ast.AST, name: str) -> List[ast.AST]:
    """Expressions a loop variable stands for: ``for name in X`` / ``for (a, name) in X`` where X is (a local bound to) a
    list/tuple display or a comprehension - the element expression (or its i-th tuple component)."""
    out: List[ast.AST] = []
    scopes = [fn] + [a for a in source.ancestors(fn) if isinstance(a, (ast.FunctionDef, ast.AsyncFunctionDef))]
    for sc in scopes:
        for n in source.walk_own(sc):
            if not isinstance(n, (ast.For, ast.comprehension)):
                continue
            tgt, it = n.target, n.iter
            idx = None
            if isinstance(tgt, ast.Name) and tgt.id == name:
                idx = -1
            elif isinstance(tgt, (ast.Tuple, ast.List)):
                for i, e in enumerate(tgt.elts):
                    if isinstance(e, ast.Name) and e.id == name:
                        idx = i
            if idx is None:
                continue
            iters = [it]
            if isinstance(it, ast.Name):
                iters = _local_values(sc, it.id) or _local_values(fn, it.id)
            for x in iters:
                while isinstance(x, ast.Call) and (call_name(x) or "") in ("list", "tuple", "sorted", "reversed") and x.args:
                    x = x.args[0]
                elts: List[ast.AST] = []
                if isinstance(x, (ast.ListComp, ast.GeneratorExp, ast.SetComp)):
                    elts = [x.elt]
                elif isinstance(x, (ast.List, ast.Tuple)):
                    elts = list(x.elts)
                for e in elts:
                    if idx == -1:
                        out.append(e)
                    elif isinstance(e, (ast.Tuple, ast.List)) and idx < len(e.elts):
                        out.append(e.elts[idx])
        if out:
            break
    return out


def find_sites(fn: ast.AST, include_nested: bool = True) -> List[Site]:
    sites: List[Site] = []
    for c in source.calls_in(fn, include_nested=include_nested):
        cn = call_name(c) or ""
        la = last_attr(c)
        if la == "replace" and isinstance(c.func, ast.Attribute) and len(c.args) in (2, 3) and not c.keywords:
            # exclude os.path / datetime replace etc: receiver must not be a module-like dotted name ending in 'path'
            recv = dotted(c.func.value) or ""
            if recv.endswith("datetime") or recv.endswith("date"):
                continue
            sites.append(Site(c, "plain", c.args[0], None, c.args[1], c.func.value))
        elif cn in ("re.sub", "re.subn") and len(c.args) >= 3:
            sites.append(Site(c, "regex", None, c.args[0], c.args[1], c.args[2]))
        elif la in ("sub", "subn") and isinstance(c.func, ast.Attribute) and cn not in ("re.sub", "re.subn") \
                and len(c.args) >= 2 and not (dotted(c.func.value) or "").startswith("operator"):
            sites.append(Site(c, "regex", None, c.func.value, c.args[0], c.args[1]))
    return sites


def _flatten_concat(e: ast.AST) -> List[ast.AST]:
    if isinstance(e, ast.BinOp) and isinstance(e.op, ast.Add):
        return _flatten_concat(e.left) + _flatten_concat(e.right)
    if isinstance(e, ast.JoinedStr):
        out: List[ast.AST] = []
        for v in e.values:
            if isinstance(v, ast.FormattedValue):
                out.append(v.value)
            else:
                out.append(v)
        return out
    return [e]


_MODULE_CACHE: Dict = {}


def _find_callee(fn: ast.AST, call: ast.Call) -> Optional[ast.AST]:
    """A helper function defined in the same function, class or module as fn (name-resolved)."""
    f = call.func
    mod = source.module_of(fn)
    if isinstance(f, ast.Name):
        # nested in fn or an enclosing function, else module level
        scopes = [fn] + [a for a in source.ancestors(fn) if isinstance(a, (ast.FunctionDef, ast.AsyncFunctionDef))]
        for sc in scopes:
            for st in getattr(sc, "body", []):
                if isinstance(st, (ast.FunctionDef, ast.AsyncFunctionDef)) and st.name == f.id:
                    return st
            for st in source.walk_own(sc):
                if isinstance(st, (ast.FunctionDef, ast.AsyncFunctionDef)) and st.name == f.id:
                    return st
        return mod.functions.get(f.id)
    d = dotted(f)
    if d and d.startswith("experiment.") and d.count(".") >= 2:
        parts = d.split(".")
        for cut in (1, 2):   # module.function  or module.Class.method
            rel = "python/" + "/".join(parts[:-cut]) + ".py"
            try:
                other = _MODULE_CACHE.get((mod.root, rel)) or source.Module(mod.root, rel)
            except source.AnalysisError:
                continue
            _MODULE_CACHE[(mod.root, rel)] = other
            g = other.functions.get(".".join(parts[-cut:]))
            if g is not None:
                return g
    if isinstance(f, ast.Attribute) and isinstance(f.value, ast.Name):
        cls = source.enclosing_class(fn)
        if f.value.id in ("self", "cls") and cls is not None:
            return mod.functions.get("%s.%s" % (getattr(cls, "_qualname", cls.name), f.attr))
        if f.value.id in mod.classes:
            return mod.functions.get("%s.%s" % (f.value.id, f.attr))
    return None


def resolve_pattern(fn: ast.AST, pat: ast.AST, depth: int = 0, binds: Optional[Dict[str, ast.AST]] = None):
    """Follow local names, re.compile(...) wrappers and small helper functions to the expression(s) that build
    the pattern text.  Returns a list of (expression, function context, parameter bindings)."""
    binds = binds or {}
    if depth > 6:
        return [(pat, fn, binds)]
    if isinstance(pat, ast.Call) and (call_name(pat) or "") in ("re.compile",) and pat.args:
        return resolve_pattern(fn, pat.args[0], depth + 1, binds)
    if isinstance(pat, ast.Name):
        if pat.id in binds:
            return [(binds[pat.id], fn, {})]
        vals = _local_values(fn, pat.id)
        if not vals:
            vals = _loop_element_values(fn, pat.id)
        if vals:
            out = []
            for v in vals:
                out.extend(resolve_pattern(fn, v, depth + 1, binds))
            return out
    if isinstance(pat, ast.Call) and (call_name(pat) or "") not in ("re.escape",):
        g = _find_callee(fn, pat)
        if g is not None:
            params = [a.arg for a in g.args.args if a.arg not in ("self", "cls")]
            nb: Dict[str, ast.AST] = {}
            for p_, a in zip(params, pat.args):
                nb[p_] = binds.get(a.id, a) if isinstance(a, ast.Name) else a
            for kw in pat.keywords:
                if kw.arg:
                    nb[kw.arg] = kw.value
            out = []
            for r in source.walk_own(g):
                if isinstance(r, ast.Return) and r.value is not None:
                    out.extend(resolve_pattern(g, r.value, depth + 1, nb))
            if out:
                return out
    return [(pat, fn, binds)]


def _const_text(fn: ast.AST, e: ast.AST) -> Optional[str]:
    if isinstance(e, ast.Constant) and isinstance(e.value, str):
        return e.value
    if isinstance(e, ast.Name):
        vals = _local_values(fn, e.id)
        if vals and all(isinstance(v, ast.Constant) and isinstance(v.value, str) for v in vals) and len({v.value for v in vals}) == 1:
            return vals[0].value
        mod = source.module_of(fn)
        for st in mod.tree.body:
            if isinstance(st, ast.Assign) and any(isinstance(t, ast.Name) and t.id == e.id for t in st.targets) \
                    and isinstance(st.value, ast.Constant) and isinstance(st.value.value, str):
                return st.value.value
    return None


def _left_kind(left_txt: str) -> Optional[str]:
    """'strong' = a negative look-behind whose class excludes word characters, '.', '#' and '/' (the characters that can
    precede a producer name / path segment inside a longer reference), or a start-of-string alternative; 'word' = plain \\b."""
    import re as _re
    m = list(_re.finditer(r"\(\?<!\[([^\]]*)\]\)\s*$", left_txt))
    if m:
        cls = m[-1].group(1)
        # the exact set of printable ASCII characters the class excludes (ranges such as '#-/' included): evaluate the constant class
        try:
            rx = _re.compile("[" + cls + "]")
            excluded = {chr(c) for c in range(32, 127) if rx.fullmatch(chr(c))}
        except _re.error:
            return "word"
        need = set(".#/") | {c for c in map(chr, range(32, 127)) if c.isalnum() or c == "_"}
        if need <= excluded:
            # characters that may PRECEDE a reference in a command line (',', "'", '(', '$', '+', '=' ..) must not be excluded as well:
            # an occurrence glued to one of them would be taken for the inside of a longer reference and left in place
            extra = excluded - need - {"-"}
            return "strong" if not extra else "wide:" + "".join(sorted(extra))
        return "word"
    if left_txt.endswith("^") or "(?:^|" in left_txt:
        return "strong"
    if left_txt.endswith("\\b") or "(?<=" in left_txt or "(?<!" in left_txt:
        return "word"
    return None


def pattern_anchoring(expr: ast.AST, fn: Optional[ast.AST] = None, binds: Optional[Dict[str, ast.AST]] = None) -> Dict[str, object]:
    """Classify one pattern-building expression."""
    binds = binds or {}
    info: Dict[str, object] = {"escaped_keys": [], "escaped_key_nodes": [], "left": False, "right": False,
                               "raw_interpolation": False, "shape": source.short(expr, 120)}

    def key_node(call: ast.Call) -> Optional[ast.AST]:
        if not call.args:
            return None
        a = call.args[0]
        if isinstance(a, ast.Name) and a.id in binds:
            return binds[a.id]
        return a
    if isinstance(expr, ast.BinOp) and isinstance(expr.op, ast.Mod) and isinstance(expr.left, ast.Constant):
        # "...%s..." % key  : the key goes into the regex unescaped unless it is re.escape(...)
        args = expr.right.elts if isinstance(expr.right, ast.Tuple) else [expr.right]
        esc = [a for a in args if isinstance(a, ast.Call) and call_name(a) == "re.escape"]
        if len(esc) != len(args):
            info["raw_interpolation"] = True
        info["escaped_key_nodes"] = [key_node(a) for a in esc if key_node(a) is not None]
        info["escaped_keys"] = [source.src(k) for k in info["escaped_key_nodes"]]
        fmt = expr.left.value if isinstance(expr.left.value, str) else ""
        first = fmt.split("%s")[0] if "%s" in fmt else fmt
        last = fmt.split("%s")[-1] if "%s" in fmt else ""
        info["left"] = first.endswith("\\b") or any(a in first for a in ("(?<!", "(?<=", "(?:^|")) or first.endswith("^")
        info["left_kind"] = _left_kind(first)
        info["right"] = any(last.startswith(a) for a in RIGHT_ANCHORS)
        return info
    parts = _flatten_concat(expr)
    texts: List[Optional[str]] = [(_const_text(fn, p) if fn is not None else (p.value if isinstance(p, ast.Constant) and isinstance(p.value, str) else None))
                                  for p in parts]
    idx = [i for i, p in enumerate(parts) if isinstance(p, ast.Call) and call_name(p) == "re.escape"]
    # an alternation of escaped keys: '|'.join(re.escape(k) for k in <keys>)  (possibly bound to a local first)
    alt_keys: Dict[int, ast.AST] = {}
    for i, p in enumerate(parts):
        cands = [p]
        if isinstance(p, ast.Name) and fn is not None:
            cands = _local_values(fn, p.id) or [p]
        for c in cands:
            if isinstance(c, ast.Call) and isinstance(c.func, ast.Attribute) and c.func.attr == "join" \
                    and isinstance(c.func.value, ast.Constant) and c.func.value.value == "|" and len(c.args) == 1 \
                    and isinstance(c.args[0], (ast.GeneratorExp, ast.ListComp)) and len(c.args[0].generators) == 1:
                g = c.args[0]
                elt = g.elt
                if isinstance(elt, ast.Call) and call_name(elt) == "re.escape" and elt.args and isinstance(elt.args[0], ast.Name) \
                        and isinstance(g.generators[0].target, ast.Name) and g.generators[0].target.id == elt.args[0].id:
                    it = g.generators[0].iter
                    while isinstance(it, ast.Call) and call_name(it) in ("sorted", "list", "set", "tuple") and it.args:
                        it = it.args[0]
                    if isinstance(it, ast.Name) and it.id in binds:
                        it = binds[it.id]
                    alt_keys[i] = it
    idx = sorted(set(idx) | set(alt_keys))
    unknown = [p for i, p in enumerate(parts) if i not in idx and texts[i] is None]
    if unknown:
        info["raw_interpolation"] = True
    if not idx:
        return info
    info["escaped_key_nodes"] = [(alt_keys[i] if i in alt_keys else key_node(parts[i])) for i in idx
                                 if i in alt_keys or key_node(parts[i]) is not None]
    info["escaped_keys"] = [source.src(k) for k in info["escaped_key_nodes"]]
    info["alternation"] = bool(alt_keys)
    i0, i1 = idx[0], idx[-1]
    left_txt = "".join(t for t in texts[:i0] if t is not None)
    right_txt = "".join(t for t in texts[i1 + 1:] if t is not None)
    if alt_keys and left_txt.endswith("(?:") and right_txt.startswith(")"):
        # the alternation is wrapped in a non-capturing group between the anchors
        left_txt, right_txt = left_txt[:-3], right_txt[1:]
    elif alt_keys:
        # an unwrapped alternation: the anchors bind only to the first / last alternative
        info["left"] = info["right"] = False
        info["left_kind"] = None
        info["shape"] = info["shape"] + " (alternation not grouped: anchors apply to the outer alternatives only)"
        return info
    info["left"] = left_txt.endswith("\\b") or any(a in left_txt for a in ("(?<!", "(?<=", "(?:^|")) or left_txt.endswith("^")
    info["left_kind"] = _left_kind(left_txt)
    info["right"] = right_txt.startswith("\\b") or any(right_txt.startswith(a) for a in ("(?!", "(?=", "(?:$|", "$"))
    return info


def is_literal_key(site: Site) -> bool:
    k = site.key if site.kind == "plain" else site.pattern
    return isinstance(k, ast.Constant)


def _is_longest_first(fn: ast.AST, it: ast.AST, depth: int = 0) -> bool:
    if depth > 5:
        return False
    exprs = [it]
    if isinstance(it, ast.Name):
        exprs = _local_values(fn, it.id) or [it]
    if isinstance(it, ast.Call) and call_name(it) == "enumerate" and it.args:
        inner = it.args[0]
        exprs = _local_values(fn, inner.id) if isinstance(inner, ast.Name) else [inner]
    for e in exprs:
        # order-preserving wrappers: list(X), tuple(X), [f(x) for x in X (if ...)]
        if isinstance(e, ast.Call) and call_name(e) in ("list", "tuple") and len(e.args) == 1:
            if _is_longest_first(fn, e.args[0], depth + 1):
                continue
            return False
        if isinstance(e, (ast.ListComp, ast.GeneratorExp)) and len(e.generators) == 1:
            if _is_longest_first(fn, e.generators[0].iter, depth + 1):
                continue
            return False
        if isinstance(e, ast.Name) and e is not it:
            if _is_longest_first(fn, e, depth + 1):
                continue
            return False
        if isinstance(e, ast.Call) and call_name(e) == "sorted":
            kw = {k.arg: k.value for k in e.keywords}
            rev = kw.get("reverse")
            key = kw.get("key")
            by_len, neg = _key_is_length(fn, key)
            if by_len and ((isinstance(rev, ast.Constant) and rev.value is True) != neg):
                continue
        return False
    return bool(exprs)


def _key_is_length(fn: ast.AST, key: Optional[ast.AST]) -> Tuple[bool, bool]:
    """(the sort key is a length, it is negated): len itself, a lambda returning len(..)/-len(..), or a local function
    all of whose returns are len(..) of something."""
    if key is None:
        return False, False
    if isinstance(key, ast.Name) and key.id == "len":
        return True, False

    def is_len(e: ast.AST) -> Tuple[bool, bool]:
        if isinstance(e, ast.UnaryOp) and isinstance(e.op, ast.USub):
            ok, neg = is_len(e.operand)
            return ok, not neg
        if isinstance(e, ast.Call) and isinstance(e.func, ast.Name) and e.func.id == "len":
            return True, False
        return False, False
    if isinstance(key, ast.Lambda):
        return is_len(key.body)
    if isinstance(key, ast.Name):
        scopes = [fn] + [a for a in source.ancestors(fn) if isinstance(a, (ast.FunctionDef, ast.AsyncFunctionDef))]
        for sc in scopes:
            for st in ast.walk(sc):
                if isinstance(st, ast.FunctionDef) and st.name == key.id and st is not sc:
                    rets = [r.value for r in source.walk_own(st) if isinstance(r, ast.Return) and r.value is not None]
                    res = [is_len(r) for r in rets]
                    if res and all(ok for ok, _ in res) and len({n for _, n in res}) == 1:
                        return True, res[0][1]
                    return False, False
    return False, False


def chain_order(fn: ast.AST, site: Site) -> Optional[Tuple[str, ast.AST]]:
    """For a substitution whose result is fed to the next iteration (``s = p.sub(.., s)`` inside loops): the order of the
    OUTERMOST enclosing loop (the loop over the different keys).  ('longest-first' | 'unordered', loop) or None when the
    site is not in a loop."""
    loops = []
    for a in source.ancestors(site.call):
        if a is fn:
            break
        if isinstance(a, ast.For):
            loops.append(a)
    if not loops:
        return None
    outer = loops[-1]
    return ("longest-first" if _is_longest_first(fn, outer.iter) else "unordered", outer)


def loop_order(fn: ast.AST, site: Site) -> Optional[str]:
    """If the site sits in a ``for`` loop: 'longest-first' when the iterable is sorted by length descending,
    'unordered' otherwise; None when not in a loop."""
    for a in source.ancestors(site.call):
        if a is fn:
            break
        if isinstance(a, ast.For):
            return "longest-first" if _is_longest_first(fn, a.iter) else "unordered"
    return None
