"""SUB engine: anchored reference substitution (serves C03, C05, C10, C16).

A *substitution site* is a call that rewrites a string by content:
    s.replace(key, value)          -> kind 'plain'
    re.sub(pat, value, s, ...)     -> kind 'regex'
    compiled.sub(value, s)         -> kind 'regex' (pattern = what ``compiled`` was compiled from)
A site whose key is a string literal is not a reference substitution and is skipped.

For the remaining sites the rule is: the pattern must be built from ``re.escape(<key>)`` with a left anchor and
a right anchor (``\\b`` or a look-around group) adjacent to it.  A legacy reference ``[stageN.]producer[/file]:method``
is not self-delimiting: ``A:ref`` is a suffix of ``BA:ref`` and of ``stage0.A:ref``; ``X:copy`` is a prefix of
``X:copyout``.  So with an unanchored (or un-escaped) pattern there is always an input that is rewritten wrongly.
"""
from __future__ import annotations

import ast
from typing import Dict, List, Optional, Tuple

from . import source
from .source import call_name, dotted, last_attr

LEFT_ANCHORS = ("\\b", "(?<!", "(?<=", "(?:^|", "^")
RIGHT_ANCHORS = ("\\b", "(?!", "(?=", "(?:$|", "$")


class Site:
    def __init__(self, call: ast.Call, kind: str, key: Optional[ast.AST], pattern: Optional[ast.AST],
                 value: Optional[ast.AST], subject: Optional[ast.AST]):
        self.call = call
        self.kind = kind
        self.key = key
        self.pattern = pattern
        self.value = value
        self.subject = subject


def _local_values(fn: ast.AST, name: str) -> List[ast.AST]:
    out = []
    scopes = [fn] + [a for a in source.ancestors(fn) if isinstance(a, (ast.FunctionDef, ast.AsyncFunctionDef))]
    for sc in scopes:
        for n in source.walk_own(sc):
            if isinstance(n, ast.Assign):
                for t in n.targets:
                    if isinstance(t, ast.Name) and t.id == name:
                        out.append(n.value)
        if out:
            break
    return out


def find_sites(fn: ast.AST, include_nested: bool = True) -> List[Site]:
    sites: List[Site] = []
    for c in source.calls_in(fn, include_nested=include_nested):
        cn = call_name(c) or ""
        la = last_attr(c)
        if la == "replace" and isinstance(c.func, ast.Attribute) and len(c.args) in (2, 3) and not c.keywords:
            # exclude os.path / datetime replace etc: receiver must not be a module-like dotted name ending in 'path'
            recv = dotted(c.func.value) or ""
            if recv.endswith("datetime") or recv.endswith("date"):
                continue
            sites.append(Site(c, "plain", c.args[0], None, c.args[1], c.func.value))
        elif cn in ("re.sub", "re.subn") and len(c.args) >= 3:
            sites.append(Site(c, "regex", None, c.args[0], c.args[1], c.args[2]))
        elif la in ("sub", "subn") and isinstance(c.func, ast.Attribute) and cn not in ("re.sub", "re.subn") \
                and len(c.args) >= 2 and not (dotted(c.func.value) or "").startswith("operator"):
            sites.append(Site(c, "regex", None, c.func.value, c.args[0], c.args[1]))
    return sites


def _flatten_concat(e: ast.AST) -> List[ast.AST]:
    if isinstance(e, ast.BinOp) and isinstance(e.op, ast.Add):
        return _flatten_concat(e.left) + _flatten_concat(e.right)
    if isinstance(e, ast.JoinedStr):
        out: List[ast.AST] = []
        for v in e.values:
            if isinstance(v, ast.FormattedValue):
                out.append(v.value)
            else:
                out.append(v)
        return out
    return [e]


def resolve_pattern(fn: ast.AST, pat: ast.AST, depth: int = 0) -> List[ast.AST]:
    """Follow local names and re.compile(...) wrappers to the expression(s) that build the pattern text."""
    if depth > 4:
        return [pat]
    if isinstance(pat, ast.Call) and (call_name(pat) or "") in ("re.compile",) and pat.args:
        return resolve_pattern(fn, pat.args[0], depth + 1)
    if isinstance(pat, ast.Name):
        vals = _local_values(fn, pat.id)
        if vals:
            out: List[ast.AST] = []
            for v in vals:
                out.extend(resolve_pattern(fn, v, depth + 1))
            return out
    return [pat]


def pattern_anchoring(expr: ast.AST) -> Dict[str, object]:
    """Classify one pattern-building expression."""
    info: Dict[str, object] = {"escaped_keys": [], "left": False, "right": False, "raw_interpolation": False,
                               "shape": source.short(expr, 120)}
    if isinstance(expr, ast.BinOp) and isinstance(expr.op, ast.Mod) and isinstance(expr.left, ast.Constant):
        # "...%s..." % key  : the key goes into the regex unescaped unless it is re.escape(...)
        args = expr.right.elts if isinstance(expr.right, ast.Tuple) else [expr.right]
        esc = [a for a in args if isinstance(a, ast.Call) and call_name(a) == "re.escape"]
        if len(esc) != len(args):
            info["raw_interpolation"] = True
        info["escaped_keys"] = [source.src(a.args[0]) for a in esc if a.args]
        fmt = expr.left.value if isinstance(expr.left.value, str) else ""
        first = fmt.split("%s")[0] if "%s" in fmt else fmt
        last = fmt.split("%s")[-1] if "%s" in fmt else ""
        info["left"] = any(first.endswith(a) or (a in ("(?<!", "(?<=") and a in first) for a in LEFT_ANCHORS)
        info["right"] = any(last.startswith(a) for a in RIGHT_ANCHORS)
        return info
    parts = _flatten_concat(expr)
    idx = [i for i, p in enumerate(parts) if isinstance(p, ast.Call) and call_name(p) == "re.escape"]
    non_const_non_escape = [p for i, p in enumerate(parts) if i not in idx and not isinstance(p, ast.Constant)]
    if non_const_non_escape and not idx:
        info["raw_interpolation"] = True
        return info
    if not idx:
        return info
    info["escaped_keys"] = [source.src(parts[i].args[0]) for i in idx if parts[i].args]
    i0, i1 = idx[0], idx[-1]
    left_txt = "".join(p.value for p in parts[:i0] if isinstance(p, ast.Constant) and isinstance(p.value, str))
    right_txt = "".join(p.value for p in parts[i1 + 1:] if isinstance(p, ast.Constant) and isinstance(p.value, str))
    info["left"] = any(left_txt.endswith(a) for a in ("\\b",)) or any(a in left_txt for a in ("(?<!", "(?<=", "(?:^|")) \
        or left_txt.endswith("^")
    info["right"] = right_txt.startswith("\\b") or any(right_txt.startswith(a) for a in ("(?!", "(?=", "(?:$|", "$"))
    if any(not isinstance(p, (ast.Constant,)) and i not in idx for i, p in enumerate(parts)):
        info["raw_interpolation"] = True
    return info


def is_literal_key(site: Site) -> bool:
    k = site.key if site.kind == "plain" else site.pattern
    return isinstance(k, ast.Constant)


def loop_order(fn: ast.AST, site: Site) -> Optional[str]:
    """If the site sits in a ``for`` loop: 'longest-first' when the iterable is sorted by length descending,
    'unordered' otherwise; None when not in a loop."""
    for a in source.ancestors(site.call):
        if a is fn:
            break
        if isinstance(a, ast.For):
            it = a.iter
            exprs = [it]
            if isinstance(it, ast.Name):
                exprs = _local_values(fn, it.id) or [it]
            if isinstance(it, ast.Call) and call_name(it) == "enumerate" and it.args:
                inner = it.args[0]
                exprs = _local_values(fn, inner.id) if isinstance(inner, ast.Name) else [inner]
            for e in exprs:
                if isinstance(e, ast.Call) and call_name(e) == "sorted":
                    kw = {k.arg: k.value for k in e.keywords}
                    rev = kw.get("reverse")
                    key = kw.get("key")
                    keysrc = source.src(key) if key is not None else ""
                    by_len = "len" in keysrc
                    neg = "-len" in keysrc.replace(" ", "")
                    if by_len and ((isinstance(rev, ast.Constant) and rev.value is True) != neg):
                        return "longest-first"
            return "unordered"
    return None
