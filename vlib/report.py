from __future__ import annotations

import json
import os
import sys
import time
import traceback
from typing import Any, Callable, Dict, List, Optional

from . import source
from .source import AnalysisError

VERIF_DIR = os.path.dirname(os.path.dirname(os.path.abspath(__file__)))


def _known_findings_path() -> str:
    return os.path.join(VERIF_DIR, "known_findings.json")


def canon_construct(text: str) -> str:
    """A construct text with its bare identifiers (variables: not called, not an attribute name) replaced by $1, $2, .. in order of
    first appearance: the key of a known finding must not change when a local variable is renamed."""
    import re as _re
    names: Dict[str, str] = {}

    def repl(m):
        word = m.group(0)
        start, end = m.start(), m.end()
        before = text[start - 1] if start > 0 else ""
        after = text[end:end + 1]
        if before == "." or after == "(" or word[0].isdigit():
            return word
        if word not in names:
            names[word] = "$%d" % (len(names) + 1)
        return names[word]
    return _re.sub(r"[A-Za-z_][A-Za-z_0-9]*", repl, text or "")


def same_construct(a: str, b: str) -> bool:
    """Equality of two construct texts up to the names of variables; a text that was cut with '...' (source.short) is compared on
    the tokens that both sides still have (a longer variable name moves the cut) and on what follows the cut."""
    import re as _re
    if "..." not in (a or "") and "..." not in (b or ""):
        return canon_construct(a) == canon_construct(b)
    ha, _, ta = (a or "").partition("...")
    hb, _, tb = (b or "").partition("...")
    if ta.strip() != tb.strip():
        return False
    tok = lambda t: _re.findall(r"\$\d+|[A-Za-z_][A-Za-z_0-9]*|\S", canon_construct(t))
    xa, xb = tok(ha), tok(hb)
    n = min(len(xa), len(xb)) - 1          # the last token of the shorter side may itself be cut
    return n >= 3 and xa[:n] == xb[:n]


def load_known_findings() -> Dict[str, Any]:
    p = _known_findings_path()
    if not os.path.exists(p):
        return {"known": [], "fixed": []}
    with open(p) as f:
        return json.load(f)


class Ctx:
    """Collects obligations for one property check and writes evidence.

    An *obligation* is one rule instance decided at one code site.  ``ok=False`` makes it a
    violation unless the committed known-findings file lists exactly that (rule, file,
    function, construct)."""

    def __init__(self, pid: str, tier: str, repo: source.Repo, level: str = "other"):
        self.pid = pid
        self.tier = tier
        self.repo = repo
        self.level = level
        self.t0 = time.time()
        self.obligations: List[Dict[str, Any]] = []
        self.assumptions: List[str] = []
        self.rules: Dict[str, str] = {}
        self.extra: Dict[str, Any] = {}
        self.functions_analysed: set = set()
        self.calls_resolved = 0
        self.calls_unresolved = 0
        self.paths = 0
        self.floors: List[Dict[str, Any]] = []
        self.floor_failures: List[str] = []
        self.info: List[str] = []
        self.explanation = ""
        self.seed = int(os.environ.get("VERIF_SEED", "0") or 0)

    # -- registration -----------------------------------------------------------------
    def rule(self, rid: str, text: str) -> None:
        self.rules[rid] = text

    def assume(self, text: str) -> None:
        if text not in self.assumptions:
            self.assumptions.append(text)

    def analysed(self, node) -> None:
        try:
            self.functions_analysed.add("%s::%s" % (source.module_of(node).rel, source.qualname(node)))
        except Exception:
            pass

    def note(self, text: str) -> None:
        self.info.append(text)

    def ob(self, rule: str, node, ok: bool, what: str, construct: Optional[str] = None,
           trivial: bool = False, function: Optional[str] = None, file: Optional[str] = None) -> bool:
        """Record one decided rule instance anchored at ast node ``node``."""
        if node is not None:
            mod = source.module_of(node)
            f = file or mod.rel
            line = getattr(node, "lineno", 0)
            fn = function or source.qualname(node)
            cons = construct if construct is not None else source.short(node, 200)
        else:
            f, line, fn, cons = file or "?", 0, function or "?", construct or ""
        self.obligations.append({
            "rule": rule, "file": f, "line": line, "function": fn,
            "construct": cons, "ok": bool(ok), "what": what, "trivial": trivial,
        })
        return ok

    def floor(self, rule: str, count: int, minimum: int, what: str) -> None:
        """Instance floor: fewer matched sites than confirmed by hand = analysis broken."""
        self.floors.append({"rule": rule, "count": count, "minimum": minimum, "what": what})
        if count < minimum:
            # deferred: a violation found elsewhere is still reported (exit 1); otherwise exit 2
            self.floor_failures.append("instance floor for %s: matched %d %s, expected at least %d"
                                       % (rule, count, what, minimum))

    def require(self, cond: bool, msg: str) -> None:
        if not cond:
            raise AnalysisError(msg)

    # -- finishing --------------------------------------------------------------------
    def finish(self) -> int:
        kf = load_known_findings()
        known = [k for k in kf.get("known", []) if k.get("property") == self.pid]
        failing = [o for o in self.obligations if not o["ok"]]
        new: List[Dict[str, Any]] = []
        matched_known: List[Dict[str, Any]] = []
        # one known entry absorbs at most one failing obligation: first the obligations whose construct text is exactly the recorded
        # one, then - for the entries still free - obligations whose construct equals it up to variable names (a renamed local).
        # A further site of the same shape (e.g. a fourth early-binding assignment) finds no free entry and is reported as new.
        free = list(known)
        hit_of: Dict[int, Dict[str, Any]] = {}
        for exact in (True, False):
            for idx, o in enumerate(failing):
                if idx in hit_of:
                    continue
                for k in free:
                    if k.get("rule") == o["rule"] and k.get("file") == o["file"] and k.get("function") == o["function"] and (
                            k.get("construct") == o["construct"] if exact else same_construct(k.get("construct"), o["construct"])):
                        hit_of[idx] = k
                        free.remove(k)
                        break
        for idx, o in enumerate(failing):
            if idx in hit_of:
                o["known_finding"] = True
                matched_known.append({"finding": hit_of[idx], "obligation": o})
            else:
                new.append(o)

        evid_dir = os.environ.get("VERIF_EVIDENCE_DIR", os.path.join(VERIF_DIR, "evidence"))
        os.makedirs(evid_dir, exist_ok=True)
        nontrivial = {(o["rule"], o["file"], o["function"], o["construct"])
                      for o in self.obligations if not o["trivial"]}
        samples = []
        seen_rules = set()
        for o in self.obligations:
            if o["rule"] in seen_rules and o["ok"]:
                continue
            seen_rules.add(o["rule"])
            samples.append({k: o[k] for k in ("rule", "file", "line", "function", "construct", "ok", "what")})
            if len(samples) >= 40:
                break
        by_rule: Dict[str, Dict[str, int]] = {}
        for o in self.obligations:
            r = by_rule.setdefault(o["rule"], {"instances": 0, "held": 0, "failed": 0})
            r["instances"] += 1
            r["held" if o["ok"] else "failed"] += 1
        coverage = {
            "explanation": self.explanation or ("static rules over the current source of %s" % self.repo.root),
            "evaluations": len(self.obligations),
            "distinct_nontrivial": len(nontrivial),
            "rule": "one evaluation = one rule instance decided at one code site (file, function, construct); "
                    "non-trivial = the site contains the construct the rule constrains (sites recorded only to show "
                    "absence of a construct are trivial); distinct by (rule, file, function, construct text)",
            "samples": samples,
            "rules": self.rules,
            "instances_by_rule": by_rule,
            "functions_analysed": sorted(self.functions_analysed),
            "paths_enumerated": self.paths,
            "calls_resolved": self.calls_resolved,
            "calls_unresolved": self.calls_unresolved,
            "instance_floors": self.floors,
            "modules": self.repo.digests(),
            "information": self.info,
            "known_findings_matched": [m["finding"].get("what", "") for m in matched_known],
            "known_findings_observed": [k.get("what", "") for k in kf.get("observed", []) if k.get("property") == self.pid],
            "exhaustive": False,
        }
        coverage.update(self.extra)
        evidence = {
            "property_id": self.pid,
            "tier": self.tier,
            "seed": self.seed,
            "level": self.level,
            "coverage": coverage,
            "assumptions": self.assumptions,
            "wall_s": round(time.time() - self.t0, 3),
            "violations": len(new),
        }
        if os.environ.get("VERIF_NO_EVIDENCE") != "1":
            tmp = os.path.join(evid_dir, ".%s.json.tmp%d" % (self.pid, os.getpid()))
            with open(tmp, "w") as f:
                json.dump(evidence, f, indent=1, sort_keys=True)
                f.write("\n")
            os.replace(tmp, os.path.join(evid_dir, "%s.json" % self.pid))

        print("%s [%s] rules=%d instances=%d nontrivial=%d functions=%d failing=%d known=%d new=%d wall=%.2fs"
              % (self.pid, self.tier, len(by_rule), len(self.obligations), len(nontrivial),
                 len(self.functions_analysed), len(failing), len(matched_known), len(new),
                 time.time() - self.t0))
        for m in matched_known:
            o = m["obligation"]
            print("KNOWN-FINDING: property=%s %s [%s at %s:%d %s: %s]"
                  % (self.pid, m["finding"].get("what", o["what"]), o["rule"], o["file"], o["line"],
                     o["function"], o["construct"]))
        # findings identified by a HISTORY (a schedule / input reproduced against the real code) that no static rule of this check
        # decides: they suppress nothing, and are listed for as long as the function they live in still contains the witness statement
        for k in kf.get("observed", []):
            if k.get("property") != self.pid:
                continue
            w = k.get("witness") or {}
            present = True
            try:
                mod = self.repo.module(w["file"])
                fn = mod.functions.get(w["function"])
                import ast as _ast
                norm = lambda t: "".join(t.split())
                present = fn is not None and norm(w["statement"]) in norm(_ast.unparse(fn))
            except Exception:
                present = False
            if present:
                print("KNOWN-FINDING: property=%s %s [history, not decided statically; reproducer %s; lives in %s %s]"
                      % (self.pid, k.get("what", ""), k.get("reproducer", "?"), w.get("file", "?"), w.get("function", "?")))
        if new:
            replay_dir = os.environ.get("VERIF_REPLAY_DIR", os.path.join(VERIF_DIR, "replay"))
            os.makedirs(replay_dir, exist_ok=True)
            replay = os.path.join(replay_dir, "%s.json" % self.pid)
            with open(replay, "w") as f:
                json.dump({"property": self.pid, "repo": self.repo.root, "violations": new,
                           "rules": {o["rule"]: self.rules.get(o["rule"], "") for o in new}}, f, indent=1)
            for o in new:
                print("  violated %s at %s:%d in %s: %s -- %s"
                      % (o["rule"], o["file"], o["line"], o["function"], o["construct"], o["what"]))
            print("VIOLATION property=%s replay=%s" % (self.pid, replay))
            return 1
        if self.floor_failures:
            for ff in self.floor_failures:
                print("ANALYSIS-ERROR property=%s %s" % (self.pid, ff))
            return 2
        return 0


def run_check(pid: str, fn: Callable[[Ctx], None], tier: str, repo_root: Optional[str] = None) -> int:
    try:
        repo = source.Repo(repo_root)
        ctx = Ctx(pid, tier, repo)
        fn(ctx)
        return ctx.finish()
    except AnalysisError as e:
        print("ANALYSIS-ERROR property=%s %s" % (pid, e))
        return 2
    except Exception:  # any crash of the analyser is an analysis error, not a violation
        tb = traceback.format_exc()
        print("ANALYSIS-ERROR property=%s internal error\n%s" % (pid, tb))
        return 2
