"""STATE: effects of a function on state that outlives the call.

``nonlocal_effects(fn)`` lists the constructs through which ``fn`` (nested functions included) stores into, deletes from
or mutates an object that is not one of its own locals: ``self``/``cls``-rooted attributes and items, attributes/items of
a name the function does not bind itself (a class, a module global), ``global`` declarations and memoising decorators on
nested functions.  A function with no such effect cannot remember anything from one call to the next - the structural
part of "the value is computed afresh from the current inputs".  Parameters are locals: appending to a caller-supplied
list (an out-parameter) is not remembered state of the callee.
"""
from __future__ import annotations

import ast
from typing import List, Optional, Set

from . import source

MUTATORS = {"update", "append", "add", "setdefault", "pop", "clear", "extend", "insert", "remove", "popitem", "discard",
            "__setitem__", "appendleft", "move_to_end"}


def root_name(e: ast.AST) -> Optional[str]:
    while isinstance(e, (ast.Attribute, ast.Subscript)):
        e = e.value
    return e.id if isinstance(e, ast.Name) else None


def self_rooted(e: ast.AST) -> bool:
    return root_name(e) in ("self", "cls")


def local_names(f: ast.AST) -> Set[str]:
    out: Set[str] = set()
    for n in ast.walk(f):
        if isinstance(n, ast.Name) and isinstance(n.ctx, ast.Store):
            out.add(n.id)
        elif isinstance(n, ast.arg):
            out.add(n.arg)
        elif isinstance(n, (ast.FunctionDef, ast.AsyncFunctionDef, ast.ClassDef)):
            out.add(n.name)
        elif isinstance(n, ast.ExceptHandler) and n.name:
            out.add(n.name)
        elif isinstance(n, (ast.Import, ast.ImportFrom)):
            out.update((a.asname or a.name).split(".")[0] for a in n.names)
    return out


def nonlocal_effects(f: ast.AST) -> List[ast.AST]:
    locs = local_names(f)

    def is_store_target(t: ast.AST) -> bool:
        if not isinstance(t, (ast.Attribute, ast.Subscript)):
            return False
        if self_rooted(t):
            return True
        r = root_name(t)
        return r is not None and r not in locs
    bad: List[ast.AST] = []
    for n in ast.walk(f):
        if isinstance(n, (ast.Assign, ast.AnnAssign, ast.AugAssign)):
            targets = n.targets if isinstance(n, ast.Assign) else [n.target]
            flat = []
            for t in targets:
                flat.extend(t.elts if isinstance(t, (ast.Tuple, ast.List)) else [t])
            bad.extend(n for t in flat if is_store_target(t))
        elif isinstance(n, ast.Delete):
            bad.extend(n for t in n.targets if is_store_target(t))
        elif isinstance(n, ast.Call) and isinstance(n.func, ast.Attribute) and n.func.attr in MUTATORS:
            recv = n.func.value
            r = root_name(recv)
            if self_rooted(recv) and isinstance(recv, (ast.Attribute, ast.Subscript)):
                bad.append(n)
            elif r is not None and r not in locs and r not in ("self", "cls"):
                bad.append(n)
        elif isinstance(n, (ast.Global, ast.Nonlocal)) and n is not f:
            if isinstance(n, ast.Global):
                bad.append(n)
        elif isinstance(n, (ast.FunctionDef, ast.AsyncFunctionDef)) and any("cache" in source.src(d).lower() for d in n.decorator_list):
            bad.append(n.decorator_list[0])
    return bad
