"""STATE: effects of a function on state that outlives the call.

``nonlocal_effects(fn)`` lists the constructs through which ``fn`` (nested functions included) stores into, deletes from
or mutates an object that is not one of its own locals: ``self``/``cls``-rooted attributes and items, attributes/items of
a name the function does not bind itself (a class, a module global), ``global`` declarations and memoising decorators on
nested functions.  A function with no such effect cannot remember anything from one call to the next - the structural
part of "the value is computed afresh from the current inputs".  Parameters are locals: appending to a caller-supplied
list (an out-parameter) is not remembered state of the callee.
"""
from __future__ import annotations

import ast
from typing import List, Optional, Set, Tuple

from . import source

MUTATORS = {"update", "append", "add", "setdefault", "pop", "clear", "extend", "insert", "remove", "popitem", "discard",
            "__setitem__", "appendleft", "move_to_end"}


def root_name(e: ast.AST) -> Optional[str]:
    while isinstance(e, (ast.Attribute, ast.Subscript)):
        e = e.value
    return e.id if isinstance(e, ast.Name) else None


def self_rooted(e: ast.AST) -> bool:
    return root_name(e) in ("self", "cls")


def local_names(f: ast.AST) -> Set[str]:
    out: Set[str] = set()
    for n in ast.walk(f):
        if isinstance(n, ast.Name) and isinstance(n.ctx, ast.Store):
            out.add(n.id)
        elif isinstance(n, ast.arg):
            out.add(n.arg)
        elif isinstance(n, (ast.FunctionDef, ast.AsyncFunctionDef, ast.ClassDef)):
            out.add(n.name)
        elif isinstance(n, ast.ExceptHandler) and n.name:
            out.add(n.name)
        elif isinstance(n, (ast.Import, ast.ImportFrom)):
            out.update((a.asname or a.name).split(".")[0] for a in n.names)
    return out


def nonlocal_effects(f: ast.AST) -> List[ast.AST]:
    locs = local_names(f)

    def is_store_target(t: ast.AST) -> bool:
        if not isinstance(t, (ast.Attribute, ast.Subscript)):
            return False
        if self_rooted(t):
            return True
        r = root_name(t)
        return r is not None and r not in locs
    bad: List[ast.AST] = []
    for n in ast.walk(f):
        if isinstance(n, (ast.Assign, ast.AnnAssign, ast.AugAssign)):
            targets = n.targets if isinstance(n, ast.Assign) else [n.target]
            flat = []
            for t in targets:
                flat.extend(t.elts if isinstance(t, (ast.Tuple, ast.List)) else [t])
            bad.extend(n for t in flat if is_store_target(t))
        elif isinstance(n, ast.Delete):
            bad.extend(n for t in n.targets if is_store_target(t))
        elif isinstance(n, ast.Call) and isinstance(n.func, ast.Attribute) and n.func.attr in MUTATORS:
            recv = n.func.value
            r = root_name(recv)
            if self_rooted(recv) and isinstance(recv, (ast.Attribute, ast.Subscript)):
                bad.append(n)
            elif r is not None and r not in locs and r not in ("self", "cls"):
                bad.append(n)
        elif isinstance(n, (ast.Global, ast.Nonlocal)) and n is not f:
            if isinstance(n, ast.Global):
                bad.append(n)
        elif isinstance(n, (ast.FunctionDef, ast.AsyncFunctionDef)) and any("cache" in source.src(d).lower() for d in n.decorator_list):
            bad.append(n.decorator_list[0])
    return bad


# ------------------------------------------------------------------------------------------------------------------
# in-place mutation of class-level mutable constants through a local alias
# ------------------------------------------------------------------------------------------------------------------

def class_mutable_constants(cls_node: ast.ClassDef) -> Set[str]:
    """Names bound in the class body to a list/dict/set display (or list()/dict()/set() call): shared by every user."""
    out: Set[str] = set()
    for n in cls_node.body:
        vals = []
        if isinstance(n, ast.Assign):
            vals = [(t, n.value) for t in n.targets]
        elif isinstance(n, ast.AnnAssign) and n.value is not None:
            vals = [(n.target, n.value)]
        for t, v in vals:
            if isinstance(t, ast.Name) and (isinstance(v, (ast.List, ast.Dict, ast.Set, ast.ListComp, ast.DictComp, ast.SetComp)) or (
                    isinstance(v, ast.Call) and isinstance(v.func, ast.Name) and v.func.id in ("list", "dict", "set") )):
                out.add(t.id)
    return out


def _alias_candidates(e: ast.AST) -> List[ast.AST]:
    """expressions whose *object* (not a copy) may be the value of e"""
    if isinstance(e, ast.BoolOp):
        out: List[ast.AST] = []
        for v in e.values:
            out.extend(_alias_candidates(v))
        return out
    if isinstance(e, ast.IfExp):
        return _alias_candidates(e.body) + _alias_candidates(e.orelse)
    if isinstance(e, ast.NamedExpr):
        return _alias_candidates(e.value)
    return [e]


def shared_constant_mutations(fn: ast.AST, constants: Set[str], class_names: Set[str], cfg=None) -> List[tuple]:
    """[(mutation node, constant name, how)]: in-place mutations in ``fn`` of an object that may be the class-level constant
    itself - directly (``cls.X.append``, ``cls.X += ..``) or through locals bound to it without a copy (flow-sensitive:
    reaching definitions of the mutated local at the mutation site)."""
    from . import flow
    from .cfg import CFG, own_calls
    roots = {"self", "cls"} | set(class_names)

    def const_of(e: ast.AST) -> Optional[str]:
        if isinstance(e, ast.Attribute) and e.attr in constants and isinstance(e.value, ast.Name) and e.value.id in roots:
            return e.attr
        return None
    # quick exit: does the function mention a constant at all?
    if not any(const_of(n) for n in ast.walk(fn)):
        return []
    cfg = cfg or CFG(fn)
    rd_cache: dict = {}

    def may_be_constant(e: ast.AST, here: int, depth: int = 0) -> Optional[str]:
        if depth > 6:
            return None
        for c in _alias_candidates(e):
            k = const_of(c)
            if k:
                return k
            if isinstance(c, ast.Name):
                if c.id not in rd_cache:
                    rd_cache[c.id] = flow.reaching_defs(cfg, c.id)
                for d in rd_cache[c.id].get(here, frozenset()):
                    if d < 0:
                        continue
                    v = flow.def_value(cfg, d, c.id)
                    if v is None:
                        # an augmented assignment keeps the object: look through it
                        a = cfg.nodes[d].ast
                        if isinstance(a, ast.AugAssign) and isinstance(a.target, ast.Name):
                            k = may_be_constant(a.target, d, depth + 1)
                            if k:
                                return k
                        continue
                    k = may_be_constant(v, d, depth + 1)
                    if k:
                        return k
        return None
    out: List[tuple] = []
    for n in cfg.nodes:
        a = n.ast
        if a is None or n.kind not in ("stmt", "test", "for", "with"):
            continue
        if n.kind == "stmt" and isinstance(a, ast.AugAssign):
            tgt = a.target
            k = const_of(tgt) or (may_be_constant(tgt, n.id) if isinstance(tgt, ast.Name) else None)
            if k:
                out.append((a, k, "augmented assignment (in place for a list/dict/set)"))
        if n.kind == "stmt" and isinstance(a, (ast.Assign, ast.Delete)):
            tgts = a.targets
            for t in tgts:
                if isinstance(t, ast.Subscript):
                    k = may_be_constant(t.value, n.id)
                    if k:
                        out.append((a, k, "item store/delete"))
        if isinstance(a, (ast.FunctionDef, ast.AsyncFunctionDef, ast.ClassDef)):
            continue
        for c in own_calls(a):
            if isinstance(c.func, ast.Attribute) and c.func.attr in (MUTATORS | {"sort", "reverse"}):
                k = may_be_constant(c.func.value, n.id)
                if k:
                    out.append((c, k, ".%s()" % c.func.attr))
    return out


FRESH_CALLS = {"list", "dict", "set", "sorted", "tuple", "frozenset", "copy", "deepcopy", "deep_copy", "OrderedDict"}


def stale_returns(fn: ast.AST, cfg=None) -> List[tuple]:
    """[(return node, why)] for the returns of ``fn`` whose value is not provably a fresh object (a display, a comprehension,
    list(..)/dict(..)/sorted(..)/x.copy()/deepcopy(..), a concatenation of such), following locals through their reaching
    definitions.  A caller may then mutate what it receives without changing what the next caller receives."""
    from . import flow
    from .cfg import CFG
    cfg = cfg or CFG(fn)
    out: List[tuple] = []

    def fresh(e: ast.AST, here: int, depth: int = 0) -> Optional[str]:
        """None when fresh, else the reason"""
        if depth > 8:
            return "too deep"
        if isinstance(e, (ast.List, ast.Dict, ast.Set, ast.ListComp, ast.DictComp, ast.SetComp, ast.Tuple, ast.Constant, ast.JoinedStr)):
            return None
        if isinstance(e, ast.Call):
            name = e.func.id if isinstance(e.func, ast.Name) else e.func.attr if isinstance(e.func, ast.Attribute) else ""
            if name in FRESH_CALLS or name in ("keys", "values", "items", "join", "format", "split"):
                return None
            return "%s(..) is not known to return a new object" % name
        if isinstance(e, ast.BinOp):
            return None
        if isinstance(e, ast.IfExp):
            return fresh(e.body, here, depth + 1) or fresh(e.orelse, here, depth + 1)
        if isinstance(e, ast.BoolOp):
            for v in e.values:
                r = fresh(v, here, depth + 1)
                if r:
                    return r
            return None
        if isinstance(e, ast.Name):
            rd = flow.reaching_defs(cfg, e.id).get(here, frozenset())
            for d in rd:
                if d < 0:
                    return "'%s' is a parameter or undefined" % e.id
                v = flow.def_value(cfg, d, e.id)
                if v is None:
                    a = cfg.nodes[d].ast
                    if isinstance(a, ast.AugAssign):
                        continue
                    return "'%s' is not defined by a plain assignment" % e.id
                r = fresh(v, d, depth + 1)
                if r:
                    return r
            return None
        if isinstance(e, (ast.Attribute, ast.Subscript)):
            return "%s is an object that outlives the call" % source.src(e)
        return "unrecognised expression"
    for n in cfg.nodes:
        if n.kind == "stmt" and isinstance(n.ast, ast.Return) and n.ast.value is not None:
            why = fresh(n.ast.value, n.id)
            if why:
                out.append((n.ast, why))
    return out


# ------------------------------------------------------------------------------------------------------------------
# class-level (process-wide) state
# ------------------------------------------------------------------------------------------------------------------

def class_level_effects(fn: ast.AST, class_names: Set[str]) -> List[tuple]:
    """[(node, attribute, stored value or None, kind)] for every store / item store / deletion / mutator call in ``fn`` whose
    target is rooted at ``cls`` or at the name of a class: state shared by every instance and every later call in the process."""
    roots = {"cls"} | set(class_names)
    locs = local_names(fn)
    out: List[tuple] = []

    def class_attr(e: ast.AST) -> Optional[str]:
        """<root>.<attr>[...]... -> attr when root is cls / a class name (and not shadowed by a local)"""
        chain = e
        while isinstance(chain, ast.Subscript):
            chain = chain.value
        while isinstance(chain, ast.Attribute) and isinstance(chain.value, (ast.Attribute, ast.Subscript)):
            chain = chain.value
            while isinstance(chain, ast.Subscript):
                chain = chain.value
        if isinstance(chain, ast.Attribute) and isinstance(chain.value, ast.Name) and chain.value.id in roots \
                and (chain.value.id == "cls" or chain.value.id not in locs):
            return chain.attr
        return None
    for n in ast.walk(fn):
        if isinstance(n, (ast.Assign, ast.AnnAssign, ast.AugAssign)):
            targets = n.targets if isinstance(n, ast.Assign) else [n.target]
            flat = []
            for t in targets:
                flat.extend(t.elts if isinstance(t, (ast.Tuple, ast.List)) else [t])
            for t in flat:
                if isinstance(t, (ast.Attribute, ast.Subscript)):
                    a = class_attr(t)
                    if a:
                        out.append((n, a, n.value, "item store" if isinstance(t, ast.Subscript) else "store"))
        elif isinstance(n, ast.Delete):
            for t in n.targets:
                if isinstance(t, (ast.Attribute, ast.Subscript)):
                    a = class_attr(t)
                    if a:
                        out.append((n, a, None, "delete"))
        elif isinstance(n, ast.Call) and isinstance(n.func, ast.Attribute) and n.func.attr in MUTATORS and isinstance(n.func.value, (ast.Attribute, ast.Subscript)):
            a = class_attr(n.func.value)
            if a:
                out.append((n, a, n.args[0] if n.args else None, ".%s()" % n.func.attr))
    return out


def is_immutable_scalar(e: Optional[ast.AST]) -> bool:
    """a value that cannot be changed by whoever receives it: constants, arithmetic on them, int()/float()/str()/bool()/len()"""
    if e is None:
        return False
    if isinstance(e, ast.Constant):
        return True
    if isinstance(e, ast.UnaryOp):
        return is_immutable_scalar(e.operand)
    if isinstance(e, ast.BinOp) and isinstance(e.op, (ast.Add, ast.Sub, ast.Mult, ast.Div, ast.FloorDiv, ast.Mod, ast.Pow)):
        # arithmetic; '+' of two lists is excluded by requiring at least one scalar-looking operand
        return is_immutable_scalar(e.left) or is_immutable_scalar(e.right)
    if isinstance(e, ast.Call) and isinstance(e.func, ast.Name) and e.func.id in ("int", "float", "str", "bool", "len", "round", "abs", "min", "max"):
        return True
    if isinstance(e, ast.Compare):
        return True
    if isinstance(e, ast.JoinedStr):
        return True
    return False


# ------------------------------------------------------------------------------------------------------------------
# module-level mutable objects that functions of the module write into (process-wide memos)
# ------------------------------------------------------------------------------------------------------------------

def module_mutable_globals(tree: ast.Module) -> Set[str]:
    """Names bound at module level to a list/dict/set display or constructor call (incl. annotated assignments)."""
    out: Set[str] = set()
    for n in tree.body:
        vals = []
        if isinstance(n, ast.Assign):
            vals = [(t, n.value) for t in n.targets]
        elif isinstance(n, ast.AnnAssign) and n.value is not None:
            vals = [(n.target, n.value)]
        for t, v in vals:
            if isinstance(t, ast.Name) and (isinstance(v, (ast.List, ast.Dict, ast.Set, ast.ListComp, ast.DictComp, ast.SetComp)) or (
                    isinstance(v, ast.Call) and isinstance(v.func, ast.Name) and v.func.id in ("list", "dict", "set", "OrderedDict", "defaultdict"))):
                out.add(t.id)
    return out


def module_global_writes(f: ast.AST, names: Set[str]) -> List[Tuple[ast.AST, str, str]]:
    """[(node, global name, how)]: item stores / deletes / mutator calls / 'global' rebinding of a module-level mutable object in f
    (a local of the same name shadows it)."""
    locs = local_names(f)
    declared_global: Set[str] = set()
    for n in ast.walk(f):
        if isinstance(n, ast.Global):
            declared_global |= set(n.names)
    visible = {g for g in names if g not in locs or g in declared_global}
    out: List[Tuple[ast.AST, str, str]] = []
    for n in ast.walk(f):
        if isinstance(n, (ast.Assign, ast.AnnAssign, ast.AugAssign)):
            targets = n.targets if isinstance(n, ast.Assign) else [n.target]
            for t in targets:
                if isinstance(t, ast.Subscript) and isinstance(t.value, ast.Name) and t.value.id in visible:
                    out.append((n, t.value.id, "item store"))
                if isinstance(t, ast.Name) and t.id in declared_global and t.id in names:
                    out.append((n, t.id, "rebinding through 'global'"))
        elif isinstance(n, ast.Delete):
            for t in n.targets:
                if isinstance(t, ast.Subscript) and isinstance(t.value, ast.Name) and t.value.id in visible:
                    out.append((n, t.value.id, "item delete"))
        elif isinstance(n, ast.Call) and isinstance(n.func, ast.Attribute) and n.func.attr in MUTATORS \
                and isinstance(n.func.value, ast.Name) and n.func.value.id in visible:
            out.append((n, n.func.value.id, "%s()" % n.func.attr))
    return out


def class_mutable_attrs(tree: ast.Module) -> Set[Tuple[str, str]]:
    """(class name, attribute) bound in a class BODY to a list/dict/set display or constructor call - one object for the whole process -
    unless a method of the class rebinds it on the instance (self.<attr> = ..), which gives every instance its own."""
    out: Set[Tuple[str, str]] = set()
    for c in ast.walk(tree):
        if not isinstance(c, ast.ClassDef):
            continue
        rebound = {t.attr for f in c.body if isinstance(f, ast.FunctionDef) for a in ast.walk(f) if isinstance(a, (ast.Assign, ast.AnnAssign))
                   for t in (a.targets if isinstance(a, ast.Assign) else [a.target])
                   if isinstance(t, ast.Attribute) and isinstance(t.value, ast.Name) and t.value.id == "self"}
        for n in c.body:
            vals = []
            if isinstance(n, ast.Assign):
                vals = [(t, n.value) for t in n.targets]
            elif isinstance(n, ast.AnnAssign) and n.value is not None:
                vals = [(n.target, n.value)]
            for t, v in vals:
                if isinstance(t, ast.Name) and t.id not in rebound and (isinstance(v, (ast.List, ast.Dict, ast.Set, ast.ListComp, ast.DictComp, ast.SetComp)) or (
                        isinstance(v, ast.Call) and isinstance(v.func, ast.Name) and v.func.id in ("list", "dict", "set", "OrderedDict", "defaultdict"))):
                    out.add((c.name, t.id))
    return out


def class_attr_writes(f: ast.AST, attrs: Set[Tuple[str, str]]) -> List[Tuple[ast.AST, str, str]]:
    """[(node, 'Class.attr', how)]: item stores / deletes / mutator calls on a class-level mutable object reached as self.<attr>,
    cls.<attr>, type(self).<attr> or <Class>.<attr> inside f."""
    names = {a for (_, a) in attrs}
    classes = {c for (c, _) in attrs}

    def hit(e: ast.AST) -> Optional[str]:
        if isinstance(e, ast.Attribute) and e.attr in names:
            base = source.src(e.value)
            if base in ("self", "cls", "type(self)", "self.__class__") or base.split(".")[-1] in classes:
                owner = next((c for (c, a) in sorted(attrs) if a == e.attr and (base.split(".")[-1] == c or base in ("self", "cls", "type(self)", "self.__class__"))), None)
                return "%s.%s" % (owner, e.attr) if owner else None
        return None
    out: List[Tuple[ast.AST, str, str]] = []
    for n in ast.walk(f):
        if isinstance(n, (ast.Assign, ast.AnnAssign, ast.AugAssign)):
            for t in (n.targets if isinstance(n, ast.Assign) else [n.target]):
                if isinstance(t, ast.Subscript) and hit(t.value):
                    out.append((n, hit(t.value), "item store"))
        elif isinstance(n, ast.Delete):
            for t in n.targets:
                if isinstance(t, ast.Subscript) and hit(t.value):
                    out.append((n, hit(t.value), "item delete"))
        elif isinstance(n, ast.Call) and isinstance(n.func, ast.Attribute) and n.func.attr in MUTATORS and hit(n.func.value):
            out.append((n, hit(n.func.value), "%s()" % n.func.attr))
    return out


# ------------------------------------------------------------------------------------------------------------------
# local memos:  if K not in D: D[K] = f(args)  - the key has to cover every argument that varies between the iterations
# ------------------------------------------------------------------------------------------------------------------

def memo_key_gaps(f: ast.AST, params_vary: bool = False) -> List[Tuple[ast.Assign, str, str, List[str]]]:
    """[(store, table, key text, loop-variant argument names of the memoised call that the key does not mention)]

    ``params_vary``: f is a helper that is called once per item (a nested function / lambda target): its own parameters change
    from call to call, so they count as variant too (the table then has to live outside f: a name f does not assign)."""
    from . import match
    out = []
    own_params = {a.arg for a in f.args.posonlyargs + f.args.args + f.args.kwonlyargs} if params_vary and isinstance(f, (ast.FunctionDef, ast.Lambda)) else set()
    for iff in source.walk_own(f):
        if not isinstance(iff, ast.If):
            continue
        cp = match.compare_parts(iff.test)
        if not (cp and isinstance(cp[1], ast.NotIn) and isinstance(cp[2], ast.Name)):
            continue
        table, key = cp[2].id, cp[0]
        for st in iff.body:
            if not (isinstance(st, ast.Assign) and len(st.targets) == 1 and isinstance(st.targets[0], ast.Subscript)
                    and isinstance(st.targets[0].value, ast.Name) and st.targets[0].value.id == table
                    and source.src(st.targets[0].slice) == source.src(key) and isinstance(st.value, ast.Call)):
                continue
            variant: Set[str] = set(own_params)
            for lp in [a for a in source.ancestors(iff) if isinstance(a, (ast.For, ast.While))]:
                if isinstance(lp, ast.For):
                    variant |= {x.id for x in ast.walk(lp.target) if isinstance(x, ast.Name)}
                for b in lp.body:
                    for a in ast.walk(b):
                        if isinstance(a, (ast.Assign, ast.AugAssign, ast.AnnAssign)):
                            for t in (a.targets if isinstance(a, ast.Assign) else [a.target]):
                                variant |= {x.id for x in ast.walk(t) if isinstance(x, ast.Name) and isinstance(x.ctx, ast.Store)}
                        elif isinstance(a, ast.For):
                            variant |= {x.id for x in ast.walk(a.target) if isinstance(x, ast.Name)}
            args = {x.id for a in list(st.value.args) + [k.value for k in st.value.keywords] for x in ast.walk(a) if isinstance(x, ast.Name)}
            knames = {x.id for x in ast.walk(key) if isinstance(x, ast.Name)}
            if isinstance(key, ast.Name):       # a key built in a local first: what the local is made of counts
                knames |= {x.id for x in ast.walk(match.resolve_local(f, key)) if isinstance(x, ast.Name)}
            out.append((st, table, source.src(key), sorted((args & variant) - knames - {table})))
    return out
