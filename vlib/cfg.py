"""Statement-level control-flow graph for one Python function (built from ``ast`` only).

* one node per simple statement; compound statements contribute *test* nodes (one per atom of
  a short-circuit condition, so ``if a or not b`` yields two test nodes with T/F edges),
  ``for`` heads (edges ``iter``/``done``), ``with`` heads and ``handler`` entries;
* ``finally`` bodies are duplicated per continuation (normal, return, break, continue,
  exception), built lazily;
* explicit ``raise`` goes to the handlers of the innermost enclosing ``try`` (all of them -
  exception classes are not matched) and, when none of them is a catch-all, onwards to the
  outer target; inside a ``try`` body every node additionally has an ``exc`` edge (any
  statement may raise).  Outside ``try`` implicit exceptions are not modelled.
"""
from __future__ import annotations

import ast
from typing import Callable, Dict, Iterable, List, Optional, Sequence, Set, Tuple

from .source import AnalysisError

Edge = Tuple["Node", Optional[str]]


class Node:
    __slots__ = ("id", "kind", "ast", "succ", "pred", "note")

    def __init__(self, nid: int, kind: str, node: Optional[ast.AST] = None, note: str = ""):
        self.id = nid
        self.kind = kind
        self.ast = node
        self.succ: List[Edge] = []
        self.pred: List[Tuple["Node", Optional[str]]] = []
        self.note = note

    @property
    def lineno(self) -> int:
        return getattr(self.ast, "lineno", 0) if self.ast is not None else 0

    def __repr__(self) -> str:  # pragma: no cover
        txt = ""
        if self.ast is not None:
            try:
                txt = ast.unparse(self.ast).split("\n")[0][:60]
            except Exception:
                txt = type(self.ast).__name__
        return "<%d %s L%d %s>" % (self.id, self.kind, self.lineno, txt)


class _Lazy:
    def __init__(self, fn: Callable[[], Node]):
        self.fn = fn
        self.v: Optional[Node] = None

    def get(self) -> Node:
        if self.v is None:
            self.v = self.fn()
        return self.v


class _Frame:
    def __init__(self, ret: _Lazy, exc: _Lazy, brk: Optional[_Lazy], cont: Optional[_Lazy], in_try: bool):
        self.ret, self.exc, self.brk, self.cont, self.in_try = ret, exc, brk, cont, in_try

    def replace(self, **kw) -> "_Frame":
        d = dict(ret=self.ret, exc=self.exc, brk=self.brk, cont=self.cont, in_try=self.in_try)
        d.update(kw)
        return _Frame(**d)


CATCH_ALL = {"Exception", "BaseException"}


def handler_is_catch_all(h: ast.ExceptHandler) -> bool:
    if h.type is None:
        return True
    types = h.type.elts if isinstance(h.type, ast.Tuple) else [h.type]
    for t in types:
        name = t.attr if isinstance(t, ast.Attribute) else (t.id if isinstance(t, ast.Name) else None)
        if name in CATCH_ALL:
            return True
    return False


class CFG:
    def __init__(self, func: ast.AST):
        if not isinstance(func, (ast.FunctionDef, ast.AsyncFunctionDef)):
            raise AnalysisError("CFG needs a function definition")
        self.func = func
        self.nodes: List[Node] = []
        self.entry = self._new("entry")
        self.exit = self._new("exit")
        self.xexit = self._new("xexit")
        fr = _Frame(_Lazy(lambda: self.exit), _Lazy(lambda: self.xexit), None, None, False)
        head = self._block(func.body, self.exit, fr)
        self._edge(self.entry, head, None)
        self._by_ast: Dict[int, List[Node]] = {}
        for n in self.nodes:
            if n.ast is not None:
                self._by_ast.setdefault(id(n.ast), []).append(n)

    # -- construction ---------------------------------------------------------------
    def _new(self, kind: str, node: Optional[ast.AST] = None, note: str = "") -> Node:
        n = Node(len(self.nodes), kind, node, note)
        self.nodes.append(n)
        return n

    def _edge(self, a: Node, b: Node, label: Optional[str]) -> None:
        for (s, l) in a.succ:
            if s is b and l == label:
                return
        a.succ.append((b, label))
        b.pred.append((a, label))

    def _block(self, stmts: Sequence[ast.stmt], nxt: Node, fr: _Frame) -> Node:
        head = nxt
        for s in reversed(list(stmts)):
            head = self._stmt(s, head, fr)
        return head

    def _maybe_exc(self, n: Node, fr: _Frame) -> None:
        if fr.in_try:
            self._edge(n, fr.exc.get(), "exc")

    def _cond(self, e: ast.expr, t: Node, f: Node, fr: _Frame) -> Node:
        if isinstance(e, ast.BoolOp):
            vals = list(e.values)
            if isinstance(e.op, ast.And):
                head = t
                # build from the right: last value decides t/f
                nxt_true = t
                for v in reversed(vals):
                    nxt_true = self._cond(v, nxt_true, f, fr)
                return nxt_true
            else:
                nxt_false = f
                for v in reversed(vals):
                    nxt_false = self._cond(v, t, nxt_false, fr)
                return nxt_false
        if isinstance(e, ast.UnaryOp) and isinstance(e.op, ast.Not):
            return self._cond(e.operand, f, t, fr)
        n = self._new("test", e)
        if isinstance(e, ast.Constant):
            if e.value:
                self._edge(n, t, "T")
            else:
                self._edge(n, f, "F")
        else:
            self._edge(n, t, "T")
            self._edge(n, f, "F")
        self._maybe_exc(n, fr)
        return n

    def _stmt(self, s: ast.stmt, nxt: Node, fr: _Frame) -> Node:
        if isinstance(s, ast.If):
            t = self._block(s.body, nxt, fr)
            f = self._block(s.orelse, nxt, fr)
            return self._cond(s.test, t, f, fr)
        if isinstance(s, ast.While):
            loop = self._new("loop", s)
            after_else = self._block(s.orelse, nxt, fr)
            bfr = fr.replace(brk=_Lazy(lambda: nxt), cont=_Lazy(lambda: loop))
            body = self._block(s.body, loop, bfr)
            head = self._cond(s.test, body, after_else, fr)
            self._edge(loop, head, None)
            return loop
        if isinstance(s, (ast.For, ast.AsyncFor)):
            head = self._new("for", s)
            after_else = self._block(s.orelse, nxt, fr)
            bfr = fr.replace(brk=_Lazy(lambda: nxt), cont=_Lazy(lambda: head))
            body = self._block(s.body, head, bfr)
            self._edge(head, body, "iter")
            self._edge(head, after_else, "done")
            self._maybe_exc(head, fr)
            return head
        if isinstance(s, (ast.With, ast.AsyncWith)):
            head = self._new("with", s)
            body = self._block(s.body, nxt, fr)
            self._edge(head, body, None)
            self._maybe_exc(head, fr)
            return head
        if isinstance(s, ast.Try) or (hasattr(ast, "TryStar") and isinstance(s, getattr(ast, "TryStar"))):
            return self._try(s, nxt, fr)  # type: ignore[arg-type]
        if hasattr(ast, "Match") and isinstance(s, ast.Match):
            head = self._new("match", s)
            for case in s.cases:
                self._edge(head, self._block(case.body, nxt, fr), "case")
            self._edge(head, nxt, "nomatch")
            self._maybe_exc(head, fr)
            return head
        if isinstance(s, ast.Return):
            n = self._new("stmt", s)
            self._edge(n, fr.ret.get(), "return")
            self._maybe_exc(n, fr)
            return n
        if isinstance(s, ast.Raise):
            n = self._new("stmt", s)
            self._edge(n, fr.exc.get(), "raise")
            return n
        if isinstance(s, ast.Break):
            n = self._new("stmt", s)
            if fr.brk is None:
                raise AnalysisError("break outside loop")
            self._edge(n, fr.brk.get(), "break")
            return n
        if isinstance(s, ast.Continue):
            n = self._new("stmt", s)
            if fr.cont is None:
                raise AnalysisError("continue outside loop")
            self._edge(n, fr.cont.get(), "continue")
            return n
        n = self._new("stmt", s)
        self._edge(n, nxt, None)
        self._maybe_exc(n, fr)
        return n

    def _try(self, s: ast.Try, nxt: Node, fr: _Frame) -> Node:
        fin = list(s.finalbody)
        if fin:
            normal = self._block(fin, nxt, fr)
            ret = _Lazy(lambda: self._block(fin, fr.ret.get(), fr))
            exc_out = _Lazy(lambda: self._block(fin, fr.exc.get(), fr))
            brk = _Lazy(lambda: self._block(fin, fr.brk.get(), fr)) if fr.brk is not None else None
            cont = _Lazy(lambda: self._block(fin, fr.cont.get(), fr)) if fr.cont is not None else None
            outer = _Frame(ret, exc_out, brk, cont, True)
        else:
            normal = nxt
            outer = fr
        # handlers
        handler_heads: List[Node] = []
        catch_all = False
        for h in s.handlers:
            hn = self._new("handler", h)
            body = self._block(h.body, normal, outer)
            self._edge(hn, body, None)
            handler_heads.append(hn)
            if handler_is_catch_all(h):
                catch_all = True

        def mk_dispatch() -> Node:
            d = self._new("dispatch", s)
            for hn in handler_heads:
                self._edge(d, hn, "except")
            if not catch_all:
                self._edge(d, outer.exc.get(), "uncaught")
            return d

        if handler_heads:
            body_fr = outer.replace(exc=_Lazy(mk_dispatch), in_try=True)
        else:
            body_fr = outer.replace(in_try=True)
        orelse = self._block(s.orelse, normal, outer)
        return self._block(s.body, orelse, body_fr)

    # -- queries ------------------------------------------------------------------------
    def nodes_of(self, node: ast.AST) -> List[Node]:
        return list(self._by_ast.get(id(node), []))

    def find(self, pred: Callable[[Node], bool]) -> List[Node]:
        return [n for n in self.nodes if pred(n)]

    def stmt_nodes(self, pred: Callable[[ast.AST], bool]) -> List[Node]:
        return [n for n in self.nodes if n.ast is not None and n.kind in ("stmt", "test", "for", "with", "handler")
                and pred(n.ast)]

    def reach(self, starts: Iterable[Node], blocked: Iterable[Node] = (),
              blocked_edges: Iterable[Tuple[int, Optional[str]]] = (),
              ignore_labels: Iterable[str] = (), include_starts: bool = True) -> Set[int]:
        """ids of nodes reachable from ``starts``; paths never *enter* a blocked node and never
        use a blocked edge ((source id, label))."""
        blk = {n.id for n in blocked}
        bedges = set(blocked_edges)
        ign = set(ignore_labels)
        seen: Set[int] = set()
        stack: List[Node] = []
        for s in starts:
            if include_starts:
                if s.id in blk:
                    continue
                seen.add(s.id)
            stack.append(s)
        expanded: Set[int] = set()
        while stack:
            n = stack.pop()
            if n.id in expanded:
                continue
            expanded.add(n.id)
            for (m, lab) in n.succ:
                if lab in ign or (n.id, lab) in bedges or m.id in blk:
                    continue
                if m.id not in seen:
                    seen.add(m.id)
                if m.id not in expanded:
                    stack.append(m)
        return seen

    def every_path_to_passes(self, target: Node, gates: Iterable[Node] = (),
                             gate_edges: Iterable[Tuple[int, Optional[str]]] = (),
                             ignore_labels: Iterable[str] = ()) -> bool:
        """True iff every path entry -> target enters one of ``gates`` / uses one of ``gate_edges``."""
        gates = list(gates)
        if any(g is target for g in gates):
            return True
        r = self.reach([self.entry], blocked=gates, blocked_edges=gate_edges, ignore_labels=ignore_labels)
        return target.id not in r

    def every_path_from_passes(self, start: Node, gates: Iterable[Node], exits: Optional[Iterable[Node]] = None,
                               ignore_labels: Iterable[str] = ()) -> bool:
        """True iff every path start -> (one of exits) passes a gate (start itself excluded)."""
        ex = list(exits) if exits is not None else [self.exit]
        r = self.reach([start], blocked=gates, ignore_labels=ignore_labels, include_starts=False)
        return not any(e.id in r for e in ex)

    def reachable_from_entry(self, ignore_labels: Iterable[str] = ()) -> Set[int]:
        return self.reach([self.entry], ignore_labels=ignore_labels)

    def count_range(self, pred: Callable[[Node], bool], start: Optional[Node] = None,
                    exits: Optional[Iterable[Node]] = None, ignore_labels: Iterable[str] = (),
                    cap: int = 3, blocked_edges: Iterable[Tuple[int, Optional[str]]] = ()) -> Dict[int, Tuple[int, int]]:
        """For each exit node: (min, max) number of pred-nodes on paths start -> exit (max capped).
        Forward dataflow to a fixpoint on the lattice of (min,max) pairs."""
        start = start or self.entry
        ex = list(exits) if exits is not None else [self.exit]
        ign = set(ignore_labels)
        ex_ids = {e.id for e in ex}
        bedges = set(blocked_edges)
        state: Dict[int, Tuple[int, int]] = {start.id: (0, 0)}
        work = [start]
        while work:
            n = work.pop()
            lo, hi = state[n.id]
            if n.id in ex_ids and n is not start:
                continue  # exits are terminal for this query
            inc = 1 if pred(n) else 0
            olo, ohi = lo + inc, min(hi + inc, cap)
            for (m, lab) in n.succ:
                if lab in ign or (n.id, lab) in bedges:
                    continue
                cur = state.get(m.id)
                new = (olo, ohi) if cur is None else (min(cur[0], olo), max(cur[1], ohi))
                if new != cur:
                    state[m.id] = new
                    work.append(m)
        out = {}
        for e in ex:
            if e.id in state:
                lo, hi = state[e.id]
                out[e.id] = (min(lo, cap), hi)
        return out

    def reach_product(self, start: Node, init_state, step: Callable[[Node, Optional[str], "Node", object], object],
                      blocked: Iterable[Node] = (), blocked_edges: Iterable[Tuple[int, Optional[str]]] = (),
                      ignore_labels: Iterable[str] = ()) -> Set[Tuple[int, object]]:
        """Path-sensitive reachability over (node, abstract state) pairs.  ``step(src, label, dst, state)`` returns
        the state after executing ``src`` and taking the edge, or None when that edge is infeasible in ``state``.
        States must be hashable and come from a finite set."""
        blk = {n.id for n in blocked}
        bedges = set(blocked_edges)
        ign = set(ignore_labels)
        seen: Set[Tuple[int, object]] = {(start.id, init_state)}
        stack = [(start, init_state)]
        while stack:
            n, st = stack.pop()
            for (m, lab) in n.succ:
                if lab in ign or (n.id, lab) in bedges or m.id in blk:
                    continue
                ns = step(n, lab, m, st)
                if ns is None:
                    continue
                key = (m.id, ns)
                if key not in seen:
                    seen.add(key)
                    stack.append((m, ns))
        return seen

    def paths_count(self) -> int:
        return sum(len(n.succ) for n in self.nodes)


def contains_call(node: ast.AST, pred: Callable[[ast.Call], bool]) -> bool:
    """Does the *own* part of a CFG node's ast contain a call satisfying pred?  For compound
    heads (for/with/handler) only the header expressions are inspected."""
    for c in own_calls(node):
        if pred(c):
            return True
    return False


def own_exprs(node: ast.AST) -> List[ast.AST]:
    if isinstance(node, (ast.For, ast.AsyncFor)):
        return [node.iter]
    if isinstance(node, (ast.With, ast.AsyncWith)):
        return [i.context_expr for i in node.items]
    if isinstance(node, ast.ExceptHandler):
        return [node.type] if node.type is not None else []
    if isinstance(node, (ast.While, ast.Try)):
        return []
    if isinstance(node, (ast.FunctionDef, ast.AsyncFunctionDef, ast.ClassDef)):
        return []
    return [node]


def own_calls(node: ast.AST) -> List[ast.Call]:
    out: List[ast.Call] = []
    for e in own_exprs(node):
        stack = [e]
        while stack:
            n = stack.pop()
            if isinstance(n, ast.Call):
                out.append(n)
            if isinstance(n, (ast.Lambda, ast.FunctionDef, ast.AsyncFunctionDef, ast.ClassDef)) and n is not e:
                continue
            stack.extend(ast.iter_child_nodes(n))
    return out
