"""ESC engine: which exception classes can leave a function through *explicit* raise statements
(``raise X(...)``, bare ``raise`` in a handler, ``raise_with_traceback(X)``), over a name-resolved call graph,
after subtracting what lexically enclosing handlers catch.  Implicit exceptions (KeyError from a subscript,
errors raised inside third-party code) are outside the model unless the call sits in a try with a catch-all."""
from __future__ import annotations

import ast
from typing import Callable, Dict, List, Optional, Set, Tuple

from . import source
from .source import call_name, dotted, last_attr

BUILTIN_BASES = {
    "Exception": "BaseException", "ValueError": "Exception", "TypeError": "Exception", "KeyError": "LookupError",
    "IndexError": "LookupError", "LookupError": "Exception", "NotImplementedError": "RuntimeError", "RuntimeError": "Exception",
    "OSError": "Exception", "IOError": "Exception", "AssertionError": "Exception", "AttributeError": "Exception",
    "KeyboardInterrupt": "BaseException", "SystemExit": "BaseException", "StopIteration": "Exception",
    "ImportError": "Exception", "SystemError": "Exception", "UnicodeDecodeError": "ValueError",
}


class Hierarchy:
    def __init__(self, modules):
        self.bases: Dict[str, List[str]] = {k: [v] for k, v in BUILTIN_BASES.items()}
        for m in modules:
            for q, c in m.classes.items():
                if "." in q:
                    continue
                bs = [(dotted(b) or "").split(".")[-1] for b in c.bases]
                self.bases.setdefault(c.name, [b for b in bs if b])

    def ancestors(self, name: str) -> Set[str]:
        out: Set[str] = set()
        todo = [name]
        while todo:
            n = todo.pop()
            if n in out:
                continue
            out.add(n)
            todo.extend(self.bases.get(n, []))
        return out

    def caught_by(self, cls: str, handler_types: Optional[Set[str]]) -> bool:
        if handler_types is None:      # bare except
            return True
        anc = self.ancestors(cls)
        if anc & handler_types:
            return True
        if "Exception" in handler_types and cls not in ("KeyboardInterrupt", "SystemExit", "GeneratorExit", "BaseException"):
            # unknown classes are assumed to derive from Exception
            return True
        return False


def handler_types(h: ast.ExceptHandler) -> Optional[Set[str]]:
    if h.type is None:
        return None
    ts = h.type.elts if isinstance(h.type, ast.Tuple) else [h.type]
    return {(dotted(t) or "?").split(".")[-1] for t in ts}


class Escape:
    def __init__(self, hierarchy: Hierarchy, resolve: Callable[[ast.AST, ast.Call], Optional[ast.AST]]):
        self.h = hierarchy
        self.resolve = resolve
        self.memo: Dict[int, Set[Tuple[str, str]]] = {}
        self.active: Set[int] = set()
        self.functions_seen: Set[str] = set()

    def _raise_classes(self, fn: ast.AST, r: ast.AST, exc: Optional[ast.AST]) -> Set[str]:
        """Classes raised by statement r whose exception expression is exc (None = bare raise)."""
        if exc is None:
            for a in source.ancestors(r):
                if isinstance(a, ast.ExceptHandler):
                    t = handler_types(a)
                    return t if t is not None else {"Exception"}
                if a is fn:
                    break
            return {"Exception"}
        if isinstance(exc, ast.Call):
            d = dotted(exc.func)
            if d:
                segs = d.split(".")
                # Class.alternative_constructor(...)  e.g. DSLInvalidError.from_errors([...])
                if len(segs) >= 2 and segs[-1][:1].islower() and segs[-2][:1].isupper():
                    return {segs[-2]}
                return {segs[-1]}
            return {"Exception"}
        if isinstance(exc, ast.Name):
            # a handler variable?
            for a in source.ancestors(r):
                if isinstance(a, ast.ExceptHandler) and a.name == exc.id:
                    t = handler_types(a)
                    return t if t is not None else {"Exception"}
                if a is fn:
                    break
            # a local assigned from a constructor call
            vals = [n.value for n in source.walk_own(fn) if isinstance(n, ast.Assign) and any(isinstance(t, ast.Name) and t.id == exc.id for t in n.targets)]
            out = set()
            for v in vals:
                if isinstance(v, ast.Call) and dotted(v.func):
                    out.add(dotted(v.func).split(".")[-1])
            return out or {"Exception"}
        d = dotted(exc)
        return {d.split(".")[-1]} if d else {"Exception"}

    def _propagate(self, fn: ast.AST, at: ast.AST, classes: Set[str]) -> Set[str]:
        """Classes (raised at node ``at``) that are not caught by handlers of lexically enclosing try bodies."""
        remaining = set(classes)
        child = at
        for a in source.ancestors(at):
            if isinstance(a, ast.Try):
                in_body = any(child is s for s in a.body)
                if in_body:
                    for h in a.handlers:
                        ht = handler_types(h)
                        remaining = {c for c in remaining if not self.h.caught_by(c, ht)}
            if a is fn:
                break
            child = a
        return remaining

    def escapes(self, fn: ast.AST) -> Set[Tuple[str, str]]:
        """Set of (exception class, origin text)."""
        key = id(fn)
        if key in self.memo:
            return self.memo[key]
        if key in self.active:
            return set()
        self.active.add(key)
        self.functions_seen.add(source.qualname(fn))
        out: Set[Tuple[str, str]] = set()
        for n in source.walk_own(fn, include_nested=False):
            if isinstance(n, ast.Raise):
                cls = self._raise_classes(fn, n, n.exc)
                for c in self._propagate(fn, n, cls):
                    out.add((c, "%s:%d raise" % (source.module_of(n).rel, n.lineno)))
            elif isinstance(n, ast.Call):
                cn = call_name(n) or ""
                if cn in ("raise_with_traceback", "future.utils.raise_with_traceback", "six.reraise") and n.args:
                    cls = self._raise_classes(fn, n, n.args[0])
                    for c in self._propagate(fn, n, cls):
                        out.add((c, "%s:%d raise_with_traceback" % (source.module_of(n).rel, n.lineno)))
                    continue
                tgt = self.resolve(fn, n)
                if tgt is not None:
                    sub = self.escapes(tgt)
                    if sub:
                        for c in self._propagate(fn, n, {x[0] for x in sub}):
                            origins = [o for (cc, o) in sub if cc == c]
                            out.add((c, "%s:%d via %s <- %s" % (source.module_of(n).rel, n.lineno, source.qualname(tgt), origins[0] if origins else "?")))
        self.active.discard(key)
        self.memo[key] = out
        return out


def handler_discards_found(fn: ast.AST) -> List[Tuple[ast.Try, ast.ExceptHandler, str, ast.stmt, ast.stmt]]:
    """[(try, handler, name, the statement of the try body that binds `name`, a later statement of the body that can raise)]

    A handler that (re)binds `name` - the "not there: use the default" idiom - runs not only when the look-up of `name` failed but
    also when a LATER statement of the same try body failed, i.e. after `name` had been found: the value that was looked up
    successfully is replaced by the default.  Reported when the handler completes normally (no raise/return/continue/break at its
    end) and `name` is read after the try statement."""
    out = []
    for tr in ast.walk(fn):
        if not isinstance(tr, ast.Try):
            continue
        bound: List[Tuple[str, int, ast.stmt]] = []
        for i, st in enumerate(tr.body):
            for x in ast.walk(st):
                if isinstance(x, ast.Name) and isinstance(x.ctx, ast.Store):
                    bound.append((x.id, i, st))
        after = {x.id for x in ast.walk(fn) if isinstance(x, ast.Name) and isinstance(x.ctx, ast.Load)
                 and getattr(x, "lineno", 0) > (getattr(tr, "end_lineno", None) or tr.lineno)}
        for h in tr.handlers:
            if h.body and isinstance(h.body[-1], (ast.Raise, ast.Return, ast.Continue, ast.Break)):
                continue
            rebinds = {x.id for st in h.body for x in ast.walk(st) if isinstance(x, ast.Name) and isinstance(x.ctx, ast.Store)}
            seen = set()
            for nm, i, st in bound:
                if nm not in rebinds or nm not in after or nm in seen:
                    continue
                later = [s2 for s2 in tr.body[i + 1:] if any(isinstance(y, (ast.Subscript, ast.Call)) for y in ast.walk(s2))]
                if later:
                    seen.add(nm)
                    out.append((tr, h, nm, st, later[0]))
    return out

