"""Finite truth tables of boolean ASTs over named atoms (values are touched only through comparisons)."""
from __future__ import annotations

import ast
import itertools
from typing import Callable, Dict, List, Optional, Sequence, Tuple


class Unrecognised(Exception):
    pass


def evaluate(e: ast.AST, env: Dict[str, bool], atomise: Callable[[ast.AST], Optional[Tuple[str, bool]]]) -> bool:
    if isinstance(e, ast.Constant) and isinstance(e.value, bool):
        return e.value
    if isinstance(e, ast.BoolOp):
        vals = [evaluate(v, env, atomise) for v in e.values]
        return all(vals) if isinstance(e.op, ast.And) else any(vals)
    if isinstance(e, ast.UnaryOp) and isinstance(e.op, ast.Not):
        return not evaluate(e.operand, env, atomise)
    a = atomise(e)
    if a is None and isinstance(e, ast.Compare) and len(e.ops) == 1 and isinstance(e.ops[0], (ast.Eq, ast.NotEq, ast.Is, ast.IsNot)) \
            and all(isinstance(x, (ast.Compare, ast.BoolOp)) or (isinstance(x, ast.UnaryOp) and isinstance(x.op, ast.Not))
                    for x in (e.left, e.comparators[0])):
        # (p) == (q) between two boolean sub-expressions: equivalence
        same = evaluate(e.left, env, atomise) == evaluate(e.comparators[0], env, atomise)
        return same if isinstance(e.ops[0], (ast.Eq, ast.Is)) else not same
    if a is None:
        # (expr) is True / is False wrappers around a boolean sub-expression
        if isinstance(e, ast.Compare) and len(e.ops) == 1 and isinstance(e.comparators[0], ast.Constant) \
                and isinstance(e.comparators[0].value, bool) and isinstance(e.left, (ast.BoolOp, ast.UnaryOp, ast.Compare)):
            inner = evaluate(e.left, env, atomise)
            want = e.comparators[0].value
            if isinstance(e.ops[0], (ast.Is, ast.Eq)):
                return inner == want
            if isinstance(e.ops[0], (ast.IsNot, ast.NotEq)):
                return inner != want
        key = "?" + ast.unparse(e)
        if key in env:
            return env[key]
        raise Unrecognised(ast.unparse(e))
    name, pol = a
    if name not in env:
        raise Unrecognised("atom %s not in environment" % name)
    return env[name] == pol


def free_atoms(e: ast.AST, atomise) -> List[str]:
    """Sub-expressions that are neither boolean structure nor recognised atoms: treated as free booleans."""
    out: List[str] = []

    def visit(x: ast.AST) -> None:
        if isinstance(x, ast.Constant) and isinstance(x.value, bool):
            return
        if isinstance(x, ast.BoolOp):
            for v in x.values:
                visit(v)
            return
        if isinstance(x, ast.UnaryOp) and isinstance(x.op, ast.Not):
            visit(x.operand)
            return
        if atomise(x) is not None:
            return
        if isinstance(x, ast.Compare) and len(x.ops) == 1 and isinstance(x.comparators[0], ast.Constant) \
                and isinstance(x.comparators[0].value, bool) and isinstance(x.left, (ast.BoolOp, ast.UnaryOp, ast.Compare)):
            visit(x.left)
            return
        k = "?" + ast.unparse(x)
        if k not in out:
            out.append(k)

    visit(e)
    return out


def truth_table(e: ast.AST, atoms: Sequence[str], atomise, extra_free: Sequence[str] = ()) -> List[Tuple[Dict[str, bool], bool]]:
    """Rows over the named atoms; unrecognised sub-expressions become additional free atoms (keys '?<src>')
    so that a statement proved over the table holds whatever they evaluate to."""
    free = list(dict.fromkeys(list(extra_free) + free_atoms(e, atomise)))
    if len(free) > 6:
        raise Unrecognised("too many unrecognised atoms: %s" % free)
    allatoms = list(atoms) + free
    rows = []
    for vals in itertools.product([False, True], repeat=len(allatoms)):
        env = dict(zip(allatoms, vals))
        rows.append((env, evaluate(e, env, atomise)))
    return rows
