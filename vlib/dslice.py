"""Backward *data* slice of an expression inside one function (flow-insensitive, field-sensitive on constant
dictionary keys).  Used for non-interference rules ("the returned value never depends on X").

What counts as a data dependence:
  * a name depends on every value assigned to it in the function (and, for loop targets, on the iterable);
  * ``X[k]`` / ``X.get(k)`` with a constant ``k`` depends only on what was stored under ``k`` (dict literals,
    ``X[k] = v`` statements); a non-constant key matches every field; the key expression itself is a *selector*
    and is not a data dependence;
  * a method call depends on its receiver (arguments select); calls of functions nested in the analysed function
    are inlined; other function calls depend on their arguments;
  * ``re.sub(pattern, repl, string)`` depends on ``repl`` and ``string`` (the pattern selects);
  * calls listed as sanitizers stop the slice and yield the pseudo-leaf ``<sanitizer>(...)``.
Leaves are dotted attribute chains / parameter names.
"""
from __future__ import annotations

import ast
from typing import Dict, List, Optional, Set, Tuple

from . import source
from .source import call_name, dotted, last_attr

KeyPath = Tuple[Optional[str], ...]   # None = dynamic key

PASS_THROUGH = {"str", "sorted", "list", "tuple", "dict", "set", "frozenset", "reversed", "enumerate", "zip", "int",
                "float", "bool", "repr", "format", "min", "max", "sum", "iter", "next", "map", "filter"}


class Slicer:
    def __init__(self, fn: ast.AST, sanitizers: Set[str]):
        self.fn = fn
        self.sanitizers = sanitizers
        self.defs: Dict[str, List[Tuple[str, ast.AST]]] = {}          # name -> [('val'|'elem', expr)]
        self.field_defs: Dict[str, List[Tuple[KeyPath, ast.AST]]] = {}
        self.local_funcs: Dict[str, ast.FunctionDef] = {}
        self.visits = 0
        a = getattr(fn, "args", None)
        self.params = {x.arg for x in (a.posonlyargs + a.args + a.kwonlyargs)} if a is not None else set()
        if a is not None and a.vararg:
            self.params.add(a.vararg.arg)
        if a is not None and a.kwarg:
            self.params.add(a.kwarg.arg)
        self._collect(fn)

    # -- collection ---------------------------------------------------------------------------------------
    def _bind_target(self, target: ast.AST, kind: str, value: ast.AST) -> None:
        if isinstance(target, ast.Name):
            self.defs.setdefault(target.id, []).append((kind, value))
        elif isinstance(target, (ast.Tuple, ast.List)):
            for t in target.elts:
                self._bind_target(t, "elem" if kind == "elem" else "val", value)
        elif isinstance(target, ast.Starred):
            self._bind_target(target.value, kind, value)
        elif isinstance(target, ast.Subscript):
            path: List[Optional[str]] = []
            cur: ast.AST = target
            while isinstance(cur, ast.Subscript):
                k = cur.slice.value if isinstance(cur.slice, ast.Constant) and isinstance(cur.slice.value, str) else None
                path.insert(0, k)
                cur = cur.value
            if isinstance(cur, ast.Name):
                self.field_defs.setdefault(cur.id, []).append((tuple(path), value))

    def _collect(self, fn: ast.AST) -> None:
        for n in source.walk_own(fn, include_nested=False):
            if isinstance(n, ast.Assign):
                for t in n.targets:
                    self._bind_target(t, "val", n.value)
            elif isinstance(n, ast.AnnAssign) and n.value is not None:
                self._bind_target(n.target, "val", n.value)
            elif isinstance(n, ast.AugAssign):
                self._bind_target(n.target, "val", n.value)
            elif isinstance(n, (ast.For, ast.AsyncFor)):
                self._bind_target(n.target, "elem", n.iter)
            elif isinstance(n, (ast.With, ast.AsyncWith)):
                for it in n.items:
                    if it.optional_vars is not None:
                        self._bind_target(it.optional_vars, "val", it.context_expr)
            elif isinstance(n, ast.Call) and isinstance(n.func, ast.Attribute) and n.func.attr in ("append", "add", "extend", "insert") \
                    and isinstance(n.func.value, ast.Name) and n.args:
                self.defs.setdefault(n.func.value.id, []).append(("val", n.args[-1]))
            elif isinstance(n, ast.Call) and isinstance(n.func, ast.Attribute) and n.func.attr == "update" \
                    and isinstance(n.func.value, ast.Name) and n.args:
                self.defs.setdefault(n.func.value.id, []).append(("val", n.args[0]))
        for st in getattr(fn, "body", []):
            if isinstance(st, ast.FunctionDef):
                self.local_funcs[st.name] = st
        for n in source.walk_own(fn, include_nested=False):
            if isinstance(n, ast.FunctionDef):
                self.local_funcs.setdefault(n.name, n)

    # -- slicing -------------------------------------------------------------------------------------------
    def leaves(self, e: Optional[ast.AST], path: KeyPath = (), env: Optional[Dict[str, ast.AST]] = None,
               seen: Optional[Set] = None, depth: int = 0) -> Set[str]:
        if e is None:
            return set()
        env = env or {}
        seen = seen if seen is not None else set()
        key = (id(e), path, tuple(sorted((k, id(v)) for k, v in env.items())))
        if key in seen or depth > 60:
            return set()
        seen.add(key)
        self.visits += 1
        L = lambda x, p=path, en=env: self.leaves(x, p, en, seen, depth + 1)

        if isinstance(e, ast.Constant):
            return set()
        if isinstance(e, ast.Name):
            if e.id in env:
                bound = env[e.id]
                env2 = {k: v for k, v in env.items() if k != e.id}
                return self.leaves(bound, path, env2, seen, depth + 1)
            out: Set[str] = set()
            ds = self.defs.get(e.id, [])
            fds = self.field_defs.get(e.id, [])
            if not ds and not fds:
                return {e.id + "".join("[%s]" % (k if k is not None else "*") for k in path)}
            for kind, v in ds:
                if kind == "elem":
                    out |= self.leaves(v, (), env, seen, depth + 1) if not path else self.leaves(v, (None,) + path, env, seen, depth + 1)
                else:
                    out |= self.leaves(v, path, env, seen, depth + 1)
            for fpath, v in fds:
                # compatible prefix?
                n = min(len(fpath), len(path))
                if all(fpath[i] is None or path[i] is None or fpath[i] == path[i] for i in range(n)):
                    if len(fpath) <= len(path):
                        out |= self.leaves(v, path[len(fpath):], env, seen, depth + 1)
                    else:
                        out |= self.leaves(v, (), env, seen, depth + 1)
            return out
        if isinstance(e, ast.Attribute):
            d = dotted(e)
            root = e
            while isinstance(root, ast.Attribute):
                root = root.value
            out = set()
            if d:
                out.add(d)
            if isinstance(root, ast.Name) and (root.id in self.defs or root.id in env) and root.id != "self":
                out |= self.leaves(root, (), env, seen, depth + 1)
            elif not isinstance(root, ast.Name):
                out |= self.leaves(root, (), env, seen, depth + 1)
            return out
        if isinstance(e, ast.Subscript):
            k = e.slice.value if isinstance(e.slice, ast.Constant) and isinstance(e.slice.value, str) else None
            return self.leaves(e.value, (k,) + path, env, seen, depth + 1)
        if isinstance(e, ast.Dict):
            out = set()
            for kk, vv in zip(e.keys, e.values):
                if kk is None:
                    out |= self.leaves(vv, path, env, seen, depth + 1)
                    continue
                kc = kk.value if isinstance(kk, ast.Constant) and isinstance(kk.value, str) else None
                if not path:
                    out |= self.leaves(vv, (), env, seen, depth + 1)
                elif path[0] is None or kc is None or path[0] == kc:
                    out |= self.leaves(vv, path[1:], env, seen, depth + 1)
            return out
        if isinstance(e, (ast.List, ast.Tuple, ast.Set)):
            out = set()
            p = path[1:] if path and path[0] is None else path
            for x in e.elts:
                out |= self.leaves(x, p, env, seen, depth + 1)
            return out
        if isinstance(e, (ast.ListComp, ast.SetComp, ast.GeneratorExp, ast.DictComp)):
            env2 = dict(env)
            for g in e.generators:
                for nm in ast.walk(g.target):
                    if isinstance(nm, ast.Name):
                        env2[nm.id] = ast.Subscript(value=g.iter, slice=ast.Name(id="__elem__", ctx=ast.Load()), ctx=ast.Load())
            elt = e.value if isinstance(e, ast.DictComp) else e.elt
            p = path[1:] if path and path[0] is None else path
            return self.leaves(elt, p, env2, seen, depth + 1)
        if isinstance(e, ast.IfExp):
            return L(e.body) | L(e.orelse)
        if isinstance(e, ast.BoolOp):
            out = set()
            for v in e.values:
                out |= L(v)
            return out
        if isinstance(e, ast.BinOp):
            return L(e.left) | L(e.right)
        if isinstance(e, ast.UnaryOp):
            return L(e.operand)
        if isinstance(e, ast.Compare):
            return set()   # a boolean: control, not data
        if isinstance(e, ast.JoinedStr):
            out = set()
            for v in e.values:
                if isinstance(v, ast.FormattedValue):
                    out |= self.leaves(v.value, (), env, seen, depth + 1)
            return out
        if isinstance(e, ast.Starred):
            return L(e.value)
        if isinstance(e, ast.Call):
            cn = call_name(e) or ""
            la = last_attr(e)
            args = list(e.args) + [k.value for k in e.keywords]
            if cn in self.sanitizers or la in self.sanitizers:
                return {"<%s>(...)" % (cn or la)}
            if cn in ("re.sub", "re.subn") and len(e.args) >= 3:
                return self.leaves(e.args[1], (), env, seen, depth + 1) | self.leaves(e.args[2], (), env, seen, depth + 1)
            if la in ("sub", "subn") and isinstance(e.func, ast.Attribute) and len(e.args) >= 2 and cn not in ("re.sub",):
                return self.leaves(e.args[0], (), env, seen, depth + 1) | self.leaves(e.args[1], (), env, seen, depth + 1)
            if isinstance(e.func, ast.Name) and e.func.id in self.local_funcs:
                f = self.local_funcs[e.func.id]
                params = [a.arg for a in f.args.args]
                env2 = dict(env)
                for p_, a in zip(params, e.args):
                    env2[p_] = _Closure(a, env, self)
                for kw in e.keywords:
                    if kw.arg:
                        env2[kw.arg] = _Closure(kw.value, env, self)
                out = set()
                inner = Slicer(f, self.sanitizers)
                inner.local_funcs.update(self.local_funcs)
                for r in source.walk_own(f):
                    if isinstance(r, ast.Return) and r.value is not None:
                        out |= inner._leaves_with_outer(r.value, path, env2, self, seen, depth + 1)
                return out
            if isinstance(e.func, ast.Attribute):
                if la == "get" and e.args:
                    k = e.args[0].value if isinstance(e.args[0], ast.Constant) and isinstance(e.args[0].value, str) else None
                    out = self.leaves(e.func.value, (k,) + path, env, seen, depth + 1)
                    if len(e.args) > 1:
                        out |= self.leaves(e.args[1], path, env, seen, depth + 1)
                    return out
                if la in ("join", "format"):
                    out = set()
                    for a in args:
                        out |= self.leaves(a, (), env, seen, depth + 1)
                    return out | self.leaves(e.func.value, (), env, seen, depth + 1)
                if la in ("values", "items", "keys", "copy", "strip", "rstrip", "lstrip", "lower", "upper", "split", "encode", "decode", "hexdigest"):
                    return self.leaves(e.func.value, path, env, seen, depth + 1)
                root = e.func
                while isinstance(root, ast.Attribute):
                    root = root.value
                if isinstance(root, ast.Name) and root.id not in self.defs and root.id not in self.field_defs \
                        and root.id not in env and root.id not in self.params:
                    # a function of a module (os.path.dirname, json.dumps, ...): depends on its arguments
                    d = dotted(e.func)
                    out = {"call:" + d} if d else set()
                    for a in args:
                        out |= self.leaves(a, (), env, seen, depth + 1)
                    return out
                # generic method call: depends on the receiver (arguments select)
                d = dotted(e.func)
                out = {"call:" + d} if d else set()
                return out | self.leaves(e.func.value, (), env, seen, depth + 1)
            if cn in PASS_THROUGH:
                out = set()
                for a in args:
                    if cn in ("sorted", "min", "max") and any(k.value is a and k.arg == "key" for k in e.keywords):
                        continue
                    out |= self.leaves(a, path, env, seen, depth + 1)
                return out
            out = {"call:" + cn} if cn else set()
            for a in args:
                out |= self.leaves(a, (), env, seen, depth + 1)
            return out
        if isinstance(e, _Closure):
            return e.slicer.leaves(e.expr, path, e.env, seen, depth + 1)
        if isinstance(e, ast.Lambda):
            # the value a callable produces: its body, with defaulted parameters (``lambda m, r=r: r``) bound to the defaults
            env2 = dict(env)
            a = e.args
            pos = a.args
            for p_, d_ in zip(pos[len(pos) - len(a.defaults):], a.defaults):
                env2[p_.arg] = _Closure(d_, env, self)
            for p_, d_ in zip(a.kwonlyargs, a.kw_defaults):
                if d_ is not None:
                    env2[p_.arg] = _Closure(d_, env, self)
            bound = {p_.arg for p_ in pos[:len(pos) - len(a.defaults)]}
            if isinstance(e.body, ast.Name) and e.body.id in bound:
                return set()    # returns its own (match) argument
            return self.leaves(e.body, path, env2, seen, depth + 1)
        return set()

    def _leaves_with_outer(self, e, path, env, outer: "Slicer", seen, depth) -> Set[str]:
        """Slice inside an inlined local function: parameters are bound through env (closures over the caller),
        free names that are not locals of the inlined function are resolved in the caller."""
        # names neither local to this function nor bound: delegate to the outer slicer
        free = {n.id for n in ast.walk(e) if isinstance(n, ast.Name)} - set(self.defs) - set(env)
        env2 = dict(env)
        for nm in free:
            if nm in outer.defs or nm in outer.field_defs:
                env2[nm] = _Outer(nm, outer)
        return self.leaves(e, path, env2, seen, depth)


class _Closure(ast.AST):
    """An argument expression together with the environment of the call site."""
    _fields = ()

    def __init__(self, expr, env, slicer):
        self.expr = expr
        self.env = dict(env)
        self.slicer = slicer


class _Outer(ast.AST):
    _fields = ()

    def __init__(self, name, outer):
        self.name = name
        self.outer = outer


_orig_leaves = Slicer.leaves


def _leaves(self, e, path=(), env=None, seen=None, depth=0):
    if isinstance(e, _Outer):
        return _orig_leaves(e.outer, ast.Name(id=e.name, ctx=ast.Load()), path, {}, seen, depth + 1)
    return _orig_leaves(self, e, path, env, seen, depth)


Slicer.leaves = _leaves  # type: ignore[assignment]
