"""Static-analysis support library for the st4sd-runtime-core property checkers.

Nothing in here imports or executes code from the analysed repository; all facts come from
``ast`` trees of the files under the repo root (env VERIF_REPO, default /repo).
"""
