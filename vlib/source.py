from __future__ import annotations

import ast
import hashlib
import os
import warnings
from typing import Dict, Iterator, List, Optional, Tuple


class AnalysisError(Exception):
    """The analysis could not be carried out (missing anchor, unrecognised shape).

    Mapped to exit code 2 - never to a VIOLATION and never to a silent pass."""


def repo_root() -> str:
    return os.environ.get("VERIF_REPO", "/repo")


class Module:
    def __init__(self, root: str, rel: str):
        self.root = root
        self.rel = rel
        self.path = os.path.join(root, rel)
        try:
            with open(self.path, "rb") as f:
                raw = f.read()
        except OSError as e:
            raise AnalysisError("cannot read module %s: %s" % (rel, e))
        self.digest = hashlib.sha1(raw).hexdigest()
        self.text = raw.decode("utf-8", errors="replace")
        self.lines = self.text.splitlines()
        with warnings.catch_warnings():
            warnings.simplefilter("ignore")
            try:
                self.tree = ast.parse(self.text, filename=self.path)
            except SyntaxError as e:
                raise AnalysisError("cannot parse %s: %s" % (rel, e))
        self._link(self.tree)
        self.functions: Dict[str, ast.AST] = {}
        self.classes: Dict[str, ast.ClassDef] = {}
        self._index(self.tree, "")

    # -- structure ---------------------------------------------------------------
    def _link(self, tree: ast.AST) -> None:
        tree._parent = None  # type: ignore[attr-defined]
        tree._module = self  # type: ignore[attr-defined]
        for node in ast.walk(tree):
            for child in ast.iter_child_nodes(node):
                child._parent = node  # type: ignore[attr-defined]
                child._module = self  # type: ignore[attr-defined]

    def _index(self, node: ast.AST, prefix: str) -> None:
        for child in ast.iter_child_nodes(node):
            if isinstance(child, (ast.FunctionDef, ast.AsyncFunctionDef)):
                q = prefix + child.name
                # keep the first definition with a given qualname, later ones get #n
                if q in self.functions:
                    n = 2
                    while "%s#%d" % (q, n) in self.functions:
                        n += 1
                    q = "%s#%d" % (q, n)
                child._qualname = q  # type: ignore[attr-defined]
                self.functions[q] = child
                self._index(child, q + ".")
            elif isinstance(child, ast.ClassDef):
                q = prefix + child.name
                child._qualname = q  # type: ignore[attr-defined]
                self.classes.setdefault(q, child)
                self._index(child, q + ".")
            else:
                self._index(child, prefix)

    def func(self, qualname: str) -> ast.FunctionDef:
        f = self.functions.get(qualname)
        if f is None:
            raise AnalysisError("anchor missing: function %s in %s" % (qualname, self.rel))
        return f  # type: ignore[return-value]

    def cls(self, qualname: str) -> ast.ClassDef:
        c = self.classes.get(qualname)
        if c is None:
            raise AnalysisError("anchor missing: class %s in %s" % (qualname, self.rel))
        return c

    def has_func(self, qualname: str) -> bool:
        return qualname in self.functions

    def loc(self, node: ast.AST) -> str:
        return "%s:%d" % (self.rel, getattr(node, "lineno", 0))


class Repo:
    PACKAGE_DIRS = ("python/experiment", "scripts")

    def __init__(self, root: Optional[str] = None):
        self.root = root or repo_root()
        if not os.path.isdir(os.path.join(self.root, "python", "experiment")):
            raise AnalysisError("repository not found at %s" % self.root)
        self._mods: Dict[str, Module] = {}

    def module(self, rel: str) -> Module:
        m = self._mods.get(rel)
        if m is None:
            m = Module(self.root, rel)
            self._mods[rel] = m
        return m

    def all_module_paths(self, dirs: Tuple[str, ...] = PACKAGE_DIRS) -> List[str]:
        out: List[str] = []
        for d in dirs:
            base = os.path.join(self.root, d)
            for dp, dns, fns in os.walk(base):
                dns.sort()
                if "__pycache__" in dp:
                    continue
                for fn in sorted(fns):
                    p = os.path.join(dp, fn)
                    if fn.endswith(".py"):
                        out.append(os.path.relpath(p, self.root))
                    elif d == "scripts" and "." not in fn:
                        # extension-less launcher scripts written in python
                        try:
                            with open(p, "rb") as f:
                                first = f.readline()
                            if b"python" in first:
                                out.append(os.path.relpath(p, self.root))
                        except OSError:
                            pass
        return sorted(set(out))

    def modules(self, dirs: Tuple[str, ...] = PACKAGE_DIRS, tolerate_errors: bool = True) -> Iterator[Module]:
        for rel in self.all_module_paths(dirs):
            try:
                yield self.module(rel)
            except AnalysisError:
                if not tolerate_errors:
                    raise

    def digests(self) -> Dict[str, str]:
        return {rel: m.digest for rel, m in sorted(self._mods.items())}


# -- generic ast helpers -----------------------------------------------------------

def parent(node: ast.AST) -> Optional[ast.AST]:
    return getattr(node, "_parent", None)


def ancestors(node: ast.AST) -> Iterator[ast.AST]:
    p = parent(node)
    while p is not None:
        yield p
        p = parent(p)


def enclosing_function(node: ast.AST) -> Optional[ast.AST]:
    for a in ancestors(node):
        if isinstance(a, (ast.FunctionDef, ast.AsyncFunctionDef, ast.Lambda)):
            return a
    return None


def enclosing_def(node: ast.AST) -> Optional[ast.FunctionDef]:
    for a in ancestors(node):
        if isinstance(a, (ast.FunctionDef, ast.AsyncFunctionDef)):
            return a  # type: ignore[return-value]
    return None


def enclosing_class(node: ast.AST) -> Optional[ast.ClassDef]:
    for a in ancestors(node):
        if isinstance(a, ast.ClassDef):
            return a
    return None


def qualname(node: ast.AST) -> str:
    q = getattr(node, "_qualname", None)
    if q:
        return q
    f = enclosing_def(node)
    if f is not None:
        return getattr(f, "_qualname", f.name)
    return "<module>"


def module_of(node: ast.AST) -> Module:
    return node._module  # type: ignore[attr-defined]


def loc(node: ast.AST) -> str:
    return module_of(node).loc(node)


def src(node: ast.AST) -> str:
    """Normalised source text of a construct (whitespace/quote independent)."""
    try:
        return ast.unparse(node)
    except Exception:  # pragma: no cover
        return "<%s>" % type(node).__name__


def short(node: ast.AST, n: int = 160) -> str:
    s = " ".join(src(node).split())
    return s if len(s) <= n else s[: n - 3] + "..."


def dotted(node: ast.AST) -> Optional[str]:
    """a.b.c for Name/Attribute chains, else None."""
    parts: List[str] = []
    while isinstance(node, ast.Attribute):
        parts.append(node.attr)
        node = node.value
    if isinstance(node, ast.Name):
        parts.append(node.id)
        return ".".join(reversed(parts))
    return None


def call_name(call: ast.Call) -> Optional[str]:
    return dotted(call.func)


def last_attr(call: ast.Call) -> Optional[str]:
    f = call.func
    if isinstance(f, ast.Attribute):
        return f.attr
    if isinstance(f, ast.Name):
        return f.id
    return None


def walk_own(node: ast.AST, include_nested: bool = False) -> Iterator[ast.AST]:
    """Walk a function's body; by default do not descend into nested defs/lambdas/classes."""
    stack = list(ast.iter_child_nodes(node))
    while stack:
        n = stack.pop()
        yield n
        if not include_nested and isinstance(n, (ast.FunctionDef, ast.AsyncFunctionDef, ast.ClassDef, ast.Lambda)):
            continue
        stack.extend(ast.iter_child_nodes(n))


def calls_in(node: ast.AST, include_nested: bool = False) -> List[ast.Call]:
    out = [n for n in walk_own(node, include_nested) if isinstance(n, ast.Call)]
    out.sort(key=lambda c: (c.lineno, c.col_offset))
    return out


def const_value(node: ast.AST):
    if isinstance(node, ast.Constant):
        return node.value
    raise ValueError("not a constant")


def is_const(node: ast.AST, value) -> bool:
    return isinstance(node, ast.Constant) and node.value == value and type(node.value) is type(value)


def stmt_of(node: ast.AST) -> ast.stmt:
    n = node
    while not isinstance(n, ast.stmt):
        n = parent(n)  # type: ignore[assignment]
        if n is None:
            raise AnalysisError("node has no enclosing statement")
    return n


def names_in(node: ast.AST) -> List[str]:
    return [n.id for n in ast.walk(node) if isinstance(n, ast.Name)]
