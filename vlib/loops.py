"""LOOPS: cycles of a `while` loop on which nothing changes.

Termination is undecidable, but one shape is decidable and is exactly what a forgotten update looks like: a path from the
loop test through the body back to the test on which

* no variable is updated in terms of itself (``x -= 1``, ``x = x[:-1]``, ``i += 1``),
* no object is mutated through a method (``pop``, ``append``, ``update`` ...) or an item/attribute store,
* every call is one of a small set of pure ones (``isinstance``, ``len``, ``tuple``, ``dict.get`` ...),

so every value computed on the path is a function of values the path does not change: the next iteration takes the same
path again, for ever (exception edges apart).  ``stuck_cycles`` reports such paths; anything it cannot classify as pure
counts as progress, so a report is never a guess about unknown side effects.
"""
from __future__ import annotations

import ast
from typing import Dict, List, Optional, Set, Tuple

from . import source
from .cfg import CFG, Node

PURE_CALLS = {"isinstance", "issubclass", "len", "tuple", "list", "dict", "set", "frozenset", "str", "int", "float", "bool", "repr",
              "sorted", "min", "max", "sum", "any", "all", "abs", "type", "id", "hasattr", "getattr", "enumerate", "zip", "range",
              "reversed", "format"}
PURE_METHODS = {"get", "keys", "values", "items", "startswith", "endswith", "split", "rsplit", "join", "strip", "lstrip", "rstrip",
                "lower", "upper", "format", "find", "index", "count", "copy", "fullmatch", "match", "search", "group", "groupdict",
                "isdigit", "replace", "partition", "rpartition"}
LOG_METHODS = {"debug", "info", "warning", "error", "critical", "log", "exception"}


def _node_effect(n: Node) -> Tuple[Set[str], bool]:
    """(variables this node may change in a way that is not a pure recomputation, does something opaque happen)"""
    a = n.ast
    if a is None:
        return set(), False
    changed: Set[str] = set()
    opaque = False
    exprs: List[ast.AST] = []
    if n.kind == "stmt":
        if isinstance(a, (ast.FunctionDef, ast.AsyncFunctionDef, ast.ClassDef, ast.Pass, ast.Break, ast.Continue)):
            return set(), False
        if isinstance(a, ast.AugAssign):
            for x in ast.walk(a.target):
                if isinstance(x, ast.Name):
                    changed.add(x.id)
            if not isinstance(a.target, ast.Name):
                opaque = True
            exprs.append(a.value)
        elif isinstance(a, (ast.Assign, ast.AnnAssign)):
            targets = a.targets if isinstance(a, ast.Assign) else [a.target]
            val = a.value
            used = {x.id for x in ast.walk(val) if isinstance(x, ast.Name)} if val is not None else set()
            for t in targets:
                if isinstance(t, ast.Name):
                    if t.id in used:
                        changed.add(t.id)           # self-referential update
                elif isinstance(t, (ast.Tuple, ast.List)):
                    for x in ast.walk(t):
                        if isinstance(x, ast.Name) and x.id in used:
                            changed.add(x.id)
                        elif isinstance(x, (ast.Subscript, ast.Attribute)):
                            opaque = True
                else:
                    opaque = True                   # item / attribute store
            if val is not None:
                exprs.append(val)
        elif isinstance(a, ast.Delete):
            opaque = True
        elif isinstance(a, (ast.Return, ast.Raise)):
            return set(), True                      # leaves the loop
        elif isinstance(a, ast.Expr):
            exprs.append(a.value)
        elif isinstance(a, (ast.Import, ast.ImportFrom, ast.Global, ast.Nonlocal, ast.Assert)):
            pass
        else:
            exprs.append(a)
    elif n.kind == "test":
        exprs.append(a)
    elif n.kind == "for":
        # a for loop inside the cycle advances its own iterator: progress of its own
        return set(), True
    elif n.kind == "with":
        return set(), True
    else:
        return set(), False
    for e in exprs:
        for c in ast.walk(e):
            if isinstance(c, ast.Call):
                if isinstance(c.func, ast.Name):
                    if c.func.id not in PURE_CALLS:
                        opaque = True
                elif isinstance(c.func, ast.Attribute):
                    if c.func.attr in LOG_METHODS:
                        continue
                    if c.func.attr not in PURE_METHODS:
                        opaque = True
                else:
                    opaque = True
            elif isinstance(c, (ast.Await, ast.Yield, ast.YieldFrom)):
                opaque = True
            elif isinstance(c, ast.NamedExpr):
                used = {x.id for x in ast.walk(c.value) if isinstance(x, ast.Name)}
                if isinstance(c.target, ast.Name) and c.target.id in used:
                    changed.add(c.target.id)
    return changed, opaque


def node_label_of(path: List[Node]) -> Dict[int, Optional[str]]:
    """edge label taken out of each node of the path (index -> label)"""
    out: Dict[int, Optional[str]] = {}
    for i in range(len(path) - 1):
        labs = [lab for (m, lab) in path[i].succ if m.id == path[i + 1].id]
        out[i] = labs[0] if labs else None
    return out


def _cycle_makes_progress(path: List[Node], labels: Dict[int, Optional[str]]) -> bool:
    """True when something changes on the cycle, or the cycle is infeasible (the same unchanged test taken both ways)."""
    deps: Dict[str, Set[str]] = {}        # variable -> variables (at the start of the iteration) its current value depends on
    changed: Set[str] = set()
    decisions: Dict[str, str] = {}

    def expand(names: Set[str]) -> Set[str]:
        out: Set[str] = set()
        for nm in names:
            out |= deps.get(nm, {nm})
        return out
    for i, pn in enumerate(path[:-1]):
        ch, opq = _node_effect(pn)
        if opq:
            return True
        a = pn.ast
        if pn.kind == "stmt" and isinstance(a, (ast.Assign, ast.AnnAssign)) and getattr(a, "value", None) is not None:
            used = expand({x.id for x in ast.walk(a.value) if isinstance(x, ast.Name)})
            targets = a.targets if isinstance(a, ast.Assign) else [a.target]
            for t in targets:
                for x in ast.walk(t):
                    if isinstance(x, ast.Name) and isinstance(x.ctx, ast.Store):
                        if x.id in used:
                            changed.add(x.id)       # (transitively) updated in terms of its own old value
                        deps[x.id] = set(used)
        changed |= ch
        if changed:
            return True
        if pn.kind == "test" and a is not None and labels.get(i) in ("T", "F"):
            key = source.src(a)
            names = expand({x.id for x in ast.walk(a) if isinstance(x, ast.Name)})
            # only tests over values that did not change since the start of the iteration are comparable
            if all(nm not in deps or deps[nm] == {nm} for nm in {x.id for x in ast.walk(a) if isinstance(x, ast.Name)}):
                prev = decisions.get(key)
                if prev is not None and prev != labels[i]:
                    return True                     # infeasible: the same unchanged condition both true and false
                decisions[key] = labels[i]
    return False


def stuck_cycles(fn: ast.AST, cfg: Optional[CFG] = None, max_paths: int = 4000) -> List[Tuple[ast.While, List[Node]]]:
    """[(while statement, the nodes of one cycle test -> body -> test on which nothing changes)]"""
    whiles = [w for w in source.walk_own(fn, include_nested=False) if isinstance(w, ast.While)]
    if not whiles:
        return []
    cfg = cfg or CFG(fn)
    out: List[Tuple[ast.While, List[Node]]] = []
    for w in whiles:
        tests = [n for n in cfg.nodes if n.kind == "test" and n.ast is not None and any(n.ast is x for x in ast.walk(w.test))]
        if not tests or isinstance(w.test, ast.Constant):
            continue            # `while True:`: every exit is a break/return, not this analysis
        head_ids = {t.id for t in tests}
        loop_nodes = [n for n in cfg.nodes if n.kind == "loop" and n.ast is w]
        inside = {n.id for n in cfg.nodes if n.ast is not None and any(n.ast is x for st in w.body for x in ast.walk(st))}
        inside |= head_ids | {n.id for n in loop_nodes}
        # synthetic nodes (joins, try dispatch) belong to the loop when they are only reachable from inside; allow all of them
        inside |= {n.id for n in cfg.nodes if n.ast is None}
        start = tests[0]
        found: Optional[List[Node]] = None
        count = 0
        stack: List[Tuple[Node, List[Node], Set[int]]] = [(m, [start, m], {start.id, m.id}) for (m, lab) in start.succ if lab == "T" and m.id in inside]
        # a test made of several atoms: later atoms are reached through T edges as well; handled by the generic walk
        while stack and found is None and count < max_paths:
            node, path, seen = stack.pop()
            count += 1
            for (m, lab) in node.succ:
                if lab in ("exc", "raise", "except", "uncaught", "break", "return"):
                    continue
                if m.id == start.id:
                    # closed a cycle: did anything change on it?
                    if not _cycle_makes_progress(path + [m], node_label_of(path + [m])):
                        found = path
                        break
                    continue
                if m.id not in inside or m.id in seen:
                    continue
                # an inner while loop on the path: its own test may iterate; treat entering it as fine (its body is walked too)
                stack.append((m, path + [m], seen | {m.id}))
        if found is not None:
            out.append((w, found))
    return out
