from __future__ import annotations

import argparse
import importlib
import os
import sys

HERE = os.path.dirname(os.path.dirname(os.path.abspath(__file__)))
sys.path.insert(0, HERE)

from vlib import report  # noqa: E402


def main(argv=None) -> int:
    ap = argparse.ArgumentParser()
    ap.add_argument("property")
    ap.add_argument("--tier", default=os.environ.get("VERIF_TIER", "quick"), choices=["quick", "thorough"])
    ap.add_argument("--repo", default=None)
    ap.add_argument("--no-selftest", action="store_true")
    args = ap.parse_args(argv)
    pid = args.property.upper()
    try:
        mod = importlib.import_module("checks.%s" % pid.lower())
    except ImportError as e:
        print("ANALYSIS-ERROR property=%s no checker module: %s" % (pid, e))
        return 2
    if args.no_selftest:
        os.environ["VERIF_NO_SELFTEST"] = "1"

    def fn(ctx):
        mod.run(ctx)
        if ctx.tier == "thorough" and os.environ.get("VERIF_NO_SELFTEST") != "1" and args.repo is None \
                and "VERIF_REPO" not in os.environ:
            try:
                from selftest import harness
            except ImportError:
                return
            harness.attach_selftest(ctx)

    return report.run_check(pid, fn, args.tier, args.repo)


if __name__ == "__main__":
    sys.exit(main())
