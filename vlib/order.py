"""ORD engine: order-taint.  Finds places where an unordered collection (set, directory listing) is turned into
an ordered result without a sanitizer."""
from __future__ import annotations

import ast
from typing import Dict, List, Optional, Set, Tuple

from . import source
from .source import call_name, dotted, last_attr

SET_METHODS = {"union", "intersection", "difference", "symmetric_difference", "copy"}
FS_SOURCES = {"os.listdir", "glob.glob", "glob.iglob", "os.scandir", "os.walk"}
SANITIZERS = {"sorted", "len", "sum", "min", "max", "any", "all", "set", "frozenset", "bool", "isinstance"}


def key_is_total(key: ast.AST) -> bool:
    """Does the sort key distinguish any two different elements?  Recognised: str/repr, the identity, str(x)/repr(x), and
    tuples that contain one of those; anything else (len(x), an attribute, a partial projection) is treated as partial."""
    if isinstance(key, ast.Name) and key.id in ("str", "repr"):
        return True
    if isinstance(key, ast.Lambda) and key.args.args:
        p = key.args.args[0].arg

        def total(e: ast.AST) -> bool:
            if isinstance(e, ast.Name) and e.id == p:
                return True
            if isinstance(e, ast.Call) and isinstance(e.func, ast.Name) and e.func.id in ("str", "repr") and e.args \
                    and isinstance(e.args[0], ast.Name) and e.args[0].id == p:
                return True
            if isinstance(e, ast.Tuple):
                return any(total(x) for x in e.elts)
            return False
        return total(key.body)
    return False


class Hit:
    def __init__(self, kind: str, node: ast.AST, why: str):
        self.kind = kind
        self.node = node
        self.why = why


class FunctionOrder:
    def __init__(self, fn: ast.AST, set_returning: Set[str]):
        self.fn = fn
        self.set_returning = set_returning
        self.setvars: Set[str] = set()
        self._infer_setvars()

    # -- which expressions are unordered --------------------------------------------------------------
    def is_unordered(self, e: ast.AST) -> bool:
        if isinstance(e, (ast.Set, ast.SetComp)):
            return True
        if isinstance(e, ast.Name):
            return e.id in self.setvars
        if isinstance(e, ast.Call):
            cn = call_name(e) or ""
            if cn in ("set", "frozenset"):
                return True
            if cn in FS_SOURCES:
                return True
            la = last_attr(e)
            if isinstance(e.func, ast.Attribute) and la in SET_METHODS and self.is_unordered(e.func.value):
                return True
            if isinstance(e.func, ast.Attribute) and la in ("union", "intersection", "difference", "symmetric_difference"):
                # x.union(...) is a set whatever x is (only sets have these methods)
                return True
            if la in self.set_returning and la not in ("get",):
                return True
            if cn in ("list", "tuple", "iter", "enumerate", "reversed") and e.args and self.is_unordered(e.args[0]):
                return True
            if cn in ("filter", "map") and len(e.args) >= 2 and self.is_unordered(e.args[1]):
                return True
        if isinstance(e, ast.BinOp) and isinstance(e.op, (ast.BitOr, ast.BitAnd, ast.Sub, ast.BitXor)):
            return self.is_unordered(e.left) or self.is_unordered(e.right)
        if isinstance(e, ast.IfExp):
            return self.is_unordered(e.body) or self.is_unordered(e.orelse)
        if isinstance(e, (ast.ListComp, ast.GeneratorExp)):
            return any(self.is_unordered(g.iter) for g in e.generators)
        return False

    def _infer_setvars(self) -> None:
        ann = {}
        for a in getattr(self.fn, "args", None).args if hasattr(self.fn, "args") else []:
            if a.annotation is not None and "Set" in source.src(a.annotation):
                self.setvars.add(a.arg)
        changed = True
        while changed:
            changed = False
            for n in source.walk_own(self.fn):
                tgt = None
                val = None
                if isinstance(n, ast.Assign) and len(n.targets) == 1 and isinstance(n.targets[0], ast.Name):
                    tgt, val = n.targets[0].id, n.value
                elif isinstance(n, ast.AnnAssign) and isinstance(n.target, ast.Name) and n.value is not None:
                    tgt, val = n.target.id, n.value
                if tgt and val is not None and tgt not in self.setvars and self._is_set_typed(val):
                    self.setvars.add(tgt)
                    changed = True

    def _is_set_typed(self, e: ast.AST) -> bool:
        """Is the value itself a set (not a list built from one)?"""
        if isinstance(e, (ast.Set, ast.SetComp)):
            return True
        if isinstance(e, ast.Name):
            return e.id in self.setvars
        if isinstance(e, ast.Call):
            cn = call_name(e) or ""
            la = last_attr(e)
            if cn in ("set", "frozenset"):
                return True
            if isinstance(e.func, ast.Attribute) and la in ("union", "intersection", "difference", "symmetric_difference"):
                return True
            if isinstance(e.func, ast.Attribute) and la == "copy" and self._is_set_typed(e.func.value):
                return True
            if la in self.set_returning:
                return True
            if cn in FS_SOURCES:
                return True
        if isinstance(e, ast.BinOp) and isinstance(e.op, (ast.BitOr, ast.BitAnd, ast.Sub, ast.BitXor)):
            return self._is_set_typed(e.left) or self._is_set_typed(e.right)
        return False

    # -- sinks -----------------------------------------------------------------------------------------
    def sanitized(self, e: ast.AST) -> bool:
        """Is expression e directly consumed by an order-insensitive operation?"""
        p = source.parent(e)
        while isinstance(p, (ast.Starred,)):
            p = source.parent(p)
        if isinstance(p, ast.Call) and (call_name(p) in SANITIZERS) and e in p.args:
            return True
        if isinstance(p, ast.Compare):
            return True   # membership / equality
        if isinstance(p, ast.Call) and isinstance(p.func, ast.Attribute) and p.func.attr in (
                "union", "intersection", "difference", "symmetric_difference", "update", "issubset", "issuperset",
                "difference_update", "intersection_update", "isdisjoint") and (e in p.args):
            return True
        if isinstance(p, ast.BinOp) and isinstance(p.op, (ast.BitOr, ast.BitAnd, ast.Sub, ast.BitXor)):
            return True
        if isinstance(p, ast.keyword) and isinstance(source.parent(p), ast.Call) and call_name(source.parent(p)) in SANITIZERS:
            return True
        return False

    def hits(self) -> List[Hit]:
        out: List[Hit] = []
        for n in source.walk_own(self.fn):
            # S1 materialisation
            if isinstance(n, ast.Call):
                cn = call_name(n) or ""
                if cn in ("list", "tuple") and n.args and self._is_set_typed(n.args[0]) and not self.sanitized(n):
                    out.append(Hit("S1-materialise", n, "%s(<unordered>) fixes an arbitrary order" % cn))
                if last_attr(n) == "join" and n.args and self.is_unordered(n.args[0]) and isinstance(n.func, ast.Attribute) \
                        and isinstance(n.func.value, ast.Constant):
                    out.append(Hit("S1-join", n, "str.join over an unordered collection"))
                # a list extended with an unordered collection (directly, or through a generator / comprehension over one) keeps that order
                if isinstance(n.func, ast.Attribute) and n.func.attr == "extend" and len(n.args) == 1:
                    a0 = n.args[0]
                    unordered = self.is_unordered(a0) or (isinstance(a0, (ast.GeneratorExp, ast.ListComp))
                                                         and any(self._is_set_typed(g.iter) for g in a0.generators))
                    if unordered and not isinstance(a0, ast.ListComp):      # a list comprehension is reported as S1-listcomp already
                        out.append(Hit("S1-extend", n, "list.extend(<unordered>) appends the elements in an arbitrary order"))
                if isinstance(n.func, ast.Attribute) and n.func.attr == "pop" and not n.args and self._is_set_typed(n.func.value):
                    p = source.parent(n)
                    out.append(Hit("S3-pop", n, "set.pop() selects an arbitrary element"))
                # S4: a sort whose key does not separate all elements keeps the (arbitrary) input order among equal keys
                if cn == "sorted" and n.args and self.is_unordered(n.args[0]):
                    key = next((k.value for k in n.keywords if k.arg == "key"), None)
                    if key is not None and not key_is_total(key):
                        out.append(Hit("S4-partial-key-sort", n, "sorted(<unordered>, key=%s): elements with equal keys keep the "
                                                                 "arbitrary input order" % source.short(key, 50)))
                if cn == "next" and n.args and isinstance(n.args[0], ast.Call) and call_name(n.args[0]) == "iter" \
                        and n.args[0].args and self._is_set_typed(n.args[0].args[0]):
                    out.append(Hit("S3-next-iter", n, "next(iter(<set>)) selects an arbitrary element"))
            if isinstance(n, (ast.ListComp,)) and any(self._is_set_typed(g.iter) for g in n.generators) and not self.sanitized(n):
                out.append(Hit("S1-listcomp", n, "list comprehension over an unordered collection"))
            # a dictionary keeps insertion order: built over an unordered collection, whoever iterates it inherits the hash seed
            if isinstance(n, ast.DictComp) and any(self._is_set_typed(g.iter) for g in n.generators) and not self.sanitized(n):
                out.append(Hit("S1-dictcomp", n, "dictionary comprehension over an unordered collection (its iteration order is the set's)"))
            # S2 order dependent loops
            if isinstance(n, ast.For) and self._is_set_typed(n.iter):
                eff = self.loop_effects(n)
                if eff:
                    out.append(Hit("S2-loop", n, "loop over an unordered collection with order-dependent effect: %s" % ", ".join(eff)))
        return out

    def loop_effects(self, loop: ast.For) -> List[str]:
        eff: List[str] = []
        for n in ast.walk(loop):
            if n is loop:
                continue
            if isinstance(n, ast.Break):
                # break that belongs to this loop
                owner = None
                for a in source.ancestors(n):
                    if isinstance(a, (ast.For, ast.While)):
                        owner = a
                        break
                if owner is loop:
                    eff.append("break (first match wins)")
            if isinstance(n, ast.Return):
                eff.append("return inside the loop (first match wins)")
            if isinstance(n, ast.Call) and isinstance(n.func, ast.Attribute) and n.func.attr in ("append", "extend", "insert"):
                eff.append("%s.%s" % (dotted(n.func.value) or "?", n.func.attr))
            if isinstance(n, ast.AugAssign) and isinstance(n.op, ast.Add) and isinstance(n.target, ast.Name):
                eff.append("counter/accumulator %s +=" % n.target.id)
        return sorted(set(eff))


def set_returning_functions(mods) -> Set[str]:
    """Names of functions/methods (by simple name) all of whose returns are set-typed."""
    names: Set[str] = set()
    changed = True
    rounds = 0
    while changed and rounds < 4:
        changed = False
        rounds += 1
        for m in mods:
            for q, fn in m.functions.items():
                simple = q.split(".")[-1]
                if simple in names:
                    continue
                rets = [r for r in source.walk_own(fn) if isinstance(r, ast.Return) and r.value is not None]
                if not rets:
                    continue
                fo = FunctionOrder(fn, names)
                if all(fo._is_set_typed(r.value) for r in rets):
                    names.add(simple)
                    changed = True
    return names
