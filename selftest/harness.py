"""Both-ways selftest of the checkers: firing mutants and silent (behaviour-preserving) variants.

Every variant is a text edit applied to a scratch copy of the *current* /repo sources (python/experiment
and scripts only) that lives in a temporary directory outside /repo and /verif and is removed afterwards.
The check is then run against the scratch copy with --repo.  A firing mutant must make the check exit 1 and
(when given) name the expected rule; a silent variant must leave it at exit 0.  Results never change the
exit status of a check; they are recorded in the evidence (coverage.selftest).
"""
from __future__ import annotations

import concurrent.futures
import importlib
import os
import shutil
import subprocess
import sys
import tempfile
import warnings
from typing import Any, Dict, List, Optional

HERE = os.path.dirname(os.path.dirname(os.path.abspath(__file__)))
REPO = os.environ.get("VERIF_SELFTEST_REPO", "/repo")


def load_variants(pid: str) -> List[Dict[str, Any]]:
    try:
        mod = importlib.import_module("selftest.mutants.%s" % pid.lower())
    except ImportError:
        return []
    return list(getattr(mod, "VARIANTS", []))


def make_scratch() -> str:
    d = tempfile.mkdtemp(prefix="verif_scratch_")
    os.makedirs(os.path.join(d, "python"))
    shutil.copytree(os.path.join(REPO, "python", "experiment"), os.path.join(d, "python", "experiment"),
                    ignore=shutil.ignore_patterns("__pycache__", "*.pyc"))
    shutil.copytree(os.path.join(REPO, "scripts"), os.path.join(d, "scripts"),
                    ignore=shutil.ignore_patterns("__pycache__", "*.pyc"))
    return d


def apply_edits(scratch: str, variant: Dict[str, Any]) -> Optional[str]:
    """Returns None on success or a reason for skipping (anchor text not found)."""
    edits = variant.get("edits") or [variant]
    staged = {}
    for e in edits:
        path = os.path.join(scratch, e["file"])
        if not os.path.exists(path):
            return "file missing: %s" % e["file"]
        text = staged.get(path)
        if text is None:
            with open(path) as f:
                text = f.read()
        if text.count(e["old"]) < 1:
            return "anchor text not found in %s" % e["file"]
        if e.get("all"):
            text = text.replace(e["old"], e["new"])
        else:
            if text.count(e["old"]) != 1 and not e.get("first"):
                return "anchor text ambiguous (%d matches) in %s" % (text.count(e["old"]), e["file"])
            text = text.replace(e["old"], e["new"], 1)
        staged[path] = text
    for path, text in staged.items():
        try:
            with warnings.catch_warnings():
                warnings.simplefilter("ignore")
                compile(text, path, "exec")
        except SyntaxError as ex:
            return "variant does not compile: %s" % ex
        with open(path, "w") as f:
            f.write(text)
    return None


def run_variant(pid: str, variant: Dict[str, Any]) -> Dict[str, Any]:
    scratch = make_scratch()
    try:
        skip = apply_edits(scratch, variant)
        if skip:
            return {"name": variant["name"], "expect": variant["expect"], "result": "skipped", "detail": skip}
        env = dict(os.environ)
        env["VERIF_NO_EVIDENCE"] = "1"
        env["VERIF_NO_SELFTEST"] = "1"
        env["VERIF_REPLAY_DIR"] = os.path.join(scratch, "replay")
        env.pop("VERIF_REPO", None)
        p = subprocess.run([os.path.join(HERE, "check"), pid, "--tier", "quick", "--repo", scratch],
                           capture_output=True, text=True, env=env, timeout=600)
        out = p.stdout + p.stderr
        if variant["expect"] == "fire":
            ok = p.returncode == 1 and "VIOLATION property=%s" % pid in out
            if ok and variant.get("rule"):
                ok = ("violated %s" % variant["rule"]) in out
            res = "fired" if ok else "MISSED"
        else:
            ok = p.returncode == 0 and "VIOLATION" not in out
            res = "silent" if ok else "FALSE-ALARM"
        detail = ""
        if not ok:
            detail = " | ".join(l.strip() for l in out.splitlines() if l.startswith("  violated") or "ANALYSIS-ERROR" in l)[:600]
            detail = "exit=%d %s" % (p.returncode, detail)
        return {"name": variant["name"], "expect": variant["expect"], "result": res, "detail": detail,
                "rule": variant.get("rule", "")}
    finally:
        shutil.rmtree(scratch, ignore_errors=True)


def run_selftest(pid: str, jobs: int = 16) -> Dict[str, Any]:
    variants = load_variants(pid)
    results: List[Dict[str, Any]] = []
    if variants:
        with concurrent.futures.ThreadPoolExecutor(max_workers=min(jobs, len(variants))) as ex:
            results = list(ex.map(lambda v: run_variant(pid, v), variants))
    fire = [r for r in results if r["expect"] == "fire"]
    silent = [r for r in results if r["expect"] == "silent"]
    return {
        "mutants_expected": len(fire),
        "mutants_fired": sum(1 for r in fire if r["result"] == "fired"),
        "mutants_missed": [r["name"] for r in fire if r["result"] == "MISSED"],
        "refactors_expected": len(silent),
        "refactors_silent": sum(1 for r in silent if r["result"] == "silent"),
        "refactors_false_alarm": [r["name"] for r in silent if r["result"] == "FALSE-ALARM"],
        "skipped": [r["name"] + ": " + r["detail"] for r in results if r["result"] == "skipped"],
        "results": results,
    }


def attach_selftest(ctx) -> None:
    st = run_selftest(ctx.pid)
    ctx.extra["selftest"] = {k: v for k, v in st.items() if k != "results"}
    ctx.extra["selftest"]["variants"] = [{"name": r["name"], "expect": r["expect"], "result": r["result"]}
                                         for r in st["results"]]
    print("%s selftest: mutants fired %d/%d, refactors silent %d/%d, skipped %d"
          % (ctx.pid, st["mutants_fired"], st["mutants_expected"], st["refactors_silent"],
             st["refactors_expected"], len(st["skipped"])))
    for r in st["results"]:
        if r["result"] in ("MISSED", "FALSE-ALARM"):
            print("  selftest %s: %s %s" % (r["result"], r["name"], r["detail"]))


def main(argv: List[str]) -> int:
    sys.path.insert(0, HERE)
    pids = [a.upper() for a in argv] or ["C%02d" % i for i in range(1, 21)]
    bad = 0
    for pid in pids:
        st = run_selftest(pid)
        if not st["results"]:
            continue
        print("%s: mutants fired %d/%d, refactors silent %d/%d, skipped %d" % (
            pid, st["mutants_fired"], st["mutants_expected"], st["refactors_silent"], st["refactors_expected"],
            len(st["skipped"])))
        for r in st["results"]:
            if r["result"] not in ("fired", "silent"):
                bad += 1
                print("   %-11s %s  %s" % (r["result"], r["name"], r["detail"]))
    return 1 if bad else 0


if __name__ == "__main__":
    sys.path.insert(0, HERE)
    sys.exit(main(sys.argv[1:]))
