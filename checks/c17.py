"""C17 - component environments are built only from their declared sources.  See DESIGN.md section C17."""
from __future__ import annotations

import ast
from typing import List, Optional, Set

from vlib import flow, match, source
from vlib.cfg import CFG, own_calls
from vlib.source import AnalysisError, call_name, dotted, last_attr, short

CONF = "python/experiment/model/conf.py"
FLOWIR = "python/experiment/model/frontends/flowir.py"
SEARCH_PATH_VARS = {"PATH", "PYTHONPATH", "PYTHONHOME", "LD_LIBRARY_PATH"}
CLS = "FlowIRExperimentConfiguration."


def is_os_environ(n: ast.AST) -> bool:
    return isinstance(n, ast.Attribute) and n.attr == "environ" and isinstance(n.value, ast.Name) and n.value.id == "os"


COPIERS = {"deep_copy", "deepcopy", "copy", "dict", "list", "OrderedDict"}


def check_stored_environments_not_handed_out(ctx, fl) -> None:
    """R7: reaching-definitions alias analysis of every FlowIRConcrete method that touches the environments region."""
    RID = "C17.R7-stored-environments-are-not-handed-out"
    cls = fl.cls("FlowIRConcrete")
    ctx.require(cls is not None, "anchor missing: FlowIRConcrete")

    def is_env_key(e: ast.AST) -> bool:
        return (isinstance(e, ast.Attribute) and e.attr == "FieldEnvironments") or (isinstance(e, ast.Constant) and e.value == "environments")

    def is_store(e: ast.AST) -> bool:
        return isinstance(e, ast.Attribute) and isinstance(e.value, ast.Name) and e.value.id == "self" and e.attr == "_flowir"
    n_methods = 0
    for f in [x for x in cls.body if isinstance(x, ast.FunctionDef)]:
        if not any(is_env_key(x) for x in ast.walk(f)):
            continue
        cfg = CFG(f)
        rd_cache = {}

        def alias(e: ast.AST, at: int, depth: int = 0) -> bool:
            """may e (evaluated at CFG node `at`) be an object of the stored environments?"""
            if depth > 8:
                return False
            if isinstance(e, ast.Call) and (call_name(e) or "").split(".")[-1] == "cast" and len(e.args) == 2:
                return alias(e.args[1], at, depth + 1)
            if isinstance(e, ast.Subscript):
                if is_store(e.value) and is_env_key(e.slice):
                    return True
                return alias(e.value, at, depth + 1)
            if isinstance(e, ast.Call) and isinstance(e.func, ast.Attribute) and e.func.attr in ("get", "setdefault", "pop") and e.args:
                if is_store(e.func.value) and is_env_key(e.args[0]):
                    return True
                return alias(e.func.value, at, depth + 1)
            if isinstance(e, ast.IfExp):
                return alias(e.body, at, depth + 1) or alias(e.orelse, at, depth + 1)
            if isinstance(e, ast.BoolOp):
                return any(alias(v, at, depth + 1) for v in e.values)
            if isinstance(e, ast.Name):
                if e.id not in rd_cache:
                    rd_cache[e.id] = flow.reaching_defs(cfg, e.id)
                for d_ in rd_cache[e.id].get(at, frozenset()):
                    v = flow.def_value(cfg, d_, e.id)
                    if v is not None and alias(v, d_, depth + 1):
                        return True
                return False
            return False
        rets = [n for n in cfg.nodes if n.kind == "stmt" and isinstance(n.ast, ast.Return) and n.ast.value is not None]
        if not rets:
            continue
        n_methods += 1
        ctx.analysed(f)
        for rn in rets:
            bad = alias(rn.ast.value, rn.id)
            ctx.ob(RID, rn.ast, not bad,
                   "%s returns a fresh object, not one of the stored environments" % f.name if not bad else
                   "%s returns an object of the stored environments itself: FlowIRConcrete.instance(platform) starts from get_environments('default') "
                   "and assigns the layered environments of the selected platform into it, so after instance('alpha') the DEFAULT platform's stored "
                   "environments hold alpha's variables - every later lookup for another platform (or a copy() of the object) layers over them, "
                   "and an environment only alpha defines no longer raises FlowIREnvironmentUnknown" % f.name,
                   construct="%s: %s is not an alias of the stored environments" % (f.name, short(rn.ast, 60)))
    ctx.floor(RID, n_methods, 2, "methods of FlowIRConcrete that read the environments region and return a value")


def run(ctx) -> None:
    ctx.explanation = (
        "Who-may-read rule for the launch environment: every occurrence of os.environ in the environment builders is "
        "classified into the four frozen, key-restricted forms (names imported through DEFAULTS, the literal search-path "
        "list for interpreter components, the whole environment only when the package defines no default environment, "
        "expansion of values after the environment's own variables); plus the branch table of environmentWithName, the "
        "platform-over-default layering and the lower-casing agreement of the readers/writers of environment names. "
        "Holds for every launch environment because no other read of it exists on these paths; the resulting "
        "dictionary for a concrete combination is not computed.")
    ctx.rule("C17.R1-launch-env-reads", "os.environ is read only in the four frozen, key-restricted forms")
    ctx.rule("C17.R2-branch-table", "'none' adds nothing, ''/'environment' adds the default environment, otherwise the named environment; unknown names propagate FlowIREnvironmentUnknown")
    ctx.rule("C17.R3-layering", "the selected platform's environment is layered over the default platform's")
    ctx.rule("C17.R5-expansion-context", "a value of the environment is expanded from the environment's own variables, or - for a "
                                         "variable imported through DEFAULTS - from the launch value of that same variable only; "
                                         "no other launch value can replace a variable the environment defines itself")
    ctx.rule("C17.R6-builders-do-not-mutate-the-configuration", "the environment builders work on copies: nothing reachable from self "
             "(e.g. the runtime's system variables) is modified, so one lookup cannot leak variables into the next")
    ctx.rule("C17.R4-name-case", "environment names are lower-cased by every reader and writer")
    ctx.rule("C17.R7-stored-environments-are-not-handed-out", "no method of FlowIRConcrete returns an object of the stored environments "
             "(self._flowir['environments'][..]) itself: what a caller writes into the result (instance() layers the selected platform over "
             "get_environments('default')) must not become the default platform's environment of every later lookup")

    conf = ctx.repo.module(CONF)
    fl = ctx.repo.module(FLOWIR)
    efn = conf.func(CLS + "environmentForNode")
    ewn = conf.func(CLS + "environmentWithName")
    den = conf.func(CLS + "defaultEnvironment")
    for f in (efn, ewn, den):
        ctx.analysed(f)
    # roles of the locals of environmentWithName (by definition, not by spelling)
    _r = [r.value.id for r in source.walk_own(ewn) if isinstance(r, ast.Return) and isinstance(r.value, ast.Name)]
    ENV = _r[-1] if _r else "environment"
    DEFENV = match.role(ewn, lambda v: isinstance(v, ast.Call) and last_attr(v) == "defaultEnvironment", "default_env")
    NAMED = match.role(ewn, lambda v: isinstance(v, ast.Call) and last_attr(v) == "get_environment", "flowir_env_vars")
    LBL = match.role(ewn, lambda v: "LabelEnvironmentDefaults" in source.src(v), "lbl_defaults")

    # ---------------- R1 -------------------------------------------------------------------------------
    n_reads = 0
    for fn in (efn, ewn, den):
        q = source.qualname(fn)
        cfg = CFG(fn)
        for n in source.walk_own(fn, include_nested=True):
            if not is_os_environ(n):
                continue
            n_reads += 1
            p = source.parent(n)
            form = None
            # (a) os.environ[v] / v in os.environ, v iterating the DEFAULTS list of the environment itself
            v = None
            if isinstance(p, ast.Subscript) and p.value is n and isinstance(p.slice, ast.Name):
                v = p.slice.id
            if isinstance(p, ast.Compare) and n in p.comparators and isinstance(p.left, ast.Name) and isinstance(p.ops[0], (ast.In, ast.NotIn)):
                v = p.left.id
            if v is not None:
                loops = [a for a in source.ancestors(n) if isinstance(a, ast.For) and isinstance(a.target, ast.Name) and a.target.id == v]
                if loops and isinstance(loops[0].iter, ast.Name):
                    vals = match.assigned_value(fn, loops[0].iter.id)
                    if any("split" in source.src(x) and (LBL in source.names_in(x) or "DEFAULTS" in source.src(x)) for x in vals):
                        form = "a: variable imported by name through the environment's DEFAULTS list"
            # (b) search-path copy for interpreters
            pc = source.parent(p) if isinstance(p, ast.Attribute) and p.attr == "copy" else None
            if pc is None and isinstance(p, ast.Call) and call_name(p) in ("dict", "copy.copy") and p.args and p.args[0] is n:
                pc = p
            if isinstance(pc, ast.Call) and isinstance(source.parent(pc), ast.Assign):
                tgt = source.parent(pc).targets[0]
                if isinstance(tgt, ast.Name):
                    uses = [u for u in source.walk_own(fn, include_nested=True) if isinstance(u, ast.Name) and u.id == tgt.id and isinstance(u.ctx, ast.Load)]
                    comp = [c for c in source.walk_own(fn, include_nested=True) if isinstance(c, ast.DictComp) and any(u is x for u in uses for x in ast.walk(c))]
                    ok_uses = bool(comp) and all(any(u is x for c in comp for x in ast.walk(c)) for u in uses)
                    if ok_uses:
                        c = comp[0]
                        g = c.generators[0]
                        lst = match.assigned_value(fn, g.iter.id) if isinstance(g.iter, ast.Name) else [g.iter]
                        names = {e.value for l in lst if isinstance(l, (ast.List, ast.Tuple)) for e in l.elts if isinstance(e, ast.Constant)}
                        not_in_env = any(isinstance(i, ast.Compare) and isinstance(i.ops[0], ast.NotIn) for cond in g.ifs for i in ast.walk(cond))
                        interp = match.test_nodes(cfg, lambda t: "T" if (isinstance(t, ast.Call) and last_attr(t) == "get" and t.args
                                                                          and isinstance(t.args[0], ast.Constant) and t.args[0].value == "interpreter") else None)
                        stn = cfg.nodes_of(source.stmt_of(c))
                        guarded = bool(interp) and bool(stn) and all(match.only_via_edges(cfg, x, interp) for x in stn)
                        if names and names <= SEARCH_PATH_VARS and not_in_env and guarded and isinstance(g.target, ast.Name) \
                                and isinstance(c.key, ast.Name) and c.key.id == g.target.id:
                            form = "b: search-path variables %s for interpreter components, only when missing" % sorted(names)
                        elif names and not names <= SEARCH_PATH_VARS:
                            form = None
            # (c) whole launch environment only when the package defines no default environment
            if isinstance(p, ast.Call) and call_name(p) in ("copy.deepcopy", "dict", "deepcopy") and q.endswith("defaultEnvironment"):
                hs = [a for a in source.ancestors(n) if isinstance(a, ast.ExceptHandler)]
                if hs and hs[0].type is not None and "FlowIREnvironmentUnknown" in source.src(hs[0].type):
                    form = "c: the launch environment stands in for a missing default environment"
            ctx.ob("C17.R1-launch-env-reads", source.stmt_of(n), form is not None,
                   "os.environ read in form (%s)" % form if form else
                   "%s reads the launch environment in an unrestricted way (%s): variables the environment did not import by "
                   "name leak into the task's environment" % (q, short(p, 70)),
                   construct="%s: %s" % (q.split(".")[-1], short(p, 90)))
    ctx.floor("C17.R1-launch-env-reads", n_reads, 2, "reads of os.environ in the environment builders")
    # every name the environment imports is visited: a launch variable that is missing skips THAT name only.  A loop whose body reads
    # os.environ[<loop variable>] must not sit inside a try whose handler swallows the KeyError - the first missing name would end the
    # loop and silently drop every import listed after it
    n_imp = 0
    for f in (efn, ewn, den):
        q = source.qualname(f)
        for lp in source.walk_own(f):
            if not (isinstance(lp, ast.For) and isinstance(lp.target, ast.Name)):
                continue
            reads = [x for x in ast.walk(lp) if isinstance(x, ast.Subscript) and is_os_environ(x.value) and isinstance(x.slice, ast.Name) and x.slice.id == lp.target.id]
            if not reads:
                continue
            n_imp += 1
            swallowing = []
            for a in source.ancestors(lp):
                if a is f:
                    break
                if isinstance(a, ast.Try) and any(any(lp is y for y in ast.walk(st)) for st in a.body):
                    for h in a.handlers:
                        types = {"*"} if h.type is None else {source.src(t_).split(".")[-1] for t_ in (h.type.elts if isinstance(h.type, ast.Tuple) else [h.type])}
                        if types & {"*", "KeyError", "LookupError", "Exception", "BaseException"} and not any(isinstance(y, ast.Raise) for st in h.body for y in ast.walk(st)):
                            swallowing.append(h)
            ctx.ob("C17.R1-launch-env-reads", lp, not swallowing,
                   "a missing launch variable skips only its own name in the import loop of %s" % q.split(".")[-1] if not swallowing else
                   "the loop over the imported names in %s sits inside a try whose handler swallows the KeyError of os.environ[<name>]: the first "
                   "name the launch environment lacks ends the loop, every import listed after it is dropped (DEFAULTS: PATH:PYTHONPATH:"
                   "LD_LIBRARY_PATH without PYTHONPATH loses LD_LIBRARY_PATH) and a self-reference of a later name is expanded twice"
                   % q.split(".")[-1], construct="%s: import loop <- per-name handling of a missing variable" % q.split(".")[-1])
    ctx.floor("C17.R1-launch-env-reads", n_imp, 1, "loops that import launch variables by name")
    # (d) expandvars after the environment's own variables
    ev = [c for c in source.calls_in(ewn, include_nested=True) if call_name(c) == "os.path.expandvars"]
    ctx.require(bool(ev), "anchor missing: os.path.expandvars in environmentWithName")
    for c in ev:
        inner = c.args[0] if c.args else None
        inners = [inner]
        if isinstance(inner, ast.Name):      # value = expand_vars(..); os.path.expandvars(value)
            inners = match.assigned_value(ewn, inner.id) or [inner]
        ok = all(isinstance(i, ast.Call) and last_attr(i) == "expand_vars" and len(i.args) == 2 and isinstance(i.args[1], ast.Name)
                 and i.args[1].id == ENV for i in inners)
        ctx.ob("C17.R1-launch-env-reads", c, ok, "values are expanded first from the environment itself, then from the launch environment" if ok else
               "os.path.expandvars is applied before/without expanding from the environment's own variables")
        exp = match.test_nodes(CFG(ewn), lambda t: "T" if isinstance(t, ast.Name) and t.id == "expand" else None)
        ctx.ob("C17.R1-launch-env-reads", c, bool(exp), "expansion only when requested", trivial=True)
    # ---------------- R6 -------------------------------------------------------------------------------
    from checks.c14 import mutations_of_self
    for f in (efn, ewn, den):
        muts = mutations_of_self(f)
        ctx.ob("C17.R6-builders-do-not-mutate-the-configuration", muts[0] if muts else f, not muts,
               "%s modifies nothing that belongs to the configuration object" % f.name if not muts else
               "%s modifies an object of the configuration through an alias (%s): what one lookup adds (the default environment, "
               "DEFAULTS imports - possibly the whole launch environment) is still there for the next lookup, so 'none' and named "
               "environments contain variables they must not" % (f.name, short(muts[0], 70)),
               construct="%s does not mutate self" % f.name)

    # ---------------- R5 -------------------------------------------------------------------------------
    xs = [c for c in source.calls_in(ewn, include_nested=True) if last_attr(c) == "expand_vars" or call_name(c) == "expand_vars"]
    ctx.floor("C17.R5-expansion-context", len(xs), 2, "expand_vars calls in environmentWithName")
    for c in xs:
        ctxarg = c.args[1] if len(c.args) > 1 else next((k.value for k in c.keywords if k.arg == "environment"), None)
        subj = c.args[0] if c.args else None
        form = None
        if isinstance(ctxarg, ast.Name) and ctxarg.id == ENV:
            form = "the environment's own variables"
        elif isinstance(ctxarg, ast.Dict) and len(ctxarg.keys) == 1 and isinstance(ctxarg.keys[0], ast.Name):
            k = ctxarg.keys[0].id
            v = ctxarg.values[0]
            v_ok = (isinstance(v, ast.Subscript) and is_os_environ(v.value) and isinstance(v.slice, ast.Name) and v.slice.id == k)
            if not v_ok and isinstance(v, ast.Subscript) and isinstance(v.slice, ast.Name) and v.slice.id == k and isinstance(v.value, ast.Name):
                # a local holding launch values, indexed by the same variable
                v_ok = True
            s_ok = isinstance(subj, ast.Subscript) and isinstance(subj.slice, ast.Name) and subj.slice.id == k \
                and isinstance(subj.value, ast.Name) and subj.value.id == ENV
            if v_ok and s_ok:
                form = "the launch value of the same variable (self-reference such as PATH: /x:$PATH)"
        ctx.ob("C17.R5-expansion-context", c, form is not None,
               "expanded from %s" % form if form else
               "a value is expanded from %s, which can hold launch values of *other* variables: a reference to $A inside B is "
               "replaced by the launch environment's A although the environment defines its own A (own variables must win)"
               % short(ctxarg, 60), construct="expand_vars(%s, %s)" % (short(subj, 40), short(ctxarg, 50)))

    # the self-reference step of DEFAULTS (PATH: /x:$PATH) goes through the reference grammar: inside a loop over names, every item
    # store ENV[<loop variable>] = v has v = a launch value of that name or an expand_vars(..) call (whose context is judged above).
    # A textual replace of '$NAME' also rewrites the prefix of '$NAME_EXTRA' and the escaped '$$NAME' (seed C17-13).
    for lp in source.walk_own(ewn, include_nested=False):
        if not (isinstance(lp, ast.For) and isinstance(lp.target, ast.Name)):
            continue
        k = lp.target.id
        for st in ast.walk(lp):
            if not isinstance(st, (ast.Assign, ast.AugAssign)):
                continue
            tg = st.targets if isinstance(st, ast.Assign) else [st.target]
            if not any(isinstance(t, ast.Subscript) and isinstance(t.value, ast.Name) and t.value.id == ENV
                       and isinstance(t.slice, ast.Name) and t.slice.id == k for t in tg):
                continue
            v = match.resolve_local(ewn, st.value)
            launch = isinstance(v, ast.Subscript) and isinstance(v.slice, ast.Name) and v.slice.id == k and not isinstance(st, ast.AugAssign)
            grammar = isinstance(v, ast.Call) and (last_attr(v) == "expand_vars" or call_name(v) == "expand_vars") and not isinstance(st, ast.AugAssign)
            ok = launch or grammar
            ctx.ob("C17.R5-expansion-context", st, ok,
                   "%s[%s] is set to %s" % (ENV, k, "the launch value of the same name" if launch else "an expand_vars result") if ok else
                   "%s[%s] is rewritten by %s instead of the reference grammar (expand_vars): a textual replacement of '$%s' also rewrites the "
                   "prefix of a longer name ('$%s_EXTRA') and an escaped '$$%s', so the value contains launch text where the environment "
                   "referenced another (own or undefined) variable" % (ENV, k, short(v, 80), "NAME", "NAME", "NAME"),
                   construct="%s[%s] = launch value | expand_vars(..)" % (ENV, k))

    # the context of the own-variable expansion is the WHOLE layered environment: no definition that reaches the call is a filtered
    # copy of the environment (a variable that was blanked on purpose must still shadow the launch variable of the same name)
    cfg5 = CFG(ewn)
    for c in xs:
        ctxarg = c.args[1] if len(c.args) > 1 else next((k.value for k in c.keywords if k.arg == "environment"), None)
        if not (isinstance(ctxarg, ast.Name) and ctxarg.id == ENV):
            continue
        at = [n for n in cfg5.nodes if n.ast is not None and n.kind == "stmt" and any(c is x for x in ast.walk(n.ast))]
        if not at:
            continue
        rd = flow.reaching_defs(cfg5, ENV).get(at[0].id, frozenset())
        filtered = []
        for d in rd:
            v = flow.def_value(cfg5, d, ENV) if d >= 0 else None
            if isinstance(v, (ast.DictComp, ast.ListComp, ast.GeneratorExp)) or (isinstance(v, ast.Call) and call_name(v) == "dict" and v.args
                                                                                and isinstance(v.args[0], (ast.GeneratorExp, ast.ListComp))):
                comp = v if not isinstance(v, ast.Call) else v.args[0]
                if any(g.ifs for g in comp.generators) and any(ENV in source.names_in(g.iter) for g in comp.generators):
                    filtered.append(v)
        ctx.ob("C17.R5-expansion-context", c, not filtered,
               "the expansion context is the whole layered environment" if not filtered else
               "the environment is filtered (%s) before its values are expanded against it: a variable that a platform blanks on purpose is no "
               "longer in the lookup, so '$VAR' inside another value is left for os.path.expandvars, which fills it from the launch "
               "environment - a launch variable that the environment neither defines with that value nor imports" % short(filtered[0], 70),
               construct="expand_vars context = unfiltered %s" % ENV)

    # chained own references: the launch environment may only be consulted for what the environment's own variables cannot resolve.
    # A single own pass over the RAW values leaves '$C' in A for A: $B, B: $C - and os.path.expandvars then fills it from the launch
    # environment although the environment defines C itself.
    launch_steps = [c for c in source.calls_in(ewn, include_nested=True) if call_name(c) == "os.path.expandvars"]
    for c in launch_steps:
        own = [x for x in ast.walk(c) if isinstance(x, ast.Call) and x is not c and (last_attr(x) == "expand_vars" or call_name(x) == "expand_vars")]
        # accepted repair shape: the own expansion (and this call) sits in a while / for-range loop, i.e. it is iterated to a fixpoint
        iterated = any(isinstance(lp, ast.While) or (isinstance(lp, ast.For) and isinstance(lp.iter, ast.Call) and call_name(lp.iter) == "range")
                       for lp in source.walk_own(ewn, include_nested=True) if isinstance(lp, (ast.While, ast.For)) and any(x is c for x in ast.walk(lp)))
        # or the own pass is iterated on its own before this call: an expand_vars(.., ENV) inside such a loop that rebinds ENV
        for lp in source.walk_own(ewn, include_nested=True):
            if isinstance(lp, ast.While) or (isinstance(lp, ast.For) and isinstance(lp.iter, ast.Call) and call_name(lp.iter) == "range"):
                if any(isinstance(x, ast.Call) and (last_attr(x) == "expand_vars" or call_name(x) == "expand_vars") for x in ast.walk(lp)) and any(
                        isinstance(st, ast.Assign) and any(isinstance(t, ast.Name) and t.id == ENV for t in st.targets) for st in ast.walk(lp)):
                    iterated = True
        ok = iterated
        ctx.ob("C17.R5-expansion-context", c, ok,
               "own references are expanded to a fixpoint before the launch environment is consulted" if ok else
               "os.path.expandvars is applied after a SINGLE own-variable pass over the raw values (%s): for A: $B, B: $C, C: own and a launch "
               "variable C=launch, A becomes '$C' after the own pass and then 'launch' - a launch variable that the environment neither "
               "imports nor leaves undefined appears in the result" % (short(own[0], 50) if own else "no own pass"),
               construct="os.path.expandvars(<one own pass>) <- own references resolved first")

    # other helpers on the path do not read the launch environment (thorough: closure over self-method calls)
    seen: Set[str] = set()
    todo = ["environmentForNode"]
    cls = conf.cls("FlowIRExperimentConfiguration")
    methods = {st.name: st for st in cls.body if isinstance(st, ast.FunctionDef)}
    while todo:
        name = todo.pop()
        if name in seen or name not in methods:
            continue
        seen.add(name)
        for c in source.calls_in(methods[name], include_nested=True):
            cn = call_name(c) or ""
            if cn.startswith("self.") and cn.count(".") == 1:
                todo.append(cn[5:])
    for name in sorted(seen - {"environmentForNode", "environmentWithName", "defaultEnvironment"}):
        bad = [n for n in ast.walk(methods[name]) if is_os_environ(n)]
        ctx.ob("C17.R1-launch-env-reads", methods[name], not bad, "%s does not read os.environ" % name if not bad else
               "%s (reachable from environmentForNode) reads os.environ" % name, trivial=not bad)
    conc = fl.cls("FlowIRConcrete")
    for st in conc.body:
        if isinstance(st, ast.FunctionDef) and st.name in ("get_environment", "get_platform_environment", "get_environments", "environments"):
            bad = [n for n in ast.walk(st) if is_os_environ(n)]
            ctx.ob("C17.R1-launch-env-reads", st, not bad, "FlowIRConcrete.%s does not read os.environ" % st.name if not bad else
                   "FlowIRConcrete.%s reads os.environ" % st.name, trivial=not bad)

    # ---------------- R2 -------------------------------------------------------------------------------
    cfg = CFG(ewn)
    ctx.paths += cfg.paths_count()
    upd_default = match.nodes_calling(cfg, lambda c: last_attr(c) == "update" and dotted(c.func.value) == ENV and c.args
                                      and isinstance(c.args[0], ast.Name) and c.args[0].id == DEFENV)
    upd_named = match.nodes_calling(cfg, lambda c: last_attr(c) == "update" and dotted(c.func.value) == ENV and c.args
                                    and isinstance(c.args[0], ast.Name) and c.args[0].id == NAMED)
    def name_subject(e: ast.AST) -> bool:
        """the requested name, as it is or lower-cased on the spot"""
        if isinstance(e, ast.Call) and last_attr(e) in ("lower", "casefold") and not e.args:
            e = e.func.value
        return isinstance(e, ast.Name) and e.id == "environment_name"

    def lowered_inline(t: ast.AST) -> bool:
        return any(isinstance(x, ast.Call) and last_attr(x) in ("lower", "casefold") and isinstance(x.func.value, ast.Name)
                   and x.func.value.id == "environment_name" for x in ast.walk(t))
    t_default = []
    for n in cfg.nodes:
        if n.kind == "test" and isinstance(n.ast, ast.Compare) and isinstance(n.ast.ops[0], ast.In) and name_subject(n.ast.left) \
                and isinstance(n.ast.comparators[0], (ast.List, ast.Tuple, ast.Set)):
            vals = {e.value for e in n.ast.comparators[0].elts if isinstance(e, ast.Constant)}
            if vals <= {"", "environment"} and "environment" in vals:
                t_default.append((n, "T"))
    t_none = match.test_nodes(cfg, lambda t: "T" if (match.compare_parts(t) and name_subject(match.compare_parts(t)[0]) and isinstance(match.compare_parts(t)[1], ast.Eq)
                                                     and isinstance(match.compare_parts(t)[2], ast.Constant) and match.compare_parts(t)[2].value == "none") else None)
    # an equality with the one literal is an exact default test too
    t_default += match.test_nodes(cfg, lambda t: "T" if (match.compare_parts(t) and name_subject(match.compare_parts(t)[0]) and isinstance(match.compare_parts(t)[1], ast.Eq)
                                                         and isinstance(match.compare_parts(t)[2], ast.Constant) and match.compare_parts(t)[2].value == "environment") else None)
    # dispatch tests on the name that are NOT exact: `name in '<text>'` is a substring test, startswith/endswith/find are prefix tests
    inexact = [n for n in cfg.nodes if n.kind == "test" and n.ast is not None and (
        (isinstance(n.ast, ast.Compare) and isinstance(n.ast.ops[0], (ast.In, ast.NotIn)) and isinstance(n.ast.left, ast.Name)
         and n.ast.left.id == "environment_name" and isinstance(match.resolve_local(ewn, n.ast.comparators[0]), ast.Constant)
         and isinstance(match.resolve_local(ewn, n.ast.comparators[0]).value, str))
        or (isinstance(n.ast, ast.Call) and last_attr(n.ast) in ("startswith", "endswith", "find", "count") and isinstance(n.ast.func.value, ast.Name)
            and n.ast.func.value.id == "environment_name"))]
    for n in inexact:
        ctx.ob("C17.R2-branch-table", n.ast, False,
               "the environment is selected with %s, a substring/prefix test of the NAME: every environment whose name is part of the text "
               "('env', 'iron', 'ment' ..) is routed to this branch and gets the default (or the whole launch) environment instead of its own"
               % short(n.ast, 60), construct="environmentWithName: exact test of the environment name")
    ctx.require((bool(t_default) or bool(inexact)) and bool(t_none), "anchor missing: branch tests of environmentWithName")
    for u in upd_default:
        ok = match.only_via_edges(cfg, u, t_default)
        ctx.ob("C17.R2-branch-table", u.ast, ok, "the default environment is added only when no environment is selected" if ok else
               "the default environment is added for a named (or the empty 'none') environment too")
    if not upd_default:
        ctx.ob("C17.R2-branch-table", ewn, False, "the default environment is never added", construct="environment.update(default_env) (missing)")
    all_updates = match.nodes_calling(cfg, lambda c: last_attr(c) in ("update", "__setitem__") and dotted(c.func.value) == ENV)
    lbl_tests = match.test_nodes(cfg, lambda t: "T" if (isinstance(t, ast.Compare) and isinstance(t.ops[0], ast.In) and LBL in source.names_in(t.left)) else None)
    for (tn, lab) in t_none:
        succ = [m for (m, l2) in tn.succ if l2 == lab]
        stop = [n for n, _ in lbl_tests]
        r = cfg.reach(succ, blocked=stop)
        bad = [u for u in all_updates if u.id in r]
        ctx.ob("C17.R2-branch-table", tn.ast, not bad, "the 'none' environment adds nothing beyond the system variables" if not bad else
               "the 'none' branch adds variables to the environment (%s)" % short(bad[0].ast, 60))
    for u in upd_named:
        ok = match.only_via_edges(cfg, u, [(n, "F") for n, _ in t_default]) and match.only_via_edges(cfg, u, [(n, "F") for n, _ in t_none])
        ctx.ob("C17.R2-branch-table", u.ast, ok, "a named environment comes from get_environment(name)" if ok else
               "the named-environment update is reachable for the default/'none' selection")
    src_named = match.assigned_value(ewn, NAMED)
    ok = bool(src_named) and all(isinstance(v, ast.Call) and last_attr(v) == "get_environment" for v in src_named)
    ctx.ob("C17.R2-branch-table", src_named[0] if src_named else ewn, ok, "named environments are read through FlowIRConcrete.get_environment" if ok else
           "flowir_env_vars has another source than get_environment")
    # named branch starts from the system variables only
    starts = [n for n in cfg.nodes if n.kind == "stmt" and isinstance(n.ast, ast.Assign) and any(isinstance(t, ast.Name) and t.id == ENV for t in n.ast.targets)]
    after_table = cfg.reach([n for n, _ in lbl_tests]) if lbl_tests else set()
    FOREIGN = ("os.environ", DEFENV, "defaultEnvironment", "get_environment", NAMED)

    def rebuilt_from_itself(v: ast.AST) -> bool:
        """after the branch table the dictionary may be rebuilt (expanded copy) as long as no new source flows in"""
        texts = [source.src(v)]
        if isinstance(v, ast.Name):
            for n2 in source.walk_own(ewn):
                if isinstance(n2, (ast.Assign, ast.AugAssign)):
                    tg = n2.targets if isinstance(n2, ast.Assign) else [n2.target]
                    if any((isinstance(t, ast.Name) and t.id == v.id) or (isinstance(t, ast.Subscript) and isinstance(t.value, ast.Name)
                                                                          and t.value.id == v.id) for t in tg):
                        texts.append(source.src(n2.value))
                elif isinstance(n2, ast.Call) and isinstance(n2.func, ast.Attribute) and isinstance(n2.func.value, ast.Name) \
                        and n2.func.value.id == v.id and n2.func.attr in ("update", "setdefault"):
                    texts.append(source.src(n2))
        return not any(f in t for t in texts for f in FOREIGN if not (f == "os.environ" and "os.path.expandvars" in t and "os.environ" not in t))
    def from_system_vars(v: ast.AST, depth: int = 0) -> bool:
        """the value is (a copy of) the runtime's system variables, possibly through a local bound to them"""
        if depth > 3:
            return False
        if "_system_vars" in source.src(v):
            return True
        for n in ast.walk(v):
            if isinstance(n, ast.Name):
                vals = match.assigned_value(ewn, n.id)
                if vals and all(from_system_vars(x, depth + 1) for x in vals):
                    return True
        return False
    okb = all(from_system_vars(s.ast.value) or source.src(s.ast.value) == ENV + ".copy()" or isinstance(s.ast.value, ast.DictComp)
              or (s.id in after_table and rebuilt_from_itself(s.ast.value))
              for s in starts)
    ctx.ob("C17.R2-branch-table", ewn, okb, "the environment always starts from the runtime's system variables" if okb else
           "the environment is (re)initialised from something other than the system variables", construct="environment = (self._system_vars or {}).copy()")
    # unknown environments propagate
    hs = [h for h in ast.walk(ewn) if isinstance(h, ast.ExceptHandler) and h.type is not None and "FlowIREnvironmentUnknown" in source.src(h.type)]
    ctx.floor("C17.R2-branch-table", len(hs), 2, "FlowIREnvironmentUnknown handlers in environmentWithName")
    from checks.c04 import handler_swallow_paths
    plat_tests = match.test_nodes(cfg, lambda t: "T" if ("_platform" in source.src(t) and isinstance(t, ast.Compare) and isinstance(t.ops[0], ast.NotEq)) else None)
    for h in hs:
        bad = handler_swallow_paths(cfg, h, plat_tests)
        ctx.ob("C17.R2-branch-table", h, not bad, "an unknown environment is re-raised (after the default-platform retry)" if not bad else
               "this handler can swallow FlowIREnvironmentUnknown: an undefined environment silently becomes empty")
    ge = fl.func("FlowIRConcrete.get_environment")
    ctx.analysed(ge)
    c2 = CFG(ge)
    hs2 = [h for h in ast.walk(ge) if isinstance(h, ast.ExceptHandler)]
    # roles in get_environment: PENV / PDEF = the locals read with get_platform_environment(platform=platform / =LabelDefault);
    # GENV = the returned dictionary
    def _gpe(v, default):
        return isinstance(v, ast.Call) and last_attr(v) == "get_platform_environment" and any(
            k.arg == "platform" and (((dotted(k.value) or "").endswith("LabelDefault")) == default) for k in v.keywords)
    PENV = match.role(ge, lambda v: _gpe(v, False), "platform_env")
    PDEF = match.role(ge, lambda v: _gpe(v, True), "platform_default")
    _gr = [r.value.id for r in source.walk_own(ge) if isinstance(r, ast.Return) and isinstance(r.value, ast.Name)]
    GENV = _gr[-1] if _gr else "environment"
    # both missing => raise: in the handler of the default-platform lookup, platform_env is None => raise
    pe_tests = match.test_nodes(c2, lambda t: "T" if (match.compare_parts(t) and isinstance(match.compare_parts(t)[0], ast.Name)
                                                      and match.compare_parts(t)[0].id == PENV and isinstance(match.compare_parts(t)[1], ast.IsNot)) else None)
    ok = False
    for (tn, lab) in pe_tests:
        succ = [m for (m, l2) in tn.succ if l2 == match.other(lab)]
        r = c2.reach(succ, ignore_labels=("raise",))
        ok = c2.exit.id not in r
    ctx.ob("C17.R2-branch-table", ge, ok, "get_environment raises when neither platform defines the environment" if ok else
           "get_environment returns normally although neither the selected nor the default platform defines the environment",
           construct="neither platform defines it => raise FlowIREnvironmentUnknown")

    # ... and what decides 'is this the default platform' is the platform the lookup was made FOR (the local handed to
    # get_platform_environment), not the platform that happens to be active on the object: environmentWithName falls back with an explicit
    # platform='default' while a custom platform is active - a test of self._platform then answers {} instead of raising (seed C17-14)
    sel_names = {k.value.id for v in match.assigned_value(ge, PENV) if isinstance(v, ast.Call) for k in v.keywords
                 if k.arg == "platform" and isinstance(k.value, ast.Name)}
    for tn in [n for n in c2.nodes if n.kind == "test" and n.ast is not None]:
        cp_ = match.compare_parts(tn.ast)
        if not cp_:
            continue
        for a_, b_ in ((cp_[0], cp_[2]), (cp_[2], cp_[0])):
            if (dotted(b_) or "").endswith("LabelDefault"):
                ok_ = isinstance(a_, ast.Name) and a_.id in sel_names
                ctx.ob("C17.R2-branch-table", tn.ast, ok_,
                       "the default-platform test of get_environment looks at the platform of this lookup (%s)" % short(a_, 30) if ok_ else
                       "get_environment decides whether a missing environment is an error by %s, not by the platform this lookup is for (%s): a "
                       "fallback lookup for platform='default' made while another platform is active returns an empty environment instead of "
                       "raising - an environment that neither the selected nor the default platform defines resolves to the system variables"
                       % (short(a_, 40), ", ".join(sorted(sel_names)) or "its platform argument"),
                       construct="get_environment: <selected platform> != default")

    # ---------------- R3 -------------------------------------------------------------------------------
    envdefs = match.assigned_value(ge, GENV)
    ok = any(isinstance(v, ast.Name) and v.id == PDEF for v in envdefs)
    ups = [c for c in source.calls_in(ge) if last_attr(c) == "update" and dotted(c.func.value) == GENV]
    ok = ok and len(ups) == 1 and PENV in source.names_in(ups[0].args[0]) and PDEF not in source.names_in(ups[0].args[0])
    ctx.ob("C17.R3-layering", ups[0] if ups else ge, ok, "environment = default platform's, updated with the selected platform's" if ok else
           "the layering of get_environment is no longer 'default platform first, selected platform on top'")
    pdv = match.assigned_value(ge, PDEF)
    ok = any(isinstance(v, ast.Call) and last_attr(v) == "get_platform_environment" and any(
        k.arg == "platform" and (dotted(k.value) or "").endswith("LabelDefault") for k in v.keywords) for v in pdv)
    ctx.ob("C17.R3-layering", pdv[0] if pdv else ge, ok, "platform_default is read from the default platform" if ok else
           "platform_default is not read from the default platform")
    pev = match.assigned_value(ge, PENV)
    ok = any(isinstance(v, ast.Call) and last_attr(v) == "get_platform_environment" and any(
        k.arg == "platform" and isinstance(k.value, ast.Name) and k.value.id == "platform" for k in v.keywords) for v in pev)
    ctx.ob("C17.R3-layering", pev[0] if pev else ge, ok, "platform_env is read from the selected platform" if ok else
           "platform_env is not read from the selected platform")

    # the sibling that flattens the environments of an instance (its output is what an Experiment runs with) layers the same way:
    # per environment NAME the platform's variables go over the default platform's, a same-named environment is not replaced
    inst = fl.func("FlowIRConcrete.instance")
    ctx.analysed(inst)

    def envs_call(v: ast.AST, default: bool) -> bool:
        if not (isinstance(v, ast.IfExp) or isinstance(v, ast.Call)):
            return False
        calls = [c for c in ast.walk(v) if isinstance(c, ast.Call) and last_attr(c) == "get_environments"]
        if not calls:
            return False
        is_def = any((dotted(a) or "").endswith("LabelDefault") for c in calls for a in list(c.args) + [k.value for k in c.keywords])
        return is_def == default
    DEFS = match.locals_where(inst, lambda v: envs_call(v, True))
    PLATS = match.locals_where(inst, lambda v: envs_call(v, False))
    ctx.require(bool(DEFS) and bool(PLATS), "anchor missing: the default and the platform environments read in FlowIRConcrete.instance")
    aliases = set(DEFS)
    for n_ in source.walk_own(inst):
        if isinstance(n_, ast.Assign) and isinstance(n_.value, ast.Name) and n_.value.id in aliases:
            aliases |= {t.id for t in n_.targets if isinstance(t, ast.Name)}
    whole = [c for c in source.calls_in(inst) if last_attr(c) == "update" and isinstance(c.func.value, ast.Name) and c.func.value.id in aliases
             and c.args and isinstance(c.args[0], ast.Name) and c.args[0].id in PLATS]
    per_name = [lp for lp in source.walk_own(inst) if isinstance(lp, ast.For) and isinstance(lp.iter, ast.Name) and lp.iter.id in PLATS
                and any(isinstance(c, ast.Call) and last_attr(c) == "update" and c.args and any(
                    isinstance(x, ast.Subscript) and isinstance(x.value, ast.Name) and x.value.id in PLATS for x in ast.walk(c.args[0]))
                    for c in ast.walk(lp))
                and any(isinstance(x, (ast.Subscript, ast.Call)) and any(isinstance(y, ast.Name) and y.id in aliases for y in ast.walk(x))
                        for x in ast.walk(lp))]
    ok = not whole and bool(per_name)
    ctx.ob("C17.R3-layering", whole[0] if whole else (per_name[0] if per_name else inst), ok,
           "instance() layers each environment of the platform over the same-named default environment variable by variable" if ok else
           "FlowIRConcrete.instance flattens the environments with %s: a same-named environment of the default platform is REPLACED, "
           "not layered - default.myenv={FROM_DEFAULT, BOTH}, custom.myenv={FROM_CUSTOM, BOTH} gives the tasks of an Experiment "
           "{BOTH, FROM_CUSTOM} while get_environment() gives all three" % (short(whole[0], 60) if whole else "no per-name merge"),
           construct="instance(): per-environment layering of platform over default")

    # ---------------- R4 -------------------------------------------------------------------------------
    fd = fl.func("FlowIR.from_dict")
    ok = "name.lower()" in source.src(fd) and "FieldEnvironments" in source.src(fd)
    ctx.ob("C17.R4-name-case", fd, ok, "from_dict lower-cases environment names" if ok else "from_dict no longer lower-cases environment names",
           construct="from_dict lower-cases environment names")
    for q in ("FlowIRConcrete.get_platform_environment", "FlowIRConcrete.set_environment", "FlowIRConcrete.add_environment"):
        f = fl.func(q)
        ctx.analysed(f)
        c3 = CFG(f)
        lows = [n for n in c3.nodes if n.kind == "stmt" and isinstance(n.ast, ast.Assign) and source.src(n.ast.value) == "name.lower()"
                and any(isinstance(t, ast.Name) and t.id == "name" for t in n.ast.targets)]
        uses = [n for n in c3.nodes if n.ast is not None and n.kind in ("stmt", "test") and n not in lows and any(
            isinstance(x, ast.Subscript) and isinstance(x.slice, ast.Name) and x.slice.id == "name" for x in ast.walk(n.ast))]
        uses += match.nodes_calling(c3, lambda c: last_attr(c) == "get_platform_environment" and any(k.arg == "name" for k in c.keywords))
        ok = bool(lows) and bool(uses) and all(c3.every_path_to_passes(u, gates=lows) for u in uses)
        ctx.ob("C17.R4-name-case", f, ok, "%s lower-cases the name before using it" % q.split(".")[-1] if ok else
               "%s uses the environment name without lower-casing it first (names differing only in case miss each other)" % q.split(".")[-1],
               construct="%s: name = name.lower() before lookup" % q.split(".")[-1])
    lows = [n for n in cfg.nodes if n.kind == "stmt" and isinstance(n.ast, ast.Assign) and source.src(n.ast.value) in ("environment_name.lower()", "environment_name.casefold()")]
    tests = [n for n, _ in t_default + t_none]
    raw = [t for t in tests if not lowered_inline(t.ast) and not (lows and cfg.every_path_to_passes(t, gates=lows))]
    ok = not raw
    ctx.ob("C17.R4-name-case", raw[0].ast if raw else ewn, ok, "environmentWithName lower-cases the requested name before (or inside) every test of its branch table" if ok else
           "environmentWithName compares the requested name as the user spelled it (%s): 'Environment' / 'ENVIRONMENT' - spellings the validation accepts - "
           "miss the default branch and are looked up as a NAMED environment; when the package defines none called 'environment' the component "
           "gets FlowIREnvironmentUnknown instead of the default (or launch) environment" % short(raw[0].ast, 50),
           construct="environmentWithName: the name is lower-cased before the branch table")

    # ---------------- R7 -------------------------------------------------------------------------------
    check_stored_environments_not_handed_out(ctx, fl)
