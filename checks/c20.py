"""C20 - reported progress is a proper weighted fraction: the STRUCTURAL clauses only.  DESIGN.md section C20.

The float arithmetic of the normalisation (how large a tolerance still counts as "one") is not decided - that needs numeric
exploration, another technique family.  What is decided is the part of the property whose truth is in the shape of the code:
the given weights survive only behind a sum test AND a sign test, the replacement covers every stage with non-negative
numerators that add up to the scale exactly (an identity over integers), the scale constant is used consistently, the
per-stage fraction is |finished| / |same list|, and the total is a weighted sum over two stage sets selected by complementary
predicates."""
from __future__ import annotations

import ast
from typing import Dict, List, Optional, Set, Tuple

from vlib import match, source
from vlib.cfg import CFG, Node, own_calls
from vlib.source import AnalysisError, call_name, dotted, last_attr, short

FLOWIR = "python/experiment/model/frontends/flowir.py"
OUTPUT = "python/experiment/runtime/output.py"
CONTROL = "python/experiment/runtime/control.py"


def const_num(e: ast.AST):
    if isinstance(e, ast.Constant) and isinstance(e.value, (int, float)) and not isinstance(e.value, bool):
        return e.value
    if isinstance(e, ast.UnaryOp) and isinstance(e.op, ast.USub):
        v = const_num(e.operand)
        return -v if v is not None else None
    return None


def resolve_deep(fn: ast.AST, e: ast.AST) -> ast.AST:
    for _ in range(6):
        r = match.resolve_local(fn, e)
        if r is e:
            break
        e = r
    return e


def weight_lists(fn: ast.AST) -> Set[str]:
    """locals that hold the parsed weights: lists appended with float(..['stage-weight']) (or with a fallback), and lists
    derived from them element by element (comprehensions over them)."""
    out: Set[str] = set()
    for n in source.walk_own(fn):
        if isinstance(n, ast.Call) and last_attr(n) == "append" and isinstance(n.func.value, ast.Name) and n.args:
            a = n.args[0]
            vals = [a] + ([v for v in match.assigned_value(fn, a.id)] if isinstance(a, ast.Name) else [])
            if any(isinstance(x, ast.Constant) and x.value == "stage-weight" for v in vals for x in ast.walk(v)):
                out.add(n.func.value.id)
    changed = True
    while changed:
        changed = False
        for n in source.walk_own(fn):
            if isinstance(n, ast.Assign) and len(n.targets) == 1 and isinstance(n.targets[0], ast.Name) and n.targets[0].id not in out \
                    and isinstance(n.value, (ast.ListComp, ast.GeneratorExp)) and any(
                        isinstance(g.iter, ast.Name) and g.iter.id in out for g in n.value.generators):
                out.add(n.targets[0].id)
                changed = True
    return out


def negative_side(test: ast.AST, wl: Set[str]) -> Optional[str]:
    """edge label of ``test`` on which SOME weight is negative, for the recognised forms
    min(W) < 0, 0 > min(W), any(w < 0 for w in W), all(w >= 0 for w in W), not <form>."""
    if isinstance(test, ast.UnaryOp) and isinstance(test.op, ast.Not):
        s = negative_side(test.operand, wl)
        return None if s is None else ("F" if s == "T" else "T")

    def about_weights(e: ast.AST, bound: Set[str]) -> bool:
        return any(isinstance(x, ast.Name) and (x.id in wl or x.id in bound) for x in ast.walk(e))

    def cmp_says_negative(c: ast.AST, bound: Set[str]) -> Optional[bool]:
        """True: the comparison holds exactly for negative values; False: exactly for non-negative ones"""
        if not (isinstance(c, ast.Compare) and len(c.ops) == 1):
            return None
        l, op, r = c.left, c.ops[0], c.comparators[0]
        if const_num(r) == 0 and about_weights(l, bound):
            if isinstance(op, ast.Lt):
                return True
            if isinstance(op, ast.GtE):
                return False
        if const_num(l) == 0 and about_weights(r, bound):
            if isinstance(op, ast.Gt):
                return True
            if isinstance(op, ast.LtE):
                return False
        return None
    if isinstance(test, ast.Compare):
        # min(W) < 0
        inner = [x for x in ast.walk(test) if isinstance(x, ast.Call) and call_name(x) == "min" and about_weights(x, set())]
        v = cmp_says_negative(test, set())
        if inner and v is not None:
            return "T" if v else "F"
        return None
    if isinstance(test, ast.Call) and call_name(test) in ("any", "all") and test.args and isinstance(test.args[0], (ast.GeneratorExp, ast.ListComp)):
        g = test.args[0]
        if not any(isinstance(gen.iter, ast.Name) and gen.iter.id in wl for gen in g.generators):
            return None
        bound = {x.id for gen in g.generators for x in ast.walk(gen.target) if isinstance(x, ast.Name)}
        v = cmp_says_negative(g.elt, bound)
        if v is None:
            return None
        if call_name(test) == "any":
            return "T" if v else None      # any(w >= 0) says nothing about a negative one
        return "F" if not v else None      # all(w >= 0) false <=> some negative
    return None


SUMMERS = ("sum", "reduce", "functools.reduce", "math.fsum")


def summed_list(e: ast.AST, wl: Set[str]) -> Optional[ast.AST]:
    """the argument that is summed by a sum()/reduce(add, ..)/fsum() call found in e, when it mentions a weight list"""
    for x in ast.walk(e):
        if isinstance(x, ast.Call) and call_name(x) in SUMMERS and x.args:
            arg = x.args[-1] if call_name(x).endswith("reduce") else x.args[0]
            if any(isinstance(y, ast.Name) and y.id in wl for y in ast.walk(arg)):
                return arg
    return None


def base_lists(fn: ast.AST) -> Set[str]:
    """the lists that receive the parsed weights directly (append of float(..['stage-weight'])), not copies derived from them"""
    out: Set[str] = set()
    for n in source.walk_own(fn):
        if isinstance(n, ast.Call) and last_attr(n) == "append" and isinstance(n.func.value, ast.Name) and n.args:
            a = n.args[0]
            vals = [a] + ([v for v in match.assigned_value(fn, a.id)] if isinstance(a, ast.Name) else [])
            if any(isinstance(x, ast.Constant) and x.value == "stage-weight" for v in vals for x in ast.walk(v)):
                out.add(n.func.value.id)
    return out


def isinstance_arms(node: ast.AST):
    """for 'if isinstance(x, dict): A else: B' (or the negated spelling with the arms swapped): (A, B); else None"""
    if not isinstance(node, ast.If):
        return None
    t, neg = node.test, False
    while isinstance(t, ast.UnaryOp) and isinstance(t.op, ast.Not):
        t, neg = t.operand, not neg
    cp = match.compare_parts(t)
    if cp and isinstance(cp[2], ast.Constant) and isinstance(cp[2].value, bool) and isinstance(cp[1], (ast.Is, ast.Eq, ast.IsNot, ast.NotEq)):
        if (cp[2].value is False) != isinstance(cp[1], (ast.IsNot, ast.NotEq)):
            neg = not neg
        t = cp[0]
    if isinstance(t, ast.Call) and call_name(t) == "isinstance":
        return (node.orelse, node.body) if neg else (node.body, node.orelse)
    return None


def check_conversion(ctx, fn: ast.AST, where: str) -> None:
    RID = "C20.R9-malformed-weight-is-missing"
    convs = [c for c in source.calls_in(fn, include_nested=False) if call_name(c) == "float" and c.args and any(
        isinstance(x, ast.Constant) and x.value == "stage-weight" for x in ast.walk(c.args[0]))]
    ctx.floor(RID, len(convs), 1, "conversions float(<given stage weight>) in %s" % where)
    tries = [t for t in source.walk_own(fn) if isinstance(t, ast.Try)]
    for c in convs:
        caught: Set[str] = set()
        for t in tries:
            if any(x is c for st in t.body for x in ast.walk(st)):
                for h in t.handlers:
                    if any(isinstance(x, ast.Raise) for st in h.body for x in ast.walk(st)):
                        continue
                    caught |= {"*"} if h.type is None else {source.src(x).split(".")[-1] for x in (h.type.elts if isinstance(h.type, ast.Tuple) else [h.type])}
        everything = bool(caught & {"*", "Exception", "BaseException"})
        if where.startswith("FlowIR."):
            # the description is read again by the status monitor: the handler replaces the malformed value there too
            stores_back = any(isinstance(a_, ast.Assign) and any(isinstance(t_, ast.Subscript) and isinstance(t_.slice, ast.Constant) and t_.slice.value == "stage-weight"
                                                                 for t_ in a_.targets)
                              for t in tries if any(x is c for st in t.body for x in ast.walk(st)) for h in t.handlers for st in h.body for a_ in ast.walk(st))
            ctx.ob(RID, c, stores_back,
                   "%s: the handler writes the replacement weight back into the status report" % where if stores_back else
                   "%s counts a malformed weight as missing for its own sum test but leaves the value in the status report: when the other weights "
                   "sum to one they are kept here, while the status monitor - reading the same report - cannot convert the entry and falls back "
                   "to uniform weights; the two normalisation sites disagree" % where, construct="%s: malformed weight replaced in the report" % where)
            # a stage without a weight gets one WRITTEN: the monitor reads the report by key.  Either the conversion reads the key by
            # subscript (the defaults stored before it guarantee the key), or an unconditional store into the entry is in the same loop body
            arg = c.args[0]
            by_get = any(isinstance(x, ast.Call) and last_attr(x) == "get" and x.args and isinstance(x.args[0], ast.Constant) and x.args[0].value == "stage-weight"
                         for x in ast.walk(arg))
            loops_ = [a_ for a_ in source.ancestors(c) if isinstance(a_, ast.For)]
            stored_always = any(isinstance(st, ast.Assign) and any(isinstance(t_, ast.Subscript) and isinstance(t_.slice, ast.Constant) and t_.slice.value == "stage-weight"
                                                                   for t_ in st.targets) for lp_ in loops_[:1] for st in lp_.body)
            ok_key = (not by_get) or stored_always
            ctx.ob(RID, c, ok_key,
                   "%s: the weight is read by key (a stage without a weight had 0 stored for it), or stored back unconditionally" % where if ok_key else
                   "%s counts a stage without a weight as %s for its own sum test but does not write the weight into the stage's entry: when the given "
                   "weights sum to one they are kept, the status monitor - reading report[stage]['stage-weight'] - finds no key, takes its "
                   "fallback and replaces ALL weights by 1/n ({1: {'stage-weight': 1.0}} is reported as [0.5, 0.5])" % (where, short(arg, 50)),
                   construct="%s: a missing weight is written into the report" % where)
        for need in ("ValueError", "TypeError", "OverflowError"):
            ok = everything or need in caught or (need == "OverflowError" and "ArithmeticError" in caught)
            ctx.ob(RID, c, ok, "%s: %s of the conversion is handled (the weight counts as missing)" % (where, need) if ok else
                   "%s: float(<given weight>) raises %s for %s and no handler around it catches that: the load aborts instead of treating "
                   "the weight as missing" % (where, need, "a weight that is None or a list" if need == "TypeError" else "an integer too large for a float (10**400)" if need == "OverflowError" else "a string that is not a number"),
                   construct="%s: float(weight) <- except %s" % (where, need))


def sum_test_parts(t: ast.AST, wl: Set[str]) -> Optional[Dict[str, object]]:
    """Recognised forms of 'the weights (do not) add up to one':
       exact   : <expr with sum(W')> ==/!= <const>                      (W' may be a truncated copy of the weights)
       tolerant: abs(sum(W) - 1) <=/</>/>= tol,  math.isclose(sum(W), 1, ...)
    Returns {'form', 'not_one': edge label on which the sum is NOT one, 'list': summed expression, 'one': constant, 'tol': constant}."""
    cp = match.compare_parts(t)
    if cp:
        l, op, r = cp
        if isinstance(l, ast.Call) and call_name(l) == "abs" and l.args and isinstance(l.args[0], ast.BinOp) and isinstance(l.args[0].op, ast.Sub):
            lst = summed_list(l.args[0].left, wl)
            if lst is not None and isinstance(op, (ast.LtE, ast.Lt, ast.Gt, ast.GtE)):
                return {"form": "tolerant", "not_one": "F" if isinstance(op, (ast.LtE, ast.Lt)) else "T", "list": lst,
                        "one": const_num(l.args[0].right), "tol": const_num(r), "nan_safe": isinstance(op, (ast.LtE, ast.Lt))}
        if isinstance(op, (ast.Eq, ast.NotEq)):
            lst = summed_list(t, wl)
            if lst is not None:
                return {"form": "exact", "not_one": "T" if isinstance(op, ast.NotEq) else "F", "list": lst,
                        "one": const_num(r) if const_num(r) is not None else const_num(l), "tol": 0, "nan_safe": True}
    if isinstance(t, ast.Call) and call_name(t) in ("math.isclose", "isclose") and len(t.args) >= 2:
        lst = summed_list(t.args[0], wl)
        if lst is not None:
            tol = [const_num(k.value) for k in t.keywords if k.arg == "abs_tol"]
            return {"form": "tolerant", "not_one": "F", "list": lst, "one": const_num(t.args[1]), "tol": tol[0] if tol else 1e-9, "nan_safe": True}
    return None


def sum_not_one_side(t: ast.AST, wl: Set[str]) -> Optional[str]:
    p = sum_test_parts(t, wl)
    return p["not_one"] if p else None


def check_sum_test(ctx, fn: ast.AST, where: str, sum_tests: List[Tuple[Node, str]], wl: Set[str], base: Set[str], resolution: float) -> None:
    """R8: the sum test looks at the given weights themselves, with a tolerance finer than the resolution of the fallback weights."""
    RID = "C20.R8-sum-test-on-the-given-weights"
    ctx.ob(RID, fn, bool(sum_tests), "%s tests whether the given weights add up to one" % where if sum_tests else
           "%s has no recognisable test of the sum of the given weights" % where, construct="%s: sum test present" % where, trivial=bool(sum_tests))
    for (tn, _) in sum_tests:
        p = sum_test_parts(tn.ast, wl)
        lst = p["list"]
        direct = isinstance(lst, ast.Name) and lst.id in base
        ok = direct and p["one"] is not None and ((p["form"] == "tolerant" and p["one"] == 1 and p["tol"] is not None and 0 < p["tol"] < resolution)
                                                   or (p["form"] == "exact" and p["one"] == 1))
        ctx.ob(RID, tn.ast, ok,
               "%s: the sum of the parsed weights is compared with 1 (tolerance %s, finer than the %g resolution of the fallback weights)" % (where, p["tol"], resolution) if ok else
               ("%s sums a truncated copy of the weights (%s) instead of the weights: int(0.57 * 1000) is 569, so the given weights 0.57/0.43 - "
                "which add up to one - are replaced by the fallback, while 0.5004/0.5004 (sum 1.0008) are kept and the total progress ends "
                "above one" % (where, short(lst, 40)) if not direct else
                "%s compares the sum of the weights with %s under the tolerance %s: that is not 'adds up to one' at a resolution finer than "
                "the fallback weights (%g)" % (where, p["one"], p["tol"], resolution)),
               construct="%s: sum(<given weights>) ~ 1" % where)
        ok = bool(p["nan_safe"])
        ctx.ob(RID, tn.ast, ok,
               "%s: the weights are kept only when the comparison is true (a nan sum is replaced)" % where if ok else
               "%s keeps the given weights when the comparison '%s' is false: with a nan weight every comparison is false, the weights are "
               "kept and the reported progress is nan" % (where, short(tn.ast, 50)), construct="%s: kept side needs a true comparison" % where)


def check_site(ctx, fn: ast.AST, where: str, replaced: List[Node], cfg: CFG, wl: Set[str]) -> Tuple[List[Tuple[Node, str]], List[Tuple[Node, str]]]:
    """R1 + R5 for one site.  ``replaced`` = CFG nodes that overwrite the given weights with the fallback."""
    sum_tests = match.test_nodes(cfg, lambda t: sum_not_one_side(t, wl))
    neg_tests = match.test_nodes(cfg, lambda t: negative_side(resolve_deep(fn, t) if isinstance(t, ast.Name) else t, wl))
    ctx.require(bool(replaced), "anchor missing: the fallback assignment of stage weights in %s" % where)
    # R1: a sign test exists, and on its negative side the weights are always replaced
    ok = False
    for (tn, lab) in neg_tests:
        succ = [m for (m, l2) in tn.succ if l2 == lab]
        r = cfg.reach(succ, blocked=replaced, ignore_labels=("exc", "raise"))
        if succ and cfg.exit.id not in r:
            ok = True
        # the replacement loop may be a 'for' (no iteration for zero stages is not a way to keep negative weights): accept when the
        # negative side enters the very branch that holds the replacement and the test is a disjunct of that branch's condition
        for iff in [a for a in source.ancestors(tn.ast) if isinstance(a, ast.If) and any(tn.ast is x for x in ast.walk(a.test))][:1]:
            # (decided on the CFG, which has already decomposed not/and/or: the negative edge of the atom leads straight into the arm)
            for arm in (iff.body, iff.orelse):
                if arm and any(rn.ast is x for rn in replaced for st_ in arm for x in ast.walk(st_)):
                    first = arm[0]
                    if any(m.ast is not None and any(m.ast is x for x in ast.walk(first)) for m in succ):
                        ok = True
    ctx.ob("C20.R1-nonnegative-guard", neg_tests[0][0].ast if neg_tests else fn, ok,
           "%s: when some given weight is negative the weights are replaced by the fallback" % where if ok else
           "%s keeps the given stage weights whenever their (truncated) sum is one and never looks at their sign: weights -0.5 and 1.5 for "
           "two stages survive, so a stage weight is negative and the reported total progress reaches 1.5 when the second stage "
           "completes" % where, construct="%s: some weight < 0 => fallback weights" % where)
    # R5: nothing else replaces the given weights
    for rn in replaced:
        ok5 = bool(sum_tests) and match.only_via_edges(cfg, rn, sum_tests + neg_tests)
        ctx.ob("C20.R5-given-weights-kept", rn.ast, ok5,
               "%s: the given weights are replaced only when their sum is not one or one of them is negative" % where if ok5 else
               "%s replaces the given stage weights on a path that passes neither the 'sum is not one' test nor the sign test: weights "
               "that already sum to one are not the ones reported" % where,
               construct="%s: %s <- sum test or sign test" % (where, short(rn.ast, 50)))
    return sum_tests, neg_tests


def run(ctx) -> None:
    ctx.explanation = (
        "Structural clauses of the stage-weight normalisation and of the progress computation: the given weights are kept only "
        "behind a sum test and a sign test; the replacement covers every stage, its integer numerators are (n-1)*q and S-(n-1)*q "
        "for one scale constant S used consistently; the per-stage fraction counts a subset of the list whose length is the "
        "denominator; the total is a weighted sum over two stage sets selected by complementary predicates and read as one "
        "snapshot; the sum test looks at the parsed weights themselves under a tolerance finer than the fallback resolution. The "
        "floating-point arithmetic itself (the size of the tolerance) is NOT decided.")
    ctx.rule("C20.R1-nonnegative-guard", "both normalisation sites replace the given weights whenever one of them is negative")
    ctx.rule("C20.R2-replacement-total", "the replacement assigns a weight to every stage index (the same count the weights were read for)")
    ctx.rule("C20.R3-exact-complement", "in FlowIR.inject_default_values the replaced weights have the integer numerators q = int(S/n) for "
             "the first n-1 stages and S-(n-1)*q for the last one over the same scale S: they are non-negative and add up to S exactly")
    ctx.rule("C20.R4-scale-agreement", "fallback and complement (and a scaled sum test, if there is one) use one scale constant")
    ctx.rule("C20.R8-sum-test-on-the-given-weights", "both normalisation sites test the sum of the parsed weights themselves against 1 - not a per-weight "
             "truncation of them - with a tolerance finer than the resolution of the fallback weights, oriented so that a nan sum is replaced")
    ctx.rule("C20.R9-malformed-weight-is-missing", "the conversion float(<given weight>) is enclosed by handlers for ValueError and TypeError: a weight "
             "that is not a number is treated as missing instead of aborting the load")
    ctx.rule("C20.R11-stage-identifiers-normalised", "the status monitor accepts N, 'N' and 'stageN' as keys of the status report (it maps them through "
             "stage_identifier_to_stage_index); the loader, which looks the weights up by integer index, maps the keys through the same "
             "function first - otherwise weights given under 'stage0' are ignored and fallback entries are added next to them")
    ctx.rule("C20.R12-one-dictionary-per-stage", "the loader replaces rejected weights by writing into the per-stage dictionaries of the status report; "
             "those writes are preceded on every path by a loop that rebinds each entry of the report to a fresh dictionary - two stages "
             "that share one dictionary (YAML anchors) would otherwise both receive the remainder meant for the last stage, and the "
             "weights would no longer add up to one")
    ctx.rule("C20.R10-weights-in-stage-order", "the list the status monitor indexes by stage index is filled by a loop that runs in stage order "
             "(sorted(...) / range(...)), not in the order the status report happens to list its stages")
    ctx.rule("C20.R5-given-weights-kept", "the given weights are replaced only under the sum test or the sign test")
    ctx.rule("C20.R6-stage-fraction", "Controller.get_stage_status returns (number of finished components) / (number of components) of one list")
    ctx.rule("C20.R7-total-is-a-weighted-sum", "CheckStatus adds fraction*weight for the stages in transit and weight for the finished ones; "
             "the two sets are selected by complementary predicates and the current stage is taken out of both")
    ctx.assume("per-stage progress reported by a user's status script is within [0, 1] (given by the property)")
    ctx.assume("float arithmetic is not modelled: the size of the tolerance (what counts as 'one') is not decided beyond being finer than the fallback resolution")

    fl = ctx.repo.module(FLOWIR)
    out = ctx.repo.module(OUTPUT)
    ctl = ctx.repo.module(CONTROL)

    # ------------------------------------------------------------------ flowir site
    idv = fl.func("FlowIR.inject_default_values")
    ctx.analysed(idv)
    cfg = CFG(idv)
    ctx.paths += cfg.paths_count()
    wl = weight_lists(idv)
    ctx.require(bool(wl), "anchor missing: the list of parsed stage weights in FlowIR.inject_default_values")

    def stores_weight(n: Node) -> Optional[ast.Assign]:
        a = n.ast
        if n.kind == "stmt" and isinstance(a, ast.Assign) and any(
                isinstance(t, ast.Subscript) and isinstance(t.slice, ast.Constant) and t.slice.value == "stage-weight" for t in a.targets):
            return a
        return None
    stores = [n for n in cfg.nodes if stores_weight(n) is not None]
    # stores of the "missing" weight: the literal 0, or the replacement made by the handler of a failed conversion
    def keeps_given(v: ast.AST) -> bool:
        # <entry>.get('stage-weight', 0): the given weight when there is one, the 'missing' value otherwise
        return isinstance(v, ast.Call) and last_attr(v) == "get" and len(v.args) == 2 and isinstance(v.args[0], ast.Constant) \
            and v.args[0].value == "stage-weight" and const_num(v.args[1]) == 0
    defaults0 = [n for n in stores if const_num(n.ast.value) == 0 or keeps_given(n.ast.value)
                 or any(isinstance(a_, ast.ExceptHandler) for a_ in source.ancestors(n.ast))]
    replaced = [n for n in stores if n not in defaults0]
    sum_tests, neg_tests = check_site(ctx, idv, "FlowIR.inject_default_values", replaced, cfg, wl)

    # R2: reading loop and replacement loop range over the same count
    def range_arg(loop: ast.For) -> Optional[str]:
        if isinstance(loop.iter, ast.Call) and call_name(loop.iter) == "range" and len(loop.iter.args) == 1:
            return source.src(loop.iter.args[0])
        return None
    read_loops = [n for n in source.walk_own(idv) if isinstance(n, ast.For) and any(
        isinstance(c, ast.Call) and last_attr(c) == "append" and isinstance(c.func.value, ast.Name) and c.func.value.id in wl for c in ast.walk(n))]
    repl_loops = [n for n in source.walk_own(idv) if isinstance(n, ast.For) and any(r.ast is x for r in replaced for x in ast.walk(n))
                  and n not in read_loops]
    ctx.require(bool(read_loops), "anchor missing: the loop that reads the stage weights")
    n_expr = range_arg(read_loops[0])
    ok = bool(repl_loops) and n_expr is not None and all(range_arg(lp) == n_expr for lp in repl_loops)
    ctx.ob("C20.R2-replacement-total", repl_loops[0] if repl_loops else idv, ok,
           "the fallback is assigned for every index of range(%s), the range the weights were read for" % n_expr if ok else
           "the fallback weights are not assigned over the same range the weights were read for (%s): some stage keeps its old weight "
           "and the weights no longer add up to one" % n_expr, construct="replacement loop over range(%s)" % n_expr)

    # ... and that range covers every stage that has a component: the running maximum of the stage indices takes each component's stage
    # through int() (or the stage-identifier helper) - a stage given as the string "2" otherwise raises TypeError inside max(), the handler
    # around it swallows the error, the stage is not counted and the last stage's weight is neither read nor replaced (seed C20-11)
    n_max = 0
    for st in [x for x in source.walk_own(idv) if isinstance(x, ast.Assign) and len(x.targets) == 1 and isinstance(x.targets[0], ast.Name)
               and isinstance(x.value, ast.Call) and call_name(x.value) == "max" and len(x.value.args) == 2]:
        acc = st.targets[0].id
        others = [a for a in st.value.args if not (isinstance(a, ast.Name) and a.id == acc)]
        if len(others) != 1 or "stage" not in source.src(others[0]):
            continue
        n_max += 1
        e = others[0]
        normalised = isinstance(e, ast.Call) and ((call_name(e) or "").split(".")[-1] in ("int", "stage_identifier_to_stage_index"))
        swallowed = any(isinstance(a, ast.Try) and any(st is y for b in a.body for y in ast.walk(b)) and any(
            all(isinstance(z, ast.Pass) for z in h.body) or not any(isinstance(z, ast.Raise) for z in ast.walk(h)) for h in a.handlers)
            for a in source.ancestors(st))
        ok = normalised or not swallowed
        ctx.ob("C20.R2-replacement-total", st, ok,
               "the number of stages is the maximum over int(<stage of every component>) + 1" if ok else
               "the running maximum compares the accumulator with %s as it is written in the document: a stage index given as a string raises "
               "TypeError inside max(), the surrounding handler swallows it and that component's stage is not counted - the weights of the last "
               "stage(s) are neither read nor replaced, [0.2, 0.3, 0.5] loads as [0.5, 0.5, 0.5]" % short(e, 40),
               construct="number of stages = max(int(stage)) + 1")
    ctx.require(n_max >= 1, "anchor missing: the running maximum of the components' stage indices in FlowIR.inject_default_values")

    # R12: the replacement writes through <report>[idx]['stage-weight']: every stage owns its dictionary by then
    def canon(e: ast.AST) -> str:
        if isinstance(e, ast.Name):
            vs = match.assigned_value(idv, e.id)
            if len(vs) == 1:
                return source.src(vs[0])
        return source.src(e)

    def fresh_dict(v: ast.AST) -> bool:
        return isinstance(v, (ast.Dict, ast.DictComp)) or (isinstance(v, ast.Call) and (call_name(v) or "").split(".")[-1] in ("dict", "copy", "deepcopy", "deep_copy"))
    unshare: List[Tuple[ast.For, str]] = []
    for lp in source.walk_own(idv):
        if not isinstance(lp, ast.For) or not isinstance(lp.target, ast.Name):
            continue
        body = lp.body
        arms = isinstance_arms(body[0]) if len(body) == 1 else None
        if arms is not None:
            # the other arm (an entry that is not a dictionary) may only bind a fresh dictionary as well
            other_ok = all(isinstance(st_, ast.Assign) and fresh_dict(st_.value) for st_ in arms[1])
            body = arms[0] if other_ok else []
        for st in body:
            if isinstance(st, ast.Assign) and len(st.targets) == 1 and isinstance(st.targets[0], ast.Subscript) and isinstance(st.targets[0].slice, ast.Name) \
                    and st.targets[0].slice.id == lp.target.id and fresh_dict(st.value) and canon(st.targets[0].value) in source.src(lp.iter).replace(
                        source.src(st.targets[0].value), canon(st.targets[0].value)):
                unshare.append((lp, canon(st.targets[0].value)))
    # an entry that is not a dictionary (an empty '0:' in the YAML is None) defines no weight: the un-sharing loop replaces it by a
    # dictionary instead of leaving it for the membership test that follows ('stage-weight' not in None raises TypeError)
    report_conts = set()
    for sn_ in replaced:
        tg_ = next((t for t in sn_.ast.targets if isinstance(t, ast.Subscript) and isinstance(t.slice, ast.Constant) and t.slice.value == "stage-weight"), None)
        if tg_ is not None and isinstance(tg_.value, ast.Subscript):
            report_conts.add(canon(tg_.value.value))
    for (lp_, _c) in unshare:
        if _c not in report_conts:
            continue
        inner = lp_.body[0] if len(lp_.body) == 1 and isinstance(lp_.body[0], ast.If) else None
        arms_ = isinstance_arms(inner) if inner is not None else None
        if arms_ is not None:
            ok_e = bool(arms_[1]) and all(isinstance(st_, ast.Assign) and fresh_dict(st_.value) for st_ in arms_[1])
            ctx.ob("C20.R9-malformed-weight-is-missing", inner, ok_e,
                   "a status entry that is not a dictionary is replaced by an empty one (it defines no weight)" if ok_e else
                   "a status entry that is not a dictionary ('0:' parses to None, or a bare number) is left in the report: the membership test "
                   "that follows raises TypeError and the load fails instead of counting the weight as missing",
                   construct="inject_default_values: non-dictionary status entry -> {}")
    n12 = 0
    for sn in replaced:
        tgt = next(t for t in sn.ast.targets if isinstance(t, ast.Subscript) and isinstance(t.slice, ast.Constant) and t.slice.value == "stage-weight")
        if not isinstance(tgt.value, ast.Subscript):
            continue
        n12 += 1
        cont = canon(tgt.value.value)
        heads = [n for n in cfg.nodes if n.kind == "for" and any(n.ast is lp and c_ == cont for (lp, c_) in unshare)]
        ok = bool(heads) and cfg.every_path_to_passes(sn, gates=heads)
        ctx.ob("C20.R12-one-dictionary-per-stage", sn.ast, ok,
               "every stage was given its own dictionary (a loop over the report rebinding each entry to a fresh dict) before this write" if ok else
               "the replacement weight is written through %s, a dictionary that another stage may share (YAML anchors: 'status-report: {0: &w "
               "{stage-weight: 0.3}, 1: *w, 2: *w}'): the remainder written for the last stage lands in all of them and the loaded weights are "
               "0.334 + 0.334 + 0.334" % short(tgt.value, 50), construct="replacement write <- per-stage dictionaries")
    ctx.floor("C20.R12-one-dictionary-per-stage", n12, 1, "replacement writes of a stage weight through an entry of the status report")

    # R3 / R4: scale constant and the exact complement
    scales: Dict[str, List[Tuple[ast.AST, float]]] = {}

    def note(role: str, node: ast.AST, v) -> None:
        if v is not None:
            scales.setdefault(role, []).append((node, v))
    for n in source.walk_own(idv):
        # truncation: int(e * S) inside a comprehension over the weights
        if isinstance(n, (ast.ListComp, ast.GeneratorExp)) and any(isinstance(g.iter, ast.Name) and g.iter.id in wl for g in n.generators):
            for c in ast.walk(n.elt):
                if isinstance(c, ast.BinOp) and isinstance(c.op, ast.Mult):
                    note("truncation int(w*S)", c, const_num(c.right) if const_num(c.right) is not None else const_num(c.left))
    for (tn, _) in sum_tests:
        p_ = sum_test_parts(tn.ast, wl)
        if p_ and p_["form"] == "exact" and p_["one"] not in (None, 1):
            note("sum test", tn.ast, p_["one"])
    # fallback: a local assigned int(S / n) / S
    fb_names = {v.id for r in replaced for v in ast.walk(r.ast.value) if isinstance(v, ast.Name)}
    q_src = None
    for nm in sorted(fb_names):
        for v in match.assigned_value(idv, nm):
            if isinstance(v, ast.BinOp) and isinstance(v.op, ast.Div) and isinstance(v.left, ast.Call) and call_name(v.left) == "int" \
                    and v.left.args and isinstance(v.left.args[0], ast.BinOp) and isinstance(v.left.args[0].op, (ast.Div, ast.FloorDiv)):
                note("fallback numerator int(S/n)", v.left, const_num(v.left.args[0].left))
                note("fallback denominator", v, const_num(v.right))
                q_src = source.src(v.left)
                ok = source.src(v.left.args[0].right) == n_expr
                ctx.ob("C20.R3-exact-complement", v, ok,
                       "the fallback weight is int(S/%s)/S" % n_expr if ok else
                       "the fallback weight divides by %s, not by the number of stages %s" % (source.src(v.left.args[0].right), n_expr),
                       construct="fallback = int(S/n)/S")
    ctx.require(q_src is not None, "cannot recognise the fallback weight int(S/n)/S in FlowIR.inject_default_values")
    # complement: the store whose value is (S - (n-1)*q) / S at index n-1
    comp = None
    live_ids = cfg.reachable_from_entry()
    for r in replaced:
        v = r.ast.value
        if r.id not in live_ids:
            continue
        if isinstance(v, ast.BinOp) and isinstance(v.op, ast.Div) and isinstance(v.left, ast.BinOp) and isinstance(v.left.op, ast.Sub):
            comp = r
            S1, sub = v.left.left, v.left.right
            note("complement numerator", v.left, const_num(S1))
            note("complement denominator", v, const_num(v.right))
            def norm(e: ast.AST) -> str:
                return source.src(e).replace(" ", "").strip("()")
            ok = isinstance(sub, ast.BinOp) and isinstance(sub.op, ast.Mult) and {norm(sub.left), norm(sub.right)} == \
                {"%s-1" % n_expr, q_src.replace(" ", "").strip("()")}
            ctx.ob("C20.R3-exact-complement", v, ok,
                   "the last stage gets (S-(n-1)*q)/S with the same q as the other stages: the numerators add up to S exactly and S-(n-1)*q >= S/n > 0" if ok else
                   "the weight of the last stage is not the exact complement (S-(n-1)*q)/S of the n-1 fallback weights q/S (%s): the "
                   "replaced weights do not add up to one" % short(v, 80), construct="last weight = (S-(n-1)*int(S/n))/S")
            tgt = [t for t in r.ast.targets if isinstance(t, ast.Subscript)][0]
            idx = tgt.value.slice if isinstance(tgt.value, ast.Subscript) else None
            ok = idx is not None and source.src(idx).replace(" ", "") == "%s-1" % n_expr
            ctx.ob("C20.R3-exact-complement", tgt, ok, "the complement is stored for the last stage (index %s-1)" % n_expr if ok else
                   "the complement is not stored at index %s-1" % n_expr, construct="complement stored at index n-1")
    ctx.ob("C20.R3-exact-complement", comp.ast if comp else idv, comp is not None,
           "a complement weight exists" if comp else
           "no stage receives the complement S-(n-1)*int(S/n): for stage counts that do not divide the scale the replaced weights add up "
           "to less than one, and the total progress never reaches one", construct="complement weight present", trivial=comp is not None)
    vals = {v for lst in scales.values() for (_, v) in lst}
    ok = len(vals) == 1 and all(role in scales for role in ("fallback numerator int(S/n)", "fallback denominator"))
    ctx.ob("C20.R4-scale-agreement", idv, ok,
           "one scale constant (%s) in fallback and complement" % (sorted(vals)[0] if vals else "?") if ok else
           "the scale constants disagree or a role is missing: %s" % {k: sorted({v for _, v in lst}) for k, lst in scales.items()},
           construct="scale constant agreement in inject_default_values")

    # R11: sibling agreement on what identifies a stage
    monitor_maps = any(isinstance(c_, ast.Call) and last_attr(c_) == "stage_identifier_to_stage_index" or (
        isinstance(c_, ast.Attribute) and c_.attr == "stage_identifier_to_stage_index")
        for q_, f_ in out.functions.items() if q_.startswith("StatusMonitor.") for c_ in ast.walk(f_))
    loader_maps = [c_ for c_ in source.calls_in(idv, include_nested=False) if last_attr(c_) == "stage_identifier_to_stage_index"]
    int_lookups = [n_ for n_ in source.walk_own(idv) if isinstance(n_, ast.Compare) and isinstance(n_.ops[0], (ast.In, ast.NotIn))
                   and "FieldStatusReport" in source.src(n_.comparators[0]) and isinstance(n_.left, ast.Name)]
    ok11 = (not monitor_maps) or bool(loader_maps)
    if ok11 and loader_maps and int_lookups:
        # the normalisation precedes the integer lookups
        ok11 = min(c_.lineno for c_ in loader_maps) < min(n_.lineno for n_ in int_lookups)
    ctx.ob("C20.R11-stage-identifiers-normalised", loader_maps[0] if loader_maps else idv, ok11,
           "the keys of the status report are mapped to stage indices before the weights are looked up by index" if ok11 else
           "inject_default_values looks the weights up by integer index without mapping the keys of the status report through "
           "stage_identifier_to_stage_index, which the status monitor does: weights given as {'stage0': 0.3, 'stage1': 0.7} are ignored, "
           "integer-keyed fallback entries are added next to them (four weights that sum to two) and the monitor fails on the string keys",
           construct="inject_default_values: status-report keys -> stage indices before the lookup")
    S = sorted(vals)[0] if len(vals) == 1 else 1000
    check_sum_test(ctx, idv, "FlowIR.inject_default_values", sum_tests, wl, base_lists(idv), 1.0 / S)
    check_conversion(ctx, idv, "FlowIR.inject_default_values")

    # ------------------------------------------------------------------ output site
    smi = out.func("StatusMonitor.__init__")
    ctx.analysed(smi)
    c2 = CFG(smi)
    ctx.paths += c2.paths_count()
    wl2 = weight_lists(smi)
    ctx.require(bool(wl2), "anchor missing: the list of stage weights in StatusMonitor.__init__")
    base = sorted(wl2)[0]
    # the list that is finally stored on self
    stored = [n for n in source.walk_own(smi) if isinstance(n, ast.Assign) and any(
        isinstance(t, ast.Attribute) and t.attr == "stageWeights" for t in n.targets)]
    ctx.require(bool(stored) and isinstance(stored[0].value, ast.Name), "anchor missing: self.stageWeights = <local> in StatusMonitor.__init__")
    wvar = stored[0].value.id
    repl2 = [n for n in c2.nodes if n.kind == "stmt" and isinstance(n.ast, ast.Assign) and any(
        isinstance(t, ast.Name) and t.id == wvar for t in n.ast.targets) and not (isinstance(n.ast.value, ast.List) and not n.ast.value.elts)]
    st2, _ = check_site(ctx, smi, "StatusMonitor.__init__", repl2, c2, wl2)
    check_sum_test(ctx, smi, "StatusMonitor.__init__", st2, wl2, base_lists(smi), 1.0 / S)
    check_conversion(ctx, smi, "StatusMonitor.__init__")
    # R10: positional list, indexed by stage index in CheckStatus
    fill_loops = [n for n in source.walk_own(smi) if isinstance(n, ast.For) and any(
        isinstance(c, ast.Call) and last_attr(c) == "append" and isinstance(c.func.value, ast.Name) and c.func.value.id in base_lists(smi) for c in ast.walk(n))]
    ctx.floor("C20.R10-weights-in-stage-order", len(fill_loops), 1, "loops that fill the stage-weight list of the status monitor")
    for lp in fill_loops:
        it = lp.iter
        ordered = isinstance(it, ast.Call) and call_name(it) in ("sorted", "range")
        if ordered and call_name(it) == "sorted":
            keys = [k.value for k in it.keywords if k.arg == "key"]
            numeric = lambda e: any("stage_index" in source.src(x) or source.src(x) == "int" for x in (e, match.resolve_local(smi, e)) if x is not None)
            arg0 = it.args[0] if it.args else None
            # without a key the order is numeric only when the elements are numbers: stage identifiers are N, 'N' or 'stageN', and
            # names sort as 'stage0', 'stage1', 'stage10', 'stage11', 'stage2' ...
            numbers = isinstance(arg0, (ast.ListComp, ast.GeneratorExp, ast.SetComp)) and isinstance(arg0.elt, ast.Call) and numeric(arg0.elt.func)
            ordered = (bool(keys) or numbers) and all(numeric(k) for k in keys) and not any(
                k.arg == "reverse" and not (isinstance(k.value, ast.Constant) and k.value.value is False) for k in it.keywords)
        ctx.ob("C20.R10-weights-in-stage-order", lp, ordered,
               "the weights are appended in stage order (%s)" % short(it, 60) if ordered else
               "the weights are appended in the iteration order of %s while CheckStatus reads stageWeights[<stage index>]: a status report "
               "that lists stage 1 before stage 0 (the loader appends the entries it adds, e.g. for {1: {'stage-weight': 1.0}}) gives stage 0 "
               "the weight of stage 1; sorting stage NAMES puts 'stage10' before 'stage2', so from eleven stages on the weights are permuted"
               % short(it, 40), construct="stage-weight fill loop <- stage order")
    for rn in repl2:
        v = rn.ast.value
        ok = isinstance(v, ast.BinOp) and isinstance(v.op, ast.Mult) and isinstance(v.left, ast.List) and len(v.left.elts) == 1
        n2 = source.src(v.right) if ok else None
        fbv = [x for x in (match.assigned_value(smi, v.left.elts[0].id) if ok and isinstance(v.left.elts[0], ast.Name) else [])]
        ok = ok and any(isinstance(x, ast.BinOp) and isinstance(x.op, ast.Div) and source.src(x.right) == n2 for x in fbv)
        ctx.ob("C20.R2-replacement-total", v, ok,
               "the fallback list has one entry 1/n for each of the n = %s stages" % n2 if ok else
               "the fallback list is not [1/n] * n over one stage count (%s)" % short(v, 60), construct="weights = [1/n] * n")

    # ------------------------------------------------------------------ R6
    gss = ctl.func("Controller.get_stage_status")
    ctx.analysed(gss)
    rets = [r for r in source.walk_own(gss) if isinstance(r, ast.Return) and r.value is not None and not (
        isinstance(r.value, ast.Constant) and r.value.value is None)]
    ctx.floor("C20.R6-stage-fraction", len(rets), 1, "value returns of Controller.get_stage_status")
    for r in rets:
        v = resolve_deep(gss, r.value)
        ok = False
        why = "not a quotient"
        if isinstance(v, ast.BinOp) and isinstance(v.op, ast.Div):
            num = resolve_deep(gss, v.left)
            den = v.right.args[0] if isinstance(v.right, ast.Call) and call_name(v.right) == "float" and v.right.args else v.right
            den = resolve_deep(gss, den)
            lst_n = num.args[0].id if isinstance(num, ast.Call) and call_name(num) == "sum" and num.args and isinstance(num.args[0], ast.Name) else None
            lst_d = den.args[0].id if isinstance(den, ast.Call) and call_name(den) == "len" and den.args and isinstance(den.args[0], ast.Name) else None
            why = "numerator %s / denominator %s" % (short(num, 30), short(den, 30))
            if lst_n and lst_n == lst_d:
                defs = match.assigned_value(gss, lst_n)
                ok = bool(defs) and all(isinstance(d, ast.ListComp) and isinstance(d.elt, ast.Call) and call_name(d.elt) in ("int", "bool")
                                        and d.elt.args and isinstance(d.elt.args[0], (ast.Compare, ast.BoolOp, ast.UnaryOp)) for d in defs)
                why = "elements of %s are not 0/1 indicators" % lst_n if not ok else ""
        ctx.ob("C20.R6-stage-fraction", r, ok,
               "the stage fraction is sum(L)/len(L) for one list L of 0/1 indicators: within [0, 1], and 1 when every component finished" if ok else
               "the stage fraction is not sum(L)/len(L) over one list of 0/1 indicators (%s): it can leave [0, 1]" % why,
               construct="get_stage_status = sum(done)/len(done)")

    # ------------------------------------------------------------------ R7
    cs = out.functions.get("StatusMonitor.run.CheckStatus") or next((f for q, f in out.functions.items() if q.endswith(".CheckStatus")), None)
    ctx.require(cs is not None, "anchor missing: CheckStatus in output.py")
    ctx.analysed(cs)
    setters = [c for c in source.calls_in(cs, include_nested=False) if last_attr(c) == "setTotalProgress" and c.args and isinstance(c.args[0], ast.Name)]
    ctx.require(bool(setters), "anchor missing: setTotalProgress(<local>) in CheckStatus")
    tot = setters[0].args[0].id
    adds = [n for n in source.walk_own(cs) if isinstance(n, ast.AugAssign) and isinstance(n.target, ast.Name) and n.target.id == tot]
    inits = [v for v in match.assigned_value(cs, tot)]
    ok = bool(inits) and all(const_num(v) == 0 for v in inits)
    ctx.ob("C20.R7-total-is-a-weighted-sum", setters[0], ok, "the total starts from zero" if ok else "the total progress does not start from zero",
           construct="total = 0.0", trivial=True)
    ctx.floor("C20.R7-total-is-a-weighted-sum", len(adds), 2, "accumulations into the total progress")

    def weight_term(e: ast.AST) -> Optional[str]:
        """index expression i of <..>.stageWeights[i]"""
        if isinstance(e, ast.Subscript) and isinstance(e.value, ast.Attribute) and e.value.attr == "stageWeights":
            return source.src(e.slice)
        return None
    for a in adds:
        v = a.value
        ok = isinstance(a.op, ast.Add)
        kind = None
        if ok and weight_term(v) is not None:
            kind = "finished"
        elif ok and isinstance(v, ast.BinOp) and isinstance(v.op, ast.Mult):
            ws = [weight_term(x) for x in (v.left, v.right)]
            other = [x for x in (v.left, v.right) if weight_term(x) is None]
            if any(w is not None for w in ws) and len(other) == 1 and isinstance(other[0], ast.Subscript) \
                    and source.src(other[0].slice) == [w for w in ws if w is not None][0]:
                kind = "in transit"
        ok = ok and kind is not None
        ctx.ob("C20.R7-total-is-a-weighted-sum", a, ok,
               "adds %s" % ("weight[i] for a finished stage" if kind == "finished" else "fraction[i] * weight[i] for a stage in transit") if ok else
               "the total progress accumulates %s, which is neither weight[i] nor fraction[i]*weight[i] for one stage index" % short(v, 60),
               construct="total += %s" % short(v, 50))
        # the loop variable ranges over a list from which the current stage was removed, or over the dictionary of fractions
    gsf = ctl.func("Controller.get_stages_finished")
    gst = ctl.func("Controller.get_stages_in_transit")
    for f in (gsf, gst):
        ctx.analysed(f)
    cf = CFG(gsf)
    app = match.nodes_calling(cf, lambda c: last_attr(c) in ("append", "add"))
    none_active = match.test_nodes(cf, lambda t: match.polarity_through_locals(gsf, t, lambda e: (
        isinstance(e, ast.UnaryOp) and isinstance(e.op, ast.Not) and isinstance(e.operand, ast.Call) and call_name(e.operand) == "any"
        and any(isinstance(x, ast.Attribute) and x.attr == "node_is_active" for x in ast.walk(e.operand)))))
    ok = bool(app) and bool(none_active) and all(match.only_via_edges(cf, n, none_active) for n in app)
    ctx.ob("C20.R7-total-is-a-weighted-sum", gsf, ok,
           "a stage counts as finished only when none of its nodes is active" if ok else
           "get_stages_finished reports a stage although one of its nodes may be active: the stage is also in transit and is counted twice",
           construct="get_stages_finished: append <- not any(node_is_active)")
    ct = CFG(gst)
    app_t = match.nodes_calling(ct, lambda c: last_attr(c) in ("append", "add"))
    inactive = match.test_nodes(ct, lambda t: (
        ("F" if isinstance(match.compare_parts(t)[1], (ast.Is, ast.Eq)) == (match.compare_parts(t)[2].value is False) else "T")
        if (match.compare_parts(t) and isinstance(match.compare_parts(t)[0], ast.Call) and last_attr(match.compare_parts(t)[0]) == "node_is_active"
            and isinstance(match.compare_parts(t)[2], ast.Constant) and isinstance(match.compare_parts(t)[2].value, bool)) else
        ("T" if isinstance(t, ast.Call) and last_attr(t) == "node_is_active" else None)))
    ok = bool(app_t) and bool(inactive) and all(match.only_via_edges(ct, n, inactive) for n in app_t)
    ctx.ob("C20.R7-total-is-a-weighted-sum", gst, ok,
           "a stage counts as in transit only through an active node" if ok else
           "get_stages_in_transit adds a stage without an active node: a finished stage is counted twice",
           construct="get_stages_in_transit: add <- node_is_active")
    # .. and over one population: both selections test the activity of GRAPH NODES (get_stages_finished through get_nodes_in_stage).  A
    # stage that enters the in-transit set through anything else (a DoWhile placeholder, which is never added to comp_done in a normal
    # run) stays 'in transit' for ever while the node-based test calls it finished - its weight is counted twice
    for c in [x for x in ast.walk(gst) if isinstance(x, ast.Call) and last_attr(x) == "node_is_active" and x.args]:
        a0 = c.args[0]
        loops_ = [a for a in source.ancestors(c) if isinstance(a, ast.For) and isinstance(a.target, ast.Name) and isinstance(a0, ast.Name) and a.target.id == a0.id]
        ok = bool(loops_) and any(source.src(loops_[0].iter).endswith(sfx) for sfx in ("graph.nodes", "graph.nodes()")) or (
            bool(loops_) and isinstance(loops_[0].iter, ast.Call) and last_attr(loops_[0].iter) == "get_nodes_in_stage")
        ctx.ob("C20.R7-total-is-a-weighted-sum", c, ok,
               "the activity test of the in-transit selection ranges over the nodes of the graph" if ok else
               "get_stages_in_transit tests the activity of %s, which does not range over the nodes of the graph: get_stages_finished decides from "
               "graph nodes only, so a stage can be in both lists (a loop's placeholder is never marked done in a normal run) and CheckStatus "
               "adds its weight twice - the reported total exceeds one" % (short(loops_[0].iter, 40) if loops_ else short(a0, 30)),
               construct="get_stages_in_transit: node_is_active(<graph node>)")
    # .. and on the CURRENT graph: the graph grows while the experiment runs (a DoWhile adds the nodes of its next iteration to a stage whose
    # nodes had all finished), so 'finished' is not monotone.  A selection that remembers its verdicts in an attribute of the controller
    # keeps calling the re-opened stage finished while the node-based in-transit selection lists it again: counted twice (total > 1).
    # Such a memo is sound only if every method that grows the graph resets it.
    MUTATORS_ = {"add", "append", "update", "extend", "insert", "setdefault", "__setitem__"}
    growers = [f_ for q_, f_ in ctl.functions.items() if q_.startswith("Controller.") and any(
        last_attr(c_) in ("instantiate_dowhile_next_iteration", "add_node", "add_nodes_from") for c_ in source.calls_in(f_, include_nested=True))]
    for f in (gsf, gst):
        memo = set()
        for n_ in source.walk_own(f):
            if isinstance(n_, ast.Call) and last_attr(n_) in MUTATORS_ and isinstance(n_.func.value, ast.Attribute) \
                    and isinstance(n_.func.value.value, ast.Name) and n_.func.value.value.id == "self":
                memo.add(n_.func.value.attr)
            if isinstance(n_, (ast.Assign, ast.AugAssign)):
                for t_ in (n_.targets if isinstance(n_, ast.Assign) else [n_.target]):
                    base = t_.value if isinstance(t_, ast.Subscript) else t_
                    if isinstance(base, ast.Attribute) and isinstance(base.value, ast.Name) and base.value.id == "self":
                        memo.add(base.attr)
        bad = []
        for attr in sorted(memo):
            def resets(g_: ast.AST) -> bool:
                for x_ in ast.walk(g_):
                    if isinstance(x_, ast.Assign) and any(isinstance(t_, ast.Attribute) and t_.attr == attr and isinstance(t_.value, ast.Name)
                                                          and t_.value.id == "self" for t_ in x_.targets):
                        return True
                    if isinstance(x_, ast.Call) and last_attr(x_) in ("clear", "discard", "remove", "difference_update", "pop") \
                            and isinstance(x_.func.value, ast.Attribute) and x_.func.value.attr == attr:
                        return True
                return False
            if not growers or not all(resets(g_) for g_ in growers):
                bad.append(attr)
        ctx.ob("C20.R7-total-is-a-weighted-sum", f, not bad,
               "%s decides from the current graph (it keeps no verdicts between calls)" % f.name if not bad else
               "%s remembers its verdicts in self.%s between calls, and %s does not reset it when it adds the nodes of a new loop iteration: "
               "a stage whose nodes had all finished is re-opened by the new iteration, the in-transit selection lists it again while the "
               "remembered verdict still calls it finished - CheckStatus adds fraction*weight AND weight for it, the total exceeds one"
               % (f.name, bad[0], ", ".join(source.qualname(g_).split(".")[-1] for g_ in growers) or "nothing"),
               construct="%s: no verdict survives a growth of the graph" % f.name)
    # the two lists are one snapshot: complementary predicates only give disjoint sets when they are evaluated on one state
    def lock_attrs(f: ast.AST) -> Set[str]:
        return {it.context_expr.attr for w in source.walk_own(f) if isinstance(w, ast.With) for it in w.items if isinstance(it.context_expr, ast.Attribute)}
    shared = lock_attrs(gsf) & lock_attrs(gst)
    sel_calls = [c for c in source.calls_in(cs, include_nested=False) if last_attr(c) in ("get_stages_in_transit", "get_stages_finished")]
    withs = [w for w in source.walk_own(cs) if isinstance(w, ast.With) and any(
        isinstance(it.context_expr, ast.Attribute) and it.context_expr.attr in shared for it in w.items)]
    holder = [w for w in withs if all(any(x is c for st in w.body for x in ast.walk(st)) for c in sel_calls)]
    ok = bool(shared) and len({last_attr(c) for c in sel_calls}) == 2 and bool(holder)
    ctx.ob("C20.R7-total-is-a-weighted-sum", sel_calls[0] if sel_calls else cs, ok,
           "the in-transit and the finished stages are read inside one 'with <controller>.%s' block: one snapshot" % (sorted(shared)[0] if shared else "?") if ok else
           "the in-transit list and the finished list are not taken under one acquisition of the controller's component lock (%s): a stage "
           "whose last component finishes between the two reads is in transit in the first list and finished in the second, it is added "
           "as fraction*weight and again as weight, and the reported total progress exceeds one" % (", ".join(sorted(shared)) or "none shared by the getters"),
           construct="get_stages_in_transit + get_stages_finished <- one lock acquisition")
    # ... and the set that both selectors read is written under the same lock: an add that is not covered by it can land between the
    # two reads of a reader that holds the lock
    sel_reads: Set[str] = set()
    for f_ in (gsf, gst):
        for x in ast.walk(f_):
            if isinstance(x, ast.Call) and last_attr(x) == "node_is_active":
                sel_reads.add("comp_done")
    nia = ctl.functions.get("Controller.node_is_active")
    read_attrs = {x.attr for x in ast.walk(nia) if isinstance(x, ast.Attribute) and isinstance(x.value, ast.Name) and x.value.id == "self"} if nia is not None else set()
    shared_sets = {a for a in read_attrs if a.startswith("comp_")}
    n_w = 0
    for q_, f_ in ctl.functions.items():
        if q_.count(".") > 1 and not q_.startswith("Controller."):
            continue
        for c_ in source.calls_in(f_, include_nested=False):
            if last_attr(c_) in ("add", "discard", "remove", "update", "clear") and isinstance(c_.func.value, ast.Attribute) and c_.func.value.attr in shared_sets \
                    and isinstance(c_.func.value.value, ast.Name) and c_.func.value.value.id == "self":
                n_w += 1
                locked = any(isinstance(a_, ast.With) and any(isinstance(it.context_expr, ast.Attribute) and it.context_expr.attr in shared for it in a_.items)
                             for a_ in source.ancestors(c_))
                ctx.ob("C20.R7-total-is-a-weighted-sum", c_, locked,
                       "%s changes self.%s under the component lock" % (q_, c_.func.value.attr) if locked else
                       "%s changes self.%s - the set both stage selectors decide from - without holding %s: the status monitor reads the stages in "
                       "transit and the finished stages under one acquisition of that lock, an add that lands between its two reads puts a stage in "
                       "both lists and the reported total progress exceeds one" % (q_, c_.func.value.attr, ", ".join(sorted(shared)) or "the lock"),
                       construct="%s: self.%s.%s(..) <- under the component lock" % (q_, c_.func.value.attr, last_attr(c_)))
    ctx.floor("C20.R7-total-is-a-weighted-sum", n_w, 3, "writes of the set(s) that decide whether a node is active")
    # the current stage is taken out of both lists
    filt = [n for n in source.walk_own(cs) if isinstance(n, ast.Assign) and isinstance(n.value, ast.ListComp) and any(
        isinstance(c, ast.Call) and last_attr(c) in ("get_stages_in_transit", "get_stages_finished") for c in ast.walk(n.value))]
    ok = len(filt) >= 2 and all(any(isinstance(t, ast.Compare) and isinstance(t.ops[0], ast.NotEq) and any(
        isinstance(x, ast.Attribute) and x.attr == "index" for x in ast.walk(t)) for g in n.value.generators for t in g.ifs) for n in filt)
    ctx.ob("C20.R7-total-is-a-weighted-sum", filt[0] if filt else cs, ok,
           "the current stage is removed from the in-transit and the finished list before its own fraction is added" if ok else
           "the current stage is not removed from both controller lists: it is counted once through its own fraction and again through "
           "the list", construct="both lists filtered with != stage.index")
