"""C02 - stage outcome does not depend on the ordering of notifications.

Controller-side obligations: every callback path gives a component exactly one final state, nothing is
left pending, the verdict is computed from the final states.  See DESIGN.md section C02.
"""
from __future__ import annotations

import ast
from typing import List, Optional, Tuple

from vlib import match, source
from vlib.cfg import CFG, Node, own_calls
from vlib.source import AnalysisError, call_name, dotted, last_attr, short

CONTROL = "python/experiment/runtime/control.py"
WORKFLOW = "python/experiment/runtime/workflow.py"


def _state_arg(c: ast.Call, idx: int = 0) -> str:
    if len(c.args) > idx:
        return (dotted(c.args[idx]) or source.short(c.args[idx], 40)).split(".")[-1]
    return "?"


def _is_finish_call(c: ast.Call) -> bool:
    return isinstance(c.func, ast.Attribute) and c.func.attr == "finish"


def _exit_reason_is(t: ast.AST, key: str) -> Optional[str]:
    cp = match.compare_parts(t)
    if cp and isinstance(cp[1], ast.Eq):
        for a, b in ((cp[0], cp[2]), (cp[2], cp[0])):
            if isinstance(a, ast.Name) and isinstance(b, ast.Subscript) and isinstance(b.slice, ast.Constant) \
                    and b.slice.value == key and (dotted(b.value) or "").endswith("exitReasons"):
                return "T"
    return None


def _sets_controller_state(stmt: ast.AST, value_pred) -> bool:
    return isinstance(stmt, ast.Assign) and any(dotted(t) == "self.controllerState" for t in stmt.targets) and value_pred(stmt.value)


def check_finish_handshake(ctx, wf) -> None:
    """R8: notifyPostMortem is a hot stream (a filter over stateUpdates): an emission that happens before the
    subscription is never delivered, and nothing else finishes a component once finishCalled is True.  So the
    subscription has to dominate every trigger of the POSTMORTEM transition."""
    rule = "C02.R8-finish-handshake"
    fn = wf.func("ComponentState.finish")
    ctx.analysed(fn)
    cfg = CFG(fn)
    ctx.paths += cfg.paths_count()
    ctx.require(len(fn.args.args) >= 2, "anchor missing: finish(self, finalState)")
    final_param = fn.args.args[1].arg

    def is_pm(v):
        return (dotted(v) or "").endswith("POSTMORTEM_STATE")

    # local functions that (transitively) trigger POSTMORTEM: kill the engine or set the state directly
    local = {n.name: n for n in ast.walk(fn) if isinstance(n, ast.FunctionDef) and n is not fn}

    def triggers_directly(node: ast.AST) -> bool:
        for x in ast.walk(node):
            if isinstance(x, ast.Call) and (dotted(x.func) or "").endswith("engine.kill"):
                return True
            if _sets_controller_state(x, is_pm):
                return True
        return False
    trig_fns = {k for k, v in local.items() if triggers_directly(v)}
    changed = True
    while changed:
        changed = False
        for k, v in local.items():
            if k not in trig_fns and any(isinstance(c, ast.Call) and isinstance(c.func, ast.Name) and c.func.id in trig_fns for c in ast.walk(v)):
                trig_fns.add(k)
                changed = True

    def node_triggers(n: Node) -> bool:
        if n.ast is None or n.kind not in ("stmt", "test", "for", "with"):
            return False
        if isinstance(n.ast, (ast.FunctionDef, ast.ClassDef)):
            return False
        if _sets_controller_state(n.ast, is_pm):
            return True
        for c in own_calls(n.ast):
            if (dotted(c.func) or "").endswith("engine.kill"):
                return True
            if isinstance(c.func, ast.Name) and c.func.id in trig_fns:
                return True
        return False
    triggers = [n for n in cfg.nodes if node_triggers(n)]

    # setters of the final state: closures whose inner function assigns self.controllerState = <closure parameter>
    def setter_factories() -> dict:
        out = {}
        for k, v in local.items():
            params = [a.arg for a in v.args.args]
            for inner in ast.walk(v):
                if isinstance(inner, ast.FunctionDef) and inner is not v:
                    for x in ast.walk(inner):
                        if _sets_controller_state(x, lambda val: isinstance(val, ast.Name) and val.id in params):
                            out[k] = params.index(x.value.id)
        return out
    factories = setter_factories()

    def expr_is_final_setter(e: ast.AST, depth: int = 0) -> bool:
        if depth > 4 or e is None:
            return False
        if isinstance(e, ast.Call):
            if isinstance(e.func, ast.Name) and e.func.id in factories:
                idx = factories[e.func.id]
                return len(e.args) > idx and isinstance(e.args[idx], ast.Name) and e.args[idx].id == final_param
            # wrappers that keep the callable: report_exceptions(f, log, label)
            if last_attr(e) == "report_exceptions" and e.args:
                return expr_is_final_setter(e.args[0], depth + 1)
            return False
        if isinstance(e, ast.Name):
            vals = match.assigned_value(fn, e.id)
            return bool(vals) and all(expr_is_final_setter(v, depth + 1) for v in vals)
        return False

    subs = []
    for n in cfg.nodes:
        if n.kind != "stmt" or n.ast is None:
            continue
        for c in own_calls(n.ast):
            if last_attr(c) == "subscribe" and (dotted(c.func.value) or "").endswith("notifyPostMortem"):
                on_next = next((k.value for k in c.keywords if k.arg == "on_next"), c.args[0] if c.args else None)
                subs.append((n, c, on_next))
    direct = [n for n in cfg.nodes if n.kind == "stmt" and _sets_controller_state(
        n.ast, lambda v: isinstance(v, ast.Name) and v.id == final_param)]
    ctx.require(bool(subs) or bool(direct), "anchor missing: neither notifyPostMortem.subscribe nor controllerState = finalState "
                                              "in ComponentState.finish")
    ctx.floor(rule, len(triggers), 1, "POSTMORTEM triggers in ComponentState.finish")
    for (n, c, on_next) in subs:
        ok = expr_is_final_setter(on_next)
        ctx.ob(rule, c, ok, "the notifyPostMortem subscriber sets controllerState to the requested final state" if ok else
               "the notifyPostMortem subscriber is not (provably) the setter of the requested final state",
               construct="notifyPostMortem.subscribe(on_next=<setter of finalState>)")
    good_subs = [n for (n, c, on_next) in subs if expr_is_final_setter(on_next)]
    # the component already has a final state: returning then is the one legitimate way to leave without (re)assigning
    FINALS = ("FINISHED_STATE", "FAILED_STATE", "SHUTDOWN_STATE")

    def already_final(t: ast.AST) -> Optional[str]:
        cp = match.compare_parts(t)
        if not cp or dotted(cp[0]) != "self.controllerState" or not isinstance(cp[1], (ast.In, ast.NotIn)):
            return None
        if not isinstance(cp[2], (ast.List, ast.Tuple, ast.Set)):
            return None
        names = {(dotted(e) or "").split(".")[-1] for e in cp[2].elts}
        if not names or not names <= set(FINALS):
            return None
        return "T" if isinstance(cp[1], ast.In) else "F"
    final_tests = match.test_nodes(cfg, already_final)
    all_finals = [(t, lab) for (t, lab) in final_tests
                  if {(dotted(e) or "").split(".")[-1] for e in match.compare_parts(t.ast)[2].elts} == set(FINALS)]
    # R12: exactly one final state - the first one wins
    rule12 = "C02.R12-one-final-state"
    assigners = good_subs + direct
    for a in assigners:
        ok = bool(all_finals) and match.only_via_edges(cfg, a, [(t, match.other(lab)) for (t, lab) in all_finals])
        ctx.ob(rule12, a.ast, ok,
               "the final state is (scheduled to be) assigned only when the component has no final state yet" if ok else
               "finish() assigns the requested final state although the component may already be in one: a stop lands between the "
               "delivery-time veto and the restart in postMortemCheck (finish(SHUTDOWN)), the restart is then refused and "
               "TransitionComponentToFinalState calls finish(FAILED): the component is seen SHUTDOWN and then FAILED - two final states, "
               "the last one neither its rule-given state nor shut down", construct=short(a.ast, 50) + " <- no final state yet")
    ctx.floor(rule12, len(assigners), 2, "final-state assignments / setter subscriptions in ComponentState.finish")
    # (a) totality
    rr = cfg.reach([cfg.entry], blocked=good_subs + direct, blocked_edges=[(t.id, lab) for (t, lab) in all_finals], ignore_labels=("exc",))
    ok = cfg.exit.id not in rr
    ctx.ob(rule, fn, ok, "every path through finish() sets the final state or subscribes its setter" if ok else
           "finish() can return without setting the final state and without subscribing the setter: the component never "
           "gets a final state and the stage loop does not terminate",
           construct="all exits of finish() pass final-state assignment or subscription")
    # (b) subscription dominates each trigger
    for t in triggers:
        ok = bool(good_subs) and cfg.every_path_to_passes(t, gates=good_subs)
        ctx.ob(rule, t.ast, ok,
               "the final-state setter is subscribed to notifyPostMortem before this POSTMORTEM trigger" if ok else
               "this makes the component enter POSTMORTEM before the final-state setter is subscribed to notifyPostMortem: "
               "the stream is hot, so if the engine emits POSTMORTEM before the subscription (thread switch) the event is "
               "lost, finishCalled is already True so postMortemCheck ignores it, and the component never reaches a final "
               "state", construct=short(t.ast, 60) + " <- after subscribe")
    # (c) the direct assignment is not used while RUNNING (engine still alive): only on the not-RUNNING side
    run_tests = match.test_nodes(cfg, lambda e: "T" if (
        isinstance(e, ast.Compare) and len(e.ops) == 1 and isinstance(e.ops[0], ast.Eq) and
        any((dotted(x) or "").endswith("RUNNING_STATE") for x in (e.left, e.comparators[0])) and
        any(dotted(x) == "self.state" for x in (e.left, e.comparators[0]))) else None)
    for d in direct:
        ok = bool(run_tests) and match.only_via_edges(cfg, d, [(n, "F") for n, _ in run_tests])
        ctx.ob(rule, d.ast, ok, "the immediate transition is taken only when the component is not RUNNING" if ok else
               "the final state is set immediately while the engine may still be running (its later POSTMORTEM emission "
               "would find a component already in a final state)", construct="controllerState = finalState <- not RUNNING")


def check_observed_before_stopped(ctx, ctl) -> None:
    rule = "C02.R11-observed-before-stopped"
    fc = ctl.func("Controller.finishedCheck")
    cfg = CFG(fc)
    stops = [n for n in cfg.nodes if n.kind == "stmt" and n.ast is not None and any(last_attr(c) == "_stopComponents" for c in own_calls(n.ast))]
    ctx.floor(rule, len(stops), 1, "_stopComponents calls in finishedCheck")
    for sn in stops:
        call = [c for c in own_calls(sn.ast) if last_attr(c) == "_stopComponents"][0]
        coll = call.args[0].id if call.args and isinstance(call.args[0], ast.Name) else None
        loops_ = [n for n in source.walk_own(fc) if isinstance(n, ast.For) and isinstance(n.iter, ast.Name) and n.iter.id == coll
                  and any(isinstance(c, ast.Call) and last_attr(c) == "_fake_finish_with_state" for c in ast.walk(n))]
        lnodes = [n for n in cfg.nodes if n.kind == "for" and any(n.ast is lp for lp in loops_)]
        ok = bool(lnodes) and cfg.every_path_to_passes(sn, gates=lnodes)
        ctx.ob(rule, call, ok,
               "before the components of '%s' are stopped, a loop over the same collection subscribes an observer to the unobserved ones" % coll if ok else
               "_stopComponents(%s) is not preceded by a loop over %s that fake-finishes the components nobody observes" % (coll, coll),
               construct="_stopComponents(%s) <- loop with _fake_finish_with_state over %s" % (coll, coll))
        for lp in loops_:
            var = lp.target.id if isinstance(lp.target, ast.Name) else None
            ffs = [n for n in cfg.nodes if n.kind == "stmt" and n.ast is not None and any(n.ast is x for x in ast.walk(lp))
                   and any(last_attr(c) == "_fake_finish_with_state" for c in own_calls(n.ast))]

            def allowed(t: ast.AST) -> bool:
                cp = match.compare_parts(t)
                if cp and isinstance(cp[1], (ast.In, ast.NotIn)) and isinstance(cp[0], ast.Name) and cp[0].id == var \
                        and (dotted(cp[2]) or "").endswith("comp_staged_in"):
                    return True
                if any(isinstance(x, ast.Attribute) and x.attr == "finishCalled" for x in ast.walk(t)) and not any(isinstance(x, ast.Call) for x in ast.walk(t)):
                    return True
                return False
            member = match.test_nodes(cfg, lambda t: ("T" if isinstance(match.compare_parts(t)[1], ast.NotIn) else "F")
                                      if (match.compare_parts(t) and isinstance(match.compare_parts(t)[1], (ast.In, ast.NotIn))
                                          and isinstance(match.compare_parts(t)[0], ast.Name) and match.compare_parts(t)[0].id == var
                                          and (dotted(match.compare_parts(t)[2]) or "").endswith("comp_staged_in")) else None)
            for f_ in ffs:
                extra = []
                for tn in cfg.nodes:
                    if tn.kind != "test" or tn.ast is None or not any(tn.ast is x for x in ast.walk(lp)) or allowed(tn.ast):
                        continue
                    if any(match.only_via_edges(cfg, f_, [(tn, lab)]) for lab in ("T", "F")):
                        extra.append(tn)
                ok = bool(member) and match.only_via_edges(cfg, f_, member) and not extra
                ctx.ob(rule, f_.ast, ok,
                       "a component is given an observer exactly when it is not staged in (and finish() was not called on it)" if ok else
                       "whether a component gets an observer before the stage is stopped depends on %s instead of 'not in comp_staged_in': a "
                       "component whose last producer has just finished, but which the scheduler has not staged yet, is skipped; _stopComponents "
                       "then finishes it, nobody observes that, it never enters comp_done and Controller.run() never returns"
                       % (short(extra[0].ast, 60) if extra else "no membership test"),
                       construct="%s <- comp not in comp_staged_in" % short(f_.ast, 60))


HOPS = {"observe_on", "delay", "delay_with_mapper", "debounce", "throttle_first", "throttle_with_timeout", "throttle_with_mapper",
        "sample", "buffer", "buffer_with_time", "buffer_with_count", "buffer_with_time_or_count", "window", "window_with_time",
        "delay_subscription", "timeout"}


def first_final_state_wins(wf) -> bool:
    """ComponentState.finish leaves an existing final state alone (the obligation of R12, decided here without recording it): on the
    side of a test 'self.controllerState in [FINISHED, FAILED, SHUTDOWN]' where the component is final, nothing assigns
    controllerState and nothing subscribes to notifyPostMortem."""
    fn = wf.func("ComponentState.finish")
    cfg = CFG(fn)
    FINALS = {"FINISHED_STATE", "FAILED_STATE", "SHUTDOWN_STATE"}
    tests = []
    for n in cfg.nodes:
        if n.kind != "test" or n.ast is None:
            continue
        cp = match.compare_parts(n.ast)
        if cp and dotted(cp[0]) == "self.controllerState" and isinstance(cp[1], (ast.In, ast.NotIn)) and isinstance(cp[2], (ast.List, ast.Tuple, ast.Set)) \
                and {(dotted(e) or "").split(".")[-1] for e in cp[2].elts} == FINALS:
            tests.append((n, "T" if isinstance(cp[1], ast.In) else "F"))
    if not tests:
        return False
    writers = [n for n in cfg.nodes if n.kind == "stmt" and n.ast is not None and (
        (isinstance(n.ast, ast.Assign) and any(dotted(t) == "self.controllerState" for t in n.ast.targets))
        or any(last_attr(c) == "subscribe" for c in own_calls(n.ast)))]
    for (t, lab) in tests:
        r = cfg.reach([m for (m, l2) in t.succ if l2 == lab])
        if any(w.id in r for w in writers):
            return False
    # and every writer is behind such a test
    return all(match.only_via_edges(cfg, w, [(t, match.other(lab)) for (t, lab) in tests]) for w in writers)


def check_controller_state_writes(ctx, ctl) -> None:
    rule = "C02.R13-controller-keeps-final-states"
    FINALS = ("FINISHED_STATE", "FAILED_STATE", "SHUTDOWN_STATE")
    n = 0
    for q, f in ctl.functions.items():
        if q.count(".") > 1:
            continue
        writes = [a for a in source.walk_own(f) if isinstance(a, ast.Assign) and any(isinstance(t, ast.Attribute) and t.attr == "controllerState" for t in a.targets)]
        transient = [a for a in writes if (dotted(a.value) or "").split(".")[-1].endswith("_STATE") and (dotted(a.value) or "").split(".")[-1] not in FINALS]
        resets = [a for a in writes if isinstance(a.value, ast.Constant) and a.value.value is None]
        if not (transient or resets):
            continue
        cfg = CFG(f)
        ctx.analysed(f)
        obj = lambda a: source.src([t for t in a.targets if isinstance(t, ast.Attribute)][0].value)
        for a in resets:
            n += 1
            tv = {(dotted(t.value) or "").split(".")[-1] for t in transient if obj(t) == obj(a)}
            tests = match.test_nodes(cfg, lambda t, a=a, tv=tv: (
                ("T" if isinstance(match.compare_parts(t)[1], (ast.Eq, ast.Is)) else "F")
                if (match.compare_parts(t) and dotted(match.compare_parts(t)[0]) == obj(a) + ".controllerState"
                    and (dotted(match.compare_parts(t)[2]) or "").split(".")[-1] in tv) else None))
            nd = [x for x in cfg.nodes if x.kind == "stmt" and x.ast is a]
            ok = bool(tests) and bool(nd) and match.only_via_edges(cfg, nd[0], tests)
            ctx.ob(rule, a, ok,
                   "%s undoes its transient state only where the state is still that transient value" % q if ok else
                   "%s resets %s.controllerState to None unconditionally: a component that was stopped (finish(SHUTDOWN)) while this function "
                   "waited loses its final state, the restart is then refused and the component is finished again as FAILED - it is seen in two "
                   "final states" % (q, obj(a)), construct="%s: %s.controllerState = None <- still the transient state" % (q, obj(a)))
        for a in transient:
            n += 1
            tests = match.test_nodes(cfg, lambda t, a=a: match.polarity_through_locals(f, t, lambda e: (
                match.compare_parts(e) is not None and dotted(match.compare_parts(e)[0]) == obj(a) + ".controllerState"
                and isinstance(match.compare_parts(e)[1], (ast.Is, ast.Eq)) and isinstance(match.compare_parts(e)[2], ast.Constant)
                and match.compare_parts(e)[2].value is None)))
            nd = [x for x in cfg.nodes if x.kind == "stmt" and x.ast is a]
            ok = bool(tests) and bool(nd) and match.only_via_edges(cfg, nd[0], tests)
            ctx.ob(rule, a, ok,
                   "%s sets its transient state only where no state was set before" % q if ok else
                   "%s overwrites %s.controllerState with a transient state without testing that none is set: a final state given to the "
                   "component just before is replaced" % (q, obj(a)), construct="%s: %s.controllerState = <transient> <- no state yet" % (q, obj(a)))
    ctx.floor(rule, n, 2, "transient controllerState writes / resets in the controller")


def check_resubmission_cap(ctx, ctl) -> None:
    rule = "C02.R14-unrecoverable-means-the-documented-cap"
    rc = ctl.func("Controller._restartComponent")
    ctx.analysed(rc)
    from checks.c12 import cap_tests
    found = cap_tests(rc, CFG(rc))
    ctx.floor(rule, len(found), 1, "comparisons of resubmissionAttempts() with the cap in _restartComponent")
    for (tn, lab, exact, txt) in found:
        ctx.ob(rule, tn.ast, exact, "a resubmission is attempted only while the attempts are strictly below the cap" if exact else
               "the controller resubmits when resubmissionAttempts() EQUALS the cap ('%s'): one more submission than documented - the exit that "
               "should be unrecoverable is retried, and if the next execution succeeds the component ends FINISHED and the stage is reported "
               "complete instead of failed" % txt, construct="resubmissionAttempts() < cap")
    # the cap counts the failed submissions since the last SUCCESSFUL exit: the engine resets its counter on Success only (C12.R3's
    # obligation, re-used) - reset by any exit other than SubmissionFailed, a restarted ResourceExhausted in between lets the sixth failed
    # submission be resubmitted and the component can end FINISHED (seed C02-15)
    from checks import c12 as _c12
    from vlib.report import Ctx as _Ctx14
    sub14 = _Ctx14("C12", ctx.tier, ctx.repo)
    _c12.run(sub14)
    n14 = 0
    for o in sub14.obligations:
        if o["rule"] == "C12.R3-counters" and "_resubmissionAttempts" in o["what"]:
            o2 = dict(o)
            o2["rule"] = rule
            o2["what"] = "[%s] %s" % (o["rule"], o["what"]) + ("" if o["ok"] else
                          " - the sixth failed submission since the last success is no longer the unrecoverable exit")
            ctx.obligations.append(o2)
            n14 += 1
    ctx.functions_analysed |= sub14.functions_analysed
    ctx.require(n14 >= 1, "anchor missing: the resubmission-counter obligations of C12.R3")
    caps = [a for f in ctl.functions.values() for a in source.walk_own(f) if isinstance(a, ast.Assign) and any(
        isinstance(t_, ast.Attribute) and t_.attr == "_max_resubmission_attempts" for t_ in a.targets)]
    for a in caps:
        ok = isinstance(a.value, ast.Constant) and a.value.value == 5
        ctx.ob(rule, a, ok, "the cap is the documented 5" if ok else "the resubmission cap is %s, not the documented 5" % short(a.value, 20),
               construct="_max_resubmission_attempts = 5")


def check_state_before_shutdown(ctx, wf) -> None:
    """finish() latches finishCalled first (the post-mortem veto then relies on finish() to give the component its final state), so the
    store of the final state must not wait for anything that can fail: Engine.shutdown() asserts that the engine is not alive and raises
    when another thread has just restarted it; _stopComponents swallows the exception - if the store came after the call, the component
    would have no final state and a vetoed post-mortem, for ever."""
    RID = "C02.R12-one-final-state"
    n = 0
    for q, f in sorted(wf.functions.items()):
        if not (q == "ComponentState.finish" or q.startswith("ComponentState.finish.")):
            continue
        c = CFG(f)
        stores = [nd for nd in c.nodes if nd.kind == "stmt" and isinstance(nd.ast, ast.Assign) and any(source.src(t) == "self.controllerState" for t in nd.ast.targets)
                  and isinstance(nd.ast.value, ast.Name)]
        sds = match.nodes_calling(c, lambda k: last_attr(k) == "shutdown")
        for st in stores:
            n += 1
            before = [x for x in sds if st.id in c.reach([x], include_starts=False, ignore_labels=("exc", "except", "raise", "uncaught"))]
            ctx.ob(RID, st.ast, not before,
                   "the final state is stored before the engine is told to shut down" if not before else
                   "%s calls engine.shutdown() BEFORE it stores the final state: shutdown() raises (AssertionError) when the engine is alive again - "
                   "another thread restarted it between finish()'s state test and this call - the caller swallows the exception, finishCalled is "
                   "already latched, so the restarted task's post-mortem is vetoed and the component stays in 'checking': run() never returns"
                   % q.split(".", 1)[1], construct="%s: self.controllerState = <final state> before engine.shutdown()" % q.split(".")[-1])
    ctx.floor(RID, n, 2, "stores of a requested final state in ComponentState.finish")


def check_veto_at_delivery(ctx, ctl) -> None:
    """R10: typestate of the operator list of the postMortemCheck subscriptions: [.. hop ..]* veto [no hop]*"""
    FIRST_WINS = first_final_state_wins(ctx.repo.module(WORKFLOW))
    rule = "C02.R10-stop-veto-at-delivery"
    pm = ctl.func("Controller.postMortemCheck")

    def targets_postmortem(fn: ast.AST, e: ast.AST, depth: int = 0) -> bool:
        if e is None or depth > 5:
            return False
        if isinstance(e, ast.Lambda):
            return any(isinstance(c, ast.Call) and last_attr(c) == "postMortemCheck" for c in ast.walk(e.body))
        if isinstance(e, ast.Attribute):
            return e.attr == "postMortemCheck"
        if isinstance(e, ast.Call):
            return any(targets_postmortem(fn, a, depth + 1) for a in e.args)
        if isinstance(e, ast.Name):
            return any(targets_postmortem(fn, v, depth + 1) for v in match.assigned_value(fn, e.id))
        return False

    def is_veto(op_call: ast.AST) -> bool:
        return isinstance(op_call, ast.Call) and last_attr(op_call) == "filter" and any(
            isinstance(x, ast.Attribute) and x.attr == "finishCalled" for x in ast.walk(op_call))

    # does postMortemCheck itself refuse a component whose finish() was called?  (then the position of the filter is immaterial)
    cfg = CFG(pm)
    fc_tests = match.test_nodes(cfg, lambda t: ("F" if isinstance(t, ast.Attribute) and t.attr == "finishCalled" else
                                                "T" if isinstance(t, ast.UnaryOp) and isinstance(t.operand, ast.Attribute) and t.operand.attr == "finishCalled" else
                                                ("T" if isinstance(match.compare_parts(t)[1], (ast.Is, ast.Eq)) == (match.compare_parts(t)[2].value is False) else "F")
                                                if (match.compare_parts(t) and isinstance(match.compare_parts(t)[0], ast.Attribute)
                                                    and match.compare_parts(t)[0].attr == "finishCalled"
                                                    and isinstance(match.compare_parts(t)[2], ast.Constant)
                                                    and isinstance(match.compare_parts(t)[2].value, bool)) else None))
    acts = [n for n in cfg.nodes if n.ast is not None and n.kind in ("stmt", "test") and any(
        last_attr(c) in ("finish", "_restartComponent", "TransitionComponentToFinalState") or (call_name(c) or "").endswith("TransitionComponentToFinalState")
        for c in own_calls(n.ast))]
    self_guarded = bool(fc_tests) and bool(acts) and all(match.only_via_edges(cfg, a, fc_tests) for a in acts)

    n_subs = 0
    for q, fn in ctl.functions.items():
        for c in source.calls_in(fn, include_nested=False):
            if last_attr(c) != "subscribe":
                continue
            on_next = next((k.value for k in c.keywords if k.arg == "on_next"), c.args[0] if c.args else None)
            if not targets_postmortem(fn, on_next):
                continue
            n_subs += 1
            ctx.analysed(fn)
            ops: List[ast.AST] = []
            recv = c.func.value
            chain = []
            while isinstance(recv, ast.Call) and last_attr(recv) == "pipe":
                chain.append(recv)
                recv = recv.func.value
            for pc in reversed(chain):
                ops.extend(pc.args)
            vetoes = [i for i, o in enumerate(ops) if is_veto(o)]
            hops_after = [o for i, o in enumerate(ops) if vetoes and i > vetoes[-1] and last_attr(o) in HOPS] if vetoes else []
            at_delivery = self_guarded or (bool(vetoes) and not hops_after)
            # a notification that is delivered late can only do harm by giving the stopped component another final state; when
            # finish() leaves an existing final state alone (R12) the late delivery is harmless for this property
            ok = at_delivery or FIRST_WINS
            ctx.ob(rule, c, ok,
                   ("postMortemCheck refuses components whose finish() was called" if self_guarded else
                    "finishCalled is tested after the notification has reached the controller's scheduler (operators: %s)"
                    % ", ".join(last_attr(o) or "?" for o in ops) if at_delivery else
                    "a notification queued before the stop can still reach postMortemCheck, but ComponentState.finish keeps the first final "
                    "state: the stopped component cannot be given another one") if ok else
                   ("the POSTMORTEM notification is %s: a notification emitted just before _stopComponents() stops the component (natural, "
                    "recoverable exit while another component fails the stage) waits in the controller pool, is delivered after "
                    "finish(SHUTDOWN) and finishedCheck, and postMortemCheck then calls finish(FAILED): the component changes state after "
                    "the stage loop has terminated, to a state no rule gives it"
                    % ("queued by %s after finishCalled was tested" % (last_attr(hops_after[0])) if vetoes else
                       "delivered to postMortemCheck without testing finishCalled")),
                   construct="%s: notifyPostMortem -> [%s] -> postMortemCheck" % (q, ", ".join(last_attr(o) or "?" for o in ops)))
    ctx.floor(rule, n_subs, 2, "subscriptions that deliver to postMortemCheck")


def run(ctx) -> None:
    ctx.explanation = (
        "Per-path analysis (statement CFG incl. handlers and finally copies) of the controller callbacks: exactly one "
        "finish() per path with the documented state mapping, no exit of postMortemCheck without a final state or an "
        "initiated restart, comp_done.add and scheduler wake-up on every exit of finishedCheck, exactly one disposition "
        "per ready component in _schedule / finalize_submit_components, order of effects in _fake_finish_with_state, "
        "verdict computation in Controller.run, precedence in StageState.state, and the shutdown-propagation table.")
    for rid, text in [
        ("C02.R1-final-state-mapping", "TransitionComponentToFinalState calls finish exactly once per path: Success->FINISHED, "
                                       "exitReason in shutdownOn->SHUTDOWN, otherwise FAILED"),
        ("C02.R2-postmortem-total", "every exit of postMortemCheck follows an initiated restart or a final-state call"),
        ("C02.R3-finished-always-done", "every exit of finishedCheck passes comp_done.add(component) and _event_scheduler.set(); "
                                        "events postponed while sleeping are queued and replayed by wake_up"),
        ("C02.R4-disposition", "after the guards every loop iteration of _schedule disposes of the component exactly once; "
                               "finalize_submit_components disposes of every popped component"),
        ("C02.R5-fake-finish-order", "_fake_finish_with_state subscribes finishedCheck, then adds to comp_staged_in, then finish(new_state)"),
        ("C02.R6-verdict", "Controller.run leaves its loop only when nothing is active, raises UnexpectedJobFailureError iff a "
                           "component FAILED, FinalStageNoFinishedLeafComponents when no leaf finished; StageState.state tests "
                           "FAILED before RUNNING/POSTMORTEM before SHUTDOWN"),
        ("C02.R8-finish-handshake", "ComponentState.finish: every path either sets controllerState to the requested final state or "
                                    "subscribes a setter of that state to notifyPostMortem, and the subscription is in place "
                                    "before anything that makes the component enter POSTMORTEM (engine.kill / direct transition)"),
        ("C02.R9-decide-with-complete-information", "_schedule disposes of a component (ready or fake-finished with a final state) only on "
                                                    "the satisfied side of _input_dependencies_satisfied: the verdict is then a function "
                                                    "of all producers' final states, not of the order in which they were observed"),
        ("C02.R10-stop-veto-at-delivery", "every subscription that delivers POSTMORTEM notifications to postMortemCheck tests "
                                          "finishCalled at delivery time: the veto filter follows every operator that moves the "
                                          "notification to another scheduler/queue (or postMortemCheck re-tests it itself), so a "
                                          "notification queued before the stage was stopped cannot change a stopped component"),
        ("C02.R11-observed-before-stopped", "when finishedCheck stops a stage it first gives an observer (_fake_finish_with_state subscribes "
                                            "finishedCheck) to every component that is not staged in: nothing but 'not in comp_staged_in' and "
                                            "'finish() not called yet' decides that, and the loop covers the collection that is then stopped"),
        ("C02.R12-one-final-state", "ComponentState.finish assigns (or schedules) the requested final state only when the component is not "
                                    "already in FINISHED/FAILED/SHUTDOWN: whatever the ordering of the callers, the first final state stays"),
        ("C02.R13-controller-keeps-final-states", "outside ComponentState.finish the controller writes controllerState only to mark a transient "
                                                  "condition and to undo exactly that: a reset (= None) is reached only where the state was tested to "
                                                  "still be the transient value this function set, and the transient value is set only where no state "
                                                  "was set before - a component that was stopped while the controller waited keeps its final state"),
        ("C02.R14-unrecoverable-means-the-documented-cap", "which exit is 'unrecoverable' is part of the rule-given outcome: the controller resubmits after "
                                                         "SubmissionFailed only while resubmissionAttempts() < the cap, and the cap is the documented 5 - with "
                                                         "'<=' the sixth failed submission is retried, a later success makes the component FINISHED and the "
                                                         "stage is reported complete instead of failed (shared with C12.R4)"),
        ("C02.R7-shutdown-table", "aggregating consumer shuts down on any non-replicated SHUTDOWN input or when all replicated inputs are SHUTDOWN"),
        ("C02.R15-done-means-final", "the shutdown rules read a producer's final state as soon as it is in comp_done: a component enters comp_done only "
                                     "where its final state has been observed (finishedCheck, the skipped stages of a restart, kill_all_components) - "
                                     "finish() on a component that never ran is asynchronous, so marking it done at the call makes the rules see a "
                                     "RUNNING producer as finished-without-shutdown and launch its consumer, depending on the ordering (the C01 "
                                     "single-writer obligation re-used)"),
    ]:
        ctx.rule(rid, text)
    ctx.assume("thread interleavings of the rx pipeline are not explored; rules constrain each callback for all of them")
    ctx.assume("implicit exceptions are modelled only inside try blocks")

    ctl = ctx.repo.module(CONTROL)
    wf = ctx.repo.module(WORKFLOW)

    # ------------------------------------------------ R1
    t = ctl.func("TransitionComponentToFinalState")
    ctx.analysed(t)
    cfg = CFG(t)
    ctx.paths += cfg.paths_count()
    fin_nodes = match.nodes_calling(cfg, _is_finish_call)
    ctx.floor("C02.R1-final-state-mapping", len(fin_nodes), 3, "finish() calls in TransitionComponentToFinalState")
    rng = cfg.count_range(lambda n: n in fin_nodes)
    lo, hi = rng.get(cfg.exit.id, (0, 0))
    ctx.ob("C02.R1-final-state-mapping", t, (lo, hi) == (1, 1),
           "every path calls component.finish exactly once" if (lo, hi) == (1, 1) else
           "some path calls component.finish %d..%d times: a component is left without a final state or finished twice" % (lo, hi),
           construct="finish() count per path = (%d,%d)" % (lo, hi))
    succ_tests = match.test_nodes(cfg, lambda e: _exit_reason_is(e, "Success"))
    shut_tests = match.test_nodes(cfg, lambda e: "T" if (
        isinstance(e, ast.Compare) and len(e.ops) == 1 and isinstance(e.ops[0], ast.In) and isinstance(e.left, ast.Name)
        and isinstance(e.comparators[0], ast.Subscript) and isinstance(e.comparators[0].slice, ast.Constant)
        and e.comparators[0].slice.value == "shutdownOn") else None)
    ctx.require(bool(succ_tests) and bool(shut_tests), "anchor missing: Success / shutdownOn tests in TransitionComponentToFinalState")
    for fnode in fin_nodes:
        call = [c for c in own_calls(fnode.ast) if _is_finish_call(c)][0]
        st = _state_arg(call)
        if st == "FINISHED_STATE":
            ok = match.only_via_edges(cfg, fnode, [(n, "T") for n, _ in succ_tests])
            why = "FINISHED is given only on the Success branch"
        elif st == "SHUTDOWN_STATE":
            ok = match.only_via_edges(cfg, fnode, [(n, "T") for n, _ in shut_tests]) and \
                match.only_via_edges(cfg, fnode, [(n, "F") for n, _ in succ_tests])
            why = "SHUTDOWN is given only when the exit reason is not Success and is in shutdownOn"
        elif st == "FAILED_STATE":
            ok = match.only_via_edges(cfg, fnode, [(n, "F") for n, _ in shut_tests]) and \
                match.only_via_edges(cfg, fnode, [(n, "F") for n, _ in succ_tests])
            why = "FAILED is given only when the exit reason is neither Success nor in shutdownOn"
        else:
            ok, why = False, "unrecognised final state %s" % st
        ctx.ob("C02.R1-final-state-mapping", call, ok, why if ok else "violated: " + why)
    states = sorted({_state_arg([c for c in own_calls(f.ast) if _is_finish_call(c)][0]) for f in fin_nodes})
    ok = states == ["FAILED_STATE", "FINISHED_STATE", "SHUTDOWN_STATE"]
    ctx.ob("C02.R1-final-state-mapping", t, ok, "the three final states are all produced" if ok else
           "not all three final states are produced: %s" % states, construct="final states %s" % states)

    # ------------------------------------------------ R2
    pm = ctl.func("Controller.postMortemCheck")
    ctx.analysed(pm)
    cfg = CFG(pm)
    ctx.paths += cfg.paths_count()
    finals = match.nodes_calling(cfg, lambda c: call_name(c) == "TransitionComponentToFinalState" or
                                 (_is_finish_call(c) and _state_arg(c) in ("FAILED_STATE", "SHUTDOWN_STATE", "FINISHED_STATE")))
    restart_tests = match.test_nodes(cfg, lambda e: "T" if (
        isinstance(e, ast.Compare) and isinstance(e.ops[0], ast.Eq) and
        any(isinstance(x, ast.Call) and last_attr(x) == "_restartComponent"
            for x in (match.resolve_local(pm, e.left), match.resolve_local(pm, e.comparators[0]))) and
        any(isinstance(x, ast.Subscript) and isinstance(x.slice, ast.Constant) and x.slice.value == "RestartInitiated"
            for x in (match.resolve_local(pm, e.left), match.resolve_local(pm, e.comparators[0])))) else None)
    ctx.require(bool(finals) and bool(restart_tests), "anchor missing: restart test / final-state calls in postMortemCheck")
    r = cfg.reach([cfg.entry], blocked=finals, blocked_edges={(n.id, "T") for n, _ in restart_tests})
    ok = cfg.exit.id not in r and cfg.xexit.id not in r
    ctx.ob("C02.R2-postmortem-total", pm, ok,
           "every exit of postMortemCheck (incl. the exception handler) follows RestartInitiated or a final-state call" if ok else
           "postMortemCheck can return without restarting and without giving the component a final state: the component "
           "stays in POSTMORTEM and the stage never completes",
           construct="all exits of postMortemCheck are preceded by restart-initiated or final state")
    # the handler gives FAILED
    handlers = [n for n in cfg.nodes if n.kind == "handler"]
    for h in handlers:
        rr = cfg.reach([h], blocked=[f for f in finals])
        ok = cfg.exit.id not in rr
        ctx.ob("C02.R2-postmortem-total", h.ast, ok,
               "the exception handler of postMortemCheck finishes the component" if ok else
               "the exception handler of postMortemCheck can return without finishing the component",
               construct="except handler of postMortemCheck finishes the component")
    # restart refused => TransitionComponentToFinalState with the engine's exit reason
    for (tn, _) in restart_tests:
        succ = [m for (m, lab) in tn.succ if lab == "F"]
        rr = cfg.reach(succ, blocked=match.nodes_calling(cfg, lambda c: call_name(c) == "TransitionComponentToFinalState"),
                       ignore_labels=("exc",))
        ok = cfg.exit.id not in rr
        ctx.ob("C02.R2-postmortem-total", tn.ast, ok,
               "a refused restart leads to TransitionComponentToFinalState" if ok else
               "a refused restart does not always lead to TransitionComponentToFinalState: on some path the final state is chosen by another "
               "rule (e.g. finish(FAILED) once the restart budget is used up), so an exit reason on the component's shutdown list gives FAILED "
               "instead of shut-down and the stage is reported as failed",
               construct="refused restart -> TransitionComponentToFinalState")

    # the exit reason that decides the final state is the one the task EXITED with, captured before the restart was attempted:
    # Engine.restart resets the engine's exit reason before it launches, so a value read again after a restart that could not be
    # initiated is None - not on any shutdown list - and a component that should be shut down ends FAILED (seed C02-14)
    from vlib import flow as _flow2
    restart_nodes = match.nodes_calling(cfg, lambda c: last_attr(c) == "_restartComponent")
    after_restart = cfg.reach(restart_nodes, include_starts=False) if restart_nodes else set()
    for fnode in match.nodes_calling(cfg, lambda c: call_name(c) == "TransitionComponentToFinalState"):
        call = [c for c in own_calls(fnode.ast) if call_name(c) == "TransitionComponentToFinalState"][0]
        if fnode.id not in after_restart or len(call.args) < 2:
            continue
        def read_after(name: str, at: int, depth: int = 0) -> bool:
            """does a definition of `name` that reaches node `at` read the engine (any call) after the restart attempt?"""
            if depth > 4:
                return True
            for d in _flow2.reaching_defs(cfg, name).get(at, frozenset()):
                if d < 0 or d not in after_restart:
                    continue            # a parameter, or defined before the attempt
                v = _flow2.def_value(cfg, d, name)
                if v is None:
                    # a, b = x, y
                    dn = next((n_ for n_ in cfg.nodes if n_.id == d), None)
                    st_ = dn.ast if dn is not None else None
                    if isinstance(st_, ast.Assign) and len(st_.targets) == 1 and isinstance(st_.targets[0], ast.Tuple) \
                            and isinstance(st_.value, ast.Tuple) and len(st_.value.elts) == len(st_.targets[0].elts):
                        for t_, e_ in zip(st_.targets[0].elts, st_.value.elts):
                            if isinstance(t_, ast.Name) and t_.id == name:
                                v = e_
                if v is None or any(isinstance(x, ast.Call) for x in ast.walk(v)):
                    return True
                # a plain copy of other locals (possibly through tuple unpacking): follow them
                if any(read_after(x.id, d, depth + 1) for x in ast.walk(v) if isinstance(x, ast.Name)):
                    return True
            return False
        stale = None
        for a_ in call.args[1:3]:
            if isinstance(a_, ast.Name):
                if read_after(a_.id, fnode.id):
                    stale = a_
            elif any(isinstance(x, ast.Call) and last_attr(x) in ("exitReason", "returncode") for x in ast.walk(a_)):
                stale = a_
        ctx.ob("C02.R2-postmortem-total", call, stale is None,
               "the final state after a refused restart is decided by the exit reason captured before the restart attempt" if stale is None else
               "after a restart that was not initiated the final state is decided by %s, read AFTER the attempt: Engine.restart resets the exit "
               "reason before it launches, so when the launch fails the value is None, it is on no shutdown list and a component whose exit "
               "reason is on shutdownOn ends FAILED - the stage is reported failed" % short(stale, 50),
               construct="refused restart: exit reason captured before the attempt")

    # ------------------------------------------------ R3
    fc = ctl.func("Controller.finishedCheck")
    ctx.analysed(fc)
    cfg = CFG(fc)
    ctx.paths += cfg.paths_count()
    add_nodes = match.nodes_calling(cfg, lambda c: (call_name(c) or "").endswith("self.comp_done.add"))
    set_nodes = match.nodes_calling(cfg, lambda c: (call_name(c) or "").endswith("_event_scheduler.set"))
    # start after the preamble (the first try / with statement): everything from there on must end in add + set
    for nodes, what in ((add_nodes, "comp_done.add(component)"), (set_nodes, "_event_scheduler.set()")):
        first_try = [s for s in fc.body if isinstance(s, (ast.Try, ast.With))]
        ctx.require(bool(first_try), "finishedCheck has no try/with statement")
        starts = []
        for n in cfg.nodes:
            if n.ast is not None and any(n.ast is sub for sub in ast.walk(first_try[0])) and n.kind in ("stmt", "test", "with"):
                starts.append(n)
                break
        starts = starts or [cfg.entry]
        first = min((n for n in cfg.nodes if n.ast is not None and n.lineno >= first_try[0].lineno), key=lambda n: (n.lineno, n.id))
        rr = cfg.reach([first], blocked=nodes)
        ok = bool(nodes) and cfg.exit.id not in rr and cfg.xexit.id not in rr
        ctx.ob("C02.R3-finished-always-done", fc, ok,
               "every exit of finishedCheck (normal, early return, exception) passes %s" % what if ok else
               "finishedCheck can exit without %s: the component stays 'active' for its consumers / the scheduler is "
               "not woken" % what, construct="all exits of finishedCheck pass %s" % what)
    # postponed while sleeping: queued before the early return, replayed by wake_up
    sleep_tests = match.test_nodes(cfg, lambda e: "T" if match.attr_chain_endswith(e, "_start_sleeping") else None)
    q_nodes = match.nodes_calling(cfg, lambda c: (call_name(c) or "").endswith("_component_finished_while_sleeping.append"))
    rets = [n for n in cfg.nodes if n.kind == "stmt" and isinstance(n.ast, ast.Return)]
    for rn in rets:
        ok = bool(q_nodes) and cfg.every_path_to_passes(rn, gates=q_nodes)
        ctx.ob("C02.R3-finished-always-done", rn.ast, ok,
               "the early return while sleeping is preceded by queueing (state, component) for wake_up" if ok else
               "finishedCheck returns early without queueing the event: the failure handling of that component is lost")
    wu = ctl.func("Controller.wake_up")
    ctx.analysed(wu)
    loops = [n for n in source.walk_own(wu) if isinstance(n, ast.For)]
    ok = False
    for lp in loops:
        calls = [c for c in source.calls_in(lp) if last_attr(c) == "finishedCheck"]
        src_names = set(source.names_in(lp.iter))
        if calls and src_names:
            vals = [v for nm in src_names for v in match.assigned_value(wu, nm)]
            if any("_component_finished_while_sleeping" in source.src(v) for v in vals) or \
                    "_component_finished_while_sleeping" in source.src(lp.iter):
                ok = True
    ctx.ob("C02.R3-finished-always-done", wu, ok,
           "wake_up replays finishedCheck for every queued (state, component)" if ok else
           "wake_up does not replay finishedCheck for the events queued while sleeping",
           construct="wake_up replays queued finishedCheck events")

    # ------------------------------------------------ R4
    sched = ctl.func("Controller._schedule")
    ctx.analysed(sched)
    cfg = CFG(sched)
    ctx.paths += cfg.paths_count()
    from checks.c01 import schedule_roles, _const_name
    SR = schedule_roles(sched)
    ready = [n for n in cfg.nodes if n.kind == "stmt" and n.ast is not None and any(
        isinstance(c.func, ast.Attribute) and c.func.attr == "append" and dotted(c.func.value) == SR["ready"]
        for c in own_calls(n.ast))]
    fake = match.nodes_calling(cfg, lambda c: last_attr(c) == "_fake_finish_with_state")
    dep_tests = match.test_nodes(cfg, lambda t_: match.polarity_through_locals(
        sched, t_, lambda e: isinstance(e, ast.Call) and last_attr(e) == "_input_dependencies_satisfied"))
    ctx.require(bool(dep_tests) and bool(ready) and bool(fake), "anchor missing in _schedule")
    heads = [n for n in cfg.nodes if n.kind == "for"]
    disp = ready + fake
    for (tn, lab) in dep_tests:
        starts = [m for (m, l2) in tn.succ if l2 == lab]
        for s in starts:
            # the dependency verdict does not change within a pass: once on its satisfied side, other tests of the same
            # verdict (a local holding it) cannot take their unsatisfied side
            same = {(n.id, match.other(l)) for n, l in dep_tests}
            rng = cfg.count_range(lambda n: n in disp, start=s, exits=heads + [cfg.exit], ignore_labels=("exc",), blocked_edges=same)
            vals = list(rng.values())
            lo = min(v[0] for v in vals) if vals else 0
            hi = max(v[1] for v in vals) if vals else 0
            if s in disp:
                pass
            ok = (lo, hi) == (1, 1)
            ctx.ob("C02.R4-disposition", tn.ast, ok,
                   "a component that passed the guards is disposed of exactly once (ready or fake-finished) in the pass" if ok else
                   "a component that passed the guards is disposed of %d..%d times in one pass: it can be left pending "
                   "forever or be finished twice" % (lo, hi),
                   construct="dispositions after the dependency guard = (%d,%d)" % (lo, hi))
    # R9: every disposition is taken with all producers observed
    universal = match.test_nodes(cfg, lambda t: "T" if (
        isinstance(t, ast.Compare) and len(t.ops) == 1 and isinstance(t.ops[0], ast.Eq)
        and isinstance(t.left, ast.Call) and call_name(t.left) == "len"
        and isinstance(t.comparators[0], ast.Call) and call_name(t.comparators[0]) == "len") else None)
    for dn in disp:
        via_universal = any(dn.id in cfg.reach([m_ for (m_, l2) in n.succ if l2 == l], blocked=heads) for n, l in universal)
        needs_all = dn in ready or via_universal
        if not needs_all:
            # reached only through existential rules ("some producer failed / shut down"): monotone, sound on partial information
            ctx.ob("C02.R9-decide-with-complete-information", dn.ast, True,
                   "decided by an existential rule (some producer failed/shut down): the verdict cannot change when more producers are observed",
                   construct=short(dn.ast, 70) + " <- existential rule", trivial=True)
            continue
        ok = match.only_via_edges(cfg, dn, dep_tests)
        ctx.ob("C02.R9-decide-with-complete-information", dn.ast, ok,
               "this disposition is reached only when every producer's final state has been observed" if ok else
               "this disposition can be reached while some producers are still active: a rule that quantifies over all producers "
               "('all replicated inputs are shut down') is then evaluated on those observed so far, and the component's final "
               "state depends on the order of the notifications", construct=short(dn.ast, 70) + " <- all producers observed")
    fsc = ctl.func("Controller.finalize_submit_components")
    ctx.analysed(fsc)
    cfg = CFG(fsc)
    ctx.paths += cfg.paths_count()
    # roles: the work list (the local whose elements are taken with .pop inside a 'while <it>:' loop) and the list of
    # components that were staged in (iterated by the loop that calls .run())
    run_loops = [n for n in source.walk_own(fsc) if isinstance(n, ast.For) and isinstance(n.iter, ast.Name)
                 and any(last_attr(c) == "run" and not c.args for c in source.calls_in(n))]
    STAGED = run_loops[0].iter.id if run_loops else "staged_in"
    wl = [n.test.id for n in source.walk_own(fsc) if isinstance(n, ast.While) and isinstance(n.test, ast.Name)]
    REMAINING = wl[0] if wl else "remaining"
    pops = [n for n in cfg.nodes if n.kind == "stmt" and isinstance(n.ast, ast.Assign) and isinstance(n.ast.value, ast.Call)
            and last_attr(n.ast.value) == "pop" and dotted(n.ast.value.func.value) == REMAINING]
    ctx.require(bool(pops), "anchor missing: remaining.pop in finalize_submit_components")
    fake2 = match.nodes_calling(cfg, lambda c: last_attr(c) == "_fake_finish_with_state")
    staged_app = match.nodes_calling(cfg, lambda c: isinstance(c.func, ast.Attribute) and c.func.attr == "append"
                                     and dotted(c.func.value) == STAGED)
    loops = [n for n in cfg.nodes if n.kind == "loop"]
    for p in pops:
        rng = cfg.count_range(lambda n: n in fake2 + staged_app, start=p, exits=loops + [cfg.exit], ignore_labels=("exc",))
        vals = list(rng.values())
        lo = min(v[0] for v in vals) if vals else 0
        hi = max(v[1] for v in vals) if vals else 0
        ok = (lo, hi) == (1, 1)
        ctx.ob("C02.R4-disposition", p.ast, ok,
               "every component taken from the ready list is fake-finished or staged in (exactly one of them)" if ok else
               "a component taken from the ready list is disposed of %d..%d times" % (lo, hi),
               construct="dispositions after remaining.pop = (%d,%d)" % (lo, hi))
    # second phase: each staged-in component is run or restarted
    for lp in [n for n in source.walk_own(fsc) if isinstance(n, ast.For) and isinstance(n.iter, ast.Name)
               and n.iter.id == STAGED and any(last_attr(c) == "run" for c in source.calls_in(n))]:
        head = [n for n in cfg.nodes if n.kind == "for" and n.ast is lp][0]
        body_first = [m for (m, l2) in head.succ if l2 == "iter"]
        acts = match.nodes_calling(cfg, lambda c: (last_attr(c) == "run" and not c.args) or last_attr(c) == "_restartComponent")
        rr = cfg.reach(body_first, blocked=acts, ignore_labels=("exc",))
        ok = head.id not in rr
        ctx.ob("C02.R4-disposition", lp, ok,
               "every staged-in component is run or restarted" if ok else
               "a staged-in component can be skipped (neither run nor restarted): it never produces notifications",
               construct="for comp in staged_in: run/restart")

    # ------------------------------------------------ R5
    ff = ctl.func("Controller._fake_finish_with_state")
    ctx.analysed(ff)
    cfg = CFG(ff)
    ctx.paths += cfg.paths_count()
    sub_nodes = [n for n in cfg.nodes if n.kind == "stmt" and n.ast is not None and "notifyFinished" in source.src(n.ast)
                 and any(last_attr(c) == "subscribe" for c in own_calls(n.ast))]
    add = match.nodes_calling(cfg, lambda c: (call_name(c) or "") == "self.comp_staged_in.add")
    fin = match.nodes_calling(cfg, lambda c: _is_finish_call(c) and dotted(c.func.value) == "component")
    ctx.require(bool(fin), "anchor missing: component.finish in _fake_finish_with_state")
    for f in fin:
        call = [c for c in own_calls(f.ast) if _is_finish_call(c)][0]
        ok1 = bool(sub_nodes) and cfg.every_path_to_passes(f, gates=sub_nodes)
        ok2 = bool(add) and cfg.every_path_to_passes(f, gates=add)
        ok3 = bool(call.args) and isinstance(call.args[0], ast.Name) and call.args[0].id == ff.args.args[2].arg
        ctx.ob("C02.R5-fake-finish-order", call, ok1,
               "finishedCheck is subscribed to notifyFinished before finish() can emit it" if ok1 else
               "component.finish can run before finishedCheck is subscribed: the final notification is lost and the "
               "component never reaches comp_done", construct="subscribe(notifyFinished) before finish")
        ctx.ob("C02.R5-fake-finish-order", call, ok2,
               "the component is in comp_staged_in before it is finished" if ok2 else
               "component finished without being added to comp_staged_in: the scheduler disposes of it again",
               construct="comp_staged_in.add before finish")
        ctx.ob("C02.R5-fake-finish-order", call, ok3,
               "finish receives the requested state" if ok3 else "finish does not receive the requested new_state",
               construct="finish(new_state)")
    # the subscription's on_next leads to finishedCheck
    okc = any(last_attr(c) == "finishedCheck" for c in source.calls_in(ff, include_nested=True))
    ctx.ob("C02.R5-fake-finish-order", ff, okc, "the subscriber calls finishedCheck" if okc else
           "the notifyFinished subscriber does not call finishedCheck", construct="subscriber -> finishedCheck")

    # ------------------------------------------------ R8
    check_finish_handshake(ctx, wf)
    check_veto_at_delivery(ctx, ctl)
    check_state_before_shutdown(ctx, wf)
    check_resubmission_cap(ctx, ctl)
    check_controller_state_writes(ctx, ctl)
    check_observed_before_stopped(ctx, ctl)

    # ------------------------------------------------ R6
    runf = ctl.func("Controller.run")
    ctx.analysed(runf)
    cfg = CFG(runf)
    ctx.paths += cfg.paths_count()
    loops = [n for n in source.walk_own(runf) if isinstance(n, ast.While) and isinstance(n.test, ast.Constant) and n.test.value]
    ctx.require(len(loops) >= 1, "anchor missing: main 'while True' loop in Controller.run")
    main = loops[0]
    breaks = [n for n in ast.walk(main) if isinstance(n, ast.Break)]
    ACTIVE = match.role(runf, lambda v: isinstance(v, ast.Call) and isinstance(v.func, ast.Name) and v.func.id == "get_active_components", "active_names")
    act_tests = match.test_nodes(cfg, lambda e: "T" if isinstance(e, ast.Name) and e.id == ACTIVE else None)
    for b in breaks:
        bn = cfg.nodes_of(b)
        ok = bool(bn) and bool(act_tests) and all(match.only_via_edges(cfg, x, [(n, "F") for n, _ in act_tests]) for x in bn)
        ctx.ob("C02.R6-verdict", b, ok,
               "the stage loop is left only when no component or placeholder of the stage is active" if ok else
               "the stage loop can be left while components are still active")
    gac = ctl.functions.get("Controller.run.get_active_components")
    ctx.require(gac is not None, "anchor missing: get_active_components in Controller.run")
    ok = any(isinstance(c, ast.Call) and call_name(c) == "filter" and c.args and dotted(c.args[0]) == "self.node_is_active"
             for c in source.calls_in(gac)) or any(last_attr(c) == "node_is_active" for c in source.calls_in(gac))
    ctx.ob("C02.R6-verdict", gac, ok, "activity is decided by node_is_active (comp_done)" if ok else
           "get_active_components no longer uses node_is_active", construct="active = filter(node_is_active, names)")
    # failed components => UnexpectedJobFailureError
    FAILEDC = match.role(runf, lambda v: isinstance(v, ast.ListComp) and "FAILED_STATE" in source.src(v), "failed_components")
    fvals = match.assigned_value(runf, FAILEDC)
    okd = any(isinstance(v, ast.ListComp) and "FAILED_STATE" in source.src(v) and ".state" in source.src(v) for v in fvals)
    ctx.ob("C02.R6-verdict", fvals[0] if fvals else runf, okd,
           "failed_components = components of the stage whose state is FAILED" if okd else
           "failed_components is no longer the components in FAILED state")
    ftests = match.test_nodes(cfg, match_len_positive(FAILEDC))
    raises = [n for n in cfg.nodes if n.kind == "stmt" and isinstance(n.ast, ast.Raise) and n.ast.exc is not None
              and "UnexpectedJobFailureError" in source.src(n.ast.exc)]
    ctx.require(bool(raises), "anchor missing: UnexpectedJobFailureError in run")
    # normal exit only with no failed component
    ok = bool(ftests) and match.only_via_edges(cfg, cfg.exit, [(n, match.other(l)) for n, l in ftests], ignore_labels=("exc",))
    ctx.ob("C02.R6-verdict", ftests[0][0].ast if ftests else raises[0].ast, ok,
           "Controller.run returns normally only when no component of the stage FAILED" if ok else
           "Controller.run can return normally although a component FAILED")
    for (tn, lab) in ftests:
        succ = [m for (m, l2) in tn.succ if l2 == lab]
        rr = cfg.reach(succ, blocked=raises)
        ok = cfg.exit.id not in rr
        ctx.ob("C02.R6-verdict", tn.ast, ok, "a FAILED component makes run raise UnexpectedJobFailureError" if ok else
               "with a FAILED component run does not necessarily raise UnexpectedJobFailureError",
               construct="failed => raise UnexpectedJobFailureError")
    leaf_raise = [n for n in ast.walk(runf) if isinstance(n, ast.Raise) and n.exc is not None
                  and "FinalStageNoFinishedLeafComponents" in source.src(n.exc)]
    ok = False
    for r_ in leaf_raise:
        p = source.parent(r_)
        if isinstance(p, ast.For) and r_ in p.orelse:
            brk = [x for x in ast.walk(p) if isinstance(x, ast.Break)]
            cond_ok = any(isinstance(source.parent(b), ast.If) and "FINISHED_STATE" in source.src(source.parent(b).test) for b in brk)
            ok = cond_ok and isinstance(p.iter, ast.Name) and any(isinstance(v, ast.ListComp) for v in match.assigned_value(runf, p.iter.id))
    ctx.ob("C02.R6-verdict", leaf_raise[0] if leaf_raise else runf, ok,
           "final stage without a FINISHED leaf raises FinalStageNoFinishedLeafComponents" if ok else
           "the final-stage leaf test no longer raises when no leaf FINISHED")

    ss = wf.func("StageState.state")
    ctx.analysed(ss)
    cfg = CFG(ss)
    ctx.paths += cfg.paths_count()

    def in_states(name):
        return lambda e: "T" if (isinstance(e, ast.Compare) and isinstance(e.ops[0], ast.In)
                                 and (dotted(e.left) or "").endswith(name)) else None
    tf = match.test_nodes(cfg, in_states("FAILED_STATE"))
    tr = match.test_nodes(cfg, in_states("RUNNING_STATE")) + match.test_nodes(cfg, in_states("POSTMORTEM_STATE"))
    tsd = match.test_nodes(cfg, in_states("SHUTDOWN_STATE"))
    ctx.require(bool(tf) and bool(tr) and bool(tsd), "anchor missing: state tests in StageState.state")
    ok = all(match.only_via_edges(cfg, n, [(f, "F") for f, _ in tf]) for n, _ in tr + tsd)
    ctx.ob("C02.R6-verdict", tf[0][0].ast, ok, "FAILED takes precedence over RUNNING/POSTMORTEM/SHUTDOWN in StageState.state" if ok else
           "StageState.state can report RUNNING/SHUTDOWN although a component FAILED", construct="FAILED tested first")
    ok = all(match.only_via_edges(cfg, n, [(f, "F") for f, _ in tr[:1]]) for n, _ in tsd)
    ctx.ob("C02.R6-verdict", tsd[0][0].ast, ok, "RUNNING/POSTMORTEM takes precedence over SHUTDOWN" if ok else
           "StageState.state can report SHUTDOWN while a component is still RUNNING/POSTMORTEM",
           construct="RUNNING tested before SHUTDOWN")
    # the value returned on each test's true side
    for tests, state in ((tf, "FAILED_STATE"), (tsd, "SHUTDOWN_STATE")):
        for (tn, _) in tests:
            nxt = [m for (m, l2) in tn.succ if l2 == "T"]
            ok = bool(nxt) and isinstance(nxt[0].ast, ast.Assign) and (dotted(nxt[0].ast.value) or "").endswith(state)
            ctx.ob("C02.R6-verdict", tn.ast, ok, "%s in component states yields stage state %s" % (state, state) if ok else
                   "%s in component states does not yield stage state %s" % (state, state),
                   construct="%s -> retval" % state)

    # ------------------------------------------------ R7
    _shutdown_table(ctx, sched)


def match_len_positive(name: str):
    def pred(t: ast.AST) -> Optional[str]:
        if isinstance(t, ast.Name) and t.id == name:
            return "T"
        if isinstance(t, ast.Compare) and len(t.ops) == 1 and isinstance(t.left, ast.Call) and call_name(t.left) == "len" \
                and t.left.args and isinstance(t.left.args[0], ast.Name) and t.left.args[0].id == name \
                and isinstance(t.comparators[0], ast.Constant) and t.comparators[0].value == 0:
            if isinstance(t.ops[0], (ast.Gt, ast.NotEq)):
                return "T"
            if isinstance(t.ops[0], ast.Eq):
                return "F"
        return None
    return pred


def _filter_of(v: ast.AST) -> Optional[Tuple[str, str, ast.AST]]:
    """[p for p in SRC if COND] -> (target, SRC, COND)"""
    if isinstance(v, ast.ListComp) and len(v.generators) == 1 and len(v.generators[0].ifs) == 1 \
            and isinstance(v.generators[0].target, ast.Name) and isinstance(v.elt, ast.Name) \
            and v.elt.id == v.generators[0].target.id and isinstance(v.generators[0].iter, ast.Name):
        return v.generators[0].target.id, v.generators[0].iter.id, v.generators[0].ifs[0]
    return None


def _is_state_eq_shutdown(cond: ast.AST, tgt: str, fn: Optional[ast.AST] = None) -> bool:
    from checks.c01 import _const_name
    cp = match.compare_parts(cond)
    if not cp or not isinstance(cp[1], ast.Eq):
        return False
    l, _, r = cp
    ls = source.src(l)
    return ls.endswith(".state") and tgt in source.names_in(l) and _const_name(fn, r) == "SHUTDOWN_STATE"


def _shutdown_table(ctx, sched: ast.FunctionDef) -> None:
    rule = "C02.R7-shutdown-table"
    from checks.c01 import schedule_roles
    SR = schedule_roles(sched)
    DEPS, REPL, NREPL, SREPL, SNREPL = (SR[k] for k in ("dependencies", "replica_inputs", "non_replica_inputs", "shutdown_replicas", "shutdown_non_replicas"))
    local_fns = {n.name for n in ast.walk(sched) if isinstance(n, ast.FunctionDef) and n is not sched}
    defs = {}
    for nm, actual in (("replica_inputs", REPL), ("non_replica_inputs", NREPL), ("shutdown_replicas", SREPL), ("shutdown_non_replicas", SNREPL)):
        vals = match.assigned_value(sched, actual)
        ctx.require(len(vals) == 1, "anchor missing: %s in _schedule" % nm)
        defs[nm] = vals[0]
    f = _filter_of(defs["replica_inputs"])
    ok = bool(f) and f[1] == DEPS and isinstance(f[2], ast.Call) and call_name(f[2]) in local_fns
    ctx.ob(rule, defs["replica_inputs"], ok, "replica_inputs = dependencies that are replicas/looped" if ok else
           "replica_inputs is no longer the aggregated (replicated or looped) dependencies")
    f = _filter_of(defs["non_replica_inputs"])
    ok = bool(f) and f[1] == DEPS and isinstance(f[2], ast.Compare) and isinstance(f[2].ops[0], ast.NotIn) \
        and dotted(f[2].comparators[0]) == REPL
    ctx.ob(rule, defs["non_replica_inputs"], ok, "non_replica_inputs = the remaining dependencies" if ok else
           "non_replica_inputs is no longer the complement of replica_inputs within dependencies")
    for nm, src_name in (("shutdown_replicas", REPL), ("shutdown_non_replicas", NREPL)):
        f = _filter_of(defs[nm])
        ok = bool(f) and f[1] == src_name and _is_state_eq_shutdown(f[2], f[0], sched)
        ctx.ob(rule, defs[nm], ok, "%s = members of %s in SHUTDOWN" % (nm, src_name) if ok else
               "%s is no longer the members of %s whose state is SHUTDOWN" % (nm, src_name))
    cfg = CFG(sched)
    fake = match.nodes_calling(cfg, lambda c: last_attr(c) == "_fake_finish_with_state")
    ready = [n for n in cfg.nodes if n.kind == "stmt" and n.ast is not None and any(
        isinstance(c.func, ast.Attribute) and c.func.attr == "append" and dotted(c.func.value) == SR["ready"]
        for c in own_calls(n.ast))]
    t_non = match.test_nodes(cfg, lambda e: "T" if isinstance(e, ast.Name) and e.id == SNREPL else None)
    t_any = match.test_nodes(cfg, lambda e: "T" if isinstance(e, ast.Name) and e.id == REPL else None)

    def all_eq(e):
        cp = match.compare_parts(e)
        if cp and isinstance(cp[1], ast.Eq):
            s = {source.src(cp[0]), source.src(cp[2])}
            if s == {"len(%s)" % SREPL, "len(%s)" % REPL}:
                return "T"
        return None
    t_all = match.test_nodes(cfg, all_eq)
    if not t_non:
        ctx.ob(rule, defs["shutdown_non_replicas"], False,
               "no branch tests shutdown_non_replicas: a SHUTDOWN non-replicated input does not shut the aggregating consumer down",
               construct="if shutdown_non_replicas (missing)")
    if not t_all:
        ctx.ob(rule, defs["shutdown_replicas"], False,
               "no branch tests len(shutdown_replicas) == len(replica_inputs): the 'all replicated inputs are SHUTDOWN' rule "
               "is not the one implemented", construct="len(shutdown_replicas) == len(replica_inputs) (missing)")
    agg_tests = match.test_nodes(cfg, lambda t: "T" if isinstance(t, ast.Name) and t.id == SR["is_aggregate"] else None)
    for (tn, _) in t_non:
        succ = [m for (m, l2) in tn.succ if l2 == "T"]
        rr = cfg.reach(succ, blocked=[n for n in cfg.nodes if n.kind == "for"])
        ok = not any(x.id in rr for x in ready) and any(x.id in rr for x in fake)
        ctx.ob(rule, tn.ast, ok, "any SHUTDOWN non-replicated input shuts the aggregating consumer down" if ok else
               "a SHUTDOWN non-replicated input does not shut the aggregating consumer down", construct="if shutdown_non_replicas")
    for (tn, _) in t_all:
        succ = [m for (m, l2) in tn.succ if l2 == "T"]
        rr = cfg.reach(succ, blocked=[n for n in cfg.nodes if n.kind == "for"])
        ok = not any(x.id in rr for x in ready) and any(x.id in rr for x in fake)
        ctx.ob(rule, tn.ast, ok, "all replicated inputs SHUTDOWN shuts the aggregating consumer down" if ok else
               "all replicated inputs SHUTDOWN does not shut the aggregating consumer down",
               construct="len(shutdown_replicas) == len(replica_inputs)")
        # the equality test is guarded by a non-empty replica_inputs (otherwise 0 == 0 shuts down consumers of nothing)
        ok = bool(t_any) and match.only_via_edges(cfg, tn, [(n, "T") for n, _ in t_any])
        ctx.ob(rule, tn.ast, ok, "the 'all replicas' rule applies only when there are replicated inputs" if ok else
               "the 'all replicas' rule is evaluated with no replicated inputs (0 == 0): consumers without replicated "
               "inputs are shut down", construct="replica_inputs and len(...) == len(...)")
    # in the aggregating branch ready.append is reachable only with both tests false
    for rn in ready:
        if match.only_via_edges(cfg, rn, [(n, "T") for n, _ in agg_tests]):
            ok = match.only_via_edges(cfg, rn, [(n, "F") for n, _ in t_non]) and \
                (rn.id not in cfg.reach([cfg.entry], blocked_edges={(n.id, "F") for n, _ in t_all} | {(n.id, "F") for n, _ in t_any}))
            ctx.ob(rule, rn.ast, ok,
                   "an aggregating consumer becomes ready only when neither shutdown rule applies" if ok else
                   "an aggregating consumer can become ready although a shutdown rule applies",
                   construct=short(rn.ast) + " <- aggregating, no shutdown rule applies")

    # ---------------- R15: comp_done means 'final state observed' (C01.R6 re-used) -----------------------
    from checks import c01
    from vlib.report import Ctx as _Ctx
    sub_ctx = _Ctx("C01", ctx.tier, ctx.repo)
    c01.run(sub_ctx)
    n15 = 0
    for o in sub_ctx.obligations:
        if o["rule"] == "C01.R6-single-writer":
            o2 = dict(o)
            o2["rule"] = "C02.R15-done-means-final"
            o2["what"] = "[%s] %s" % (o["rule"], o["what"]) + ("" if o["ok"] else
                          " - a consumer of a producer that was put down (finish() called, final state still on its way) then sees a satisfied "
                          "dependency and no shut-down producer: it is launched and ends FINISHED in one ordering, SHUTDOWN in the other")
            ctx.obligations.append(o2)
            n15 += 1
    ctx.functions_analysed |= sub_ctx.functions_analysed
    ctx.floor("C02.R15-done-means-final", n15, 2, "writers of comp_done inspected by the C01 analysis")
