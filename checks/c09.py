"""C09 - data references parse, print and classify consistently.  See DESIGN.md section C09."""
from __future__ import annotations

import ast
from typing import Dict, List, Optional, Tuple

from vlib import boolx, match, source, state
from vlib.cfg import CFG
from vlib.source import AnalysisError, call_name, dotted, last_attr, short

FLOWIR = "python/experiment/model/frontends/flowir.py"
GRAPH = "python/experiment/model/graph.py"

PATH_SEPS = {"os.path.sep", "os.sep", "'/'"}
ENV_PATHSEPS = {"os.pathsep", "os.path.pathsep"}


def classifier_roles(fn: ast.AST) -> dict:
    """Locals of a classifier by role: (stage, producer name, has-stage-prefix) unpacked from ParseProducerReference(..) or
    (stage, producer, ..) from ParseDataReferenceFull(..); the reserved-folder collections (built from SpecialFolders or being
    the top_level_folders / special_folders parameters)."""
    r = {"job": "jobName", "has_index": {"hasIndex"}, "stage": {"stage_index", "stageIndex"}, "reserved": {"special_folders", "top_level_folders"}}
    for n in source.walk_own(fn):
        if isinstance(n, ast.Assign) and isinstance(n.targets[0], ast.Tuple) and isinstance(n.value, ast.Call) \
                and all(isinstance(e, ast.Name) for e in n.targets[0].elts):
            names = [e.id for e in n.targets[0].elts]
            if last_attr(n.value) == "ParseProducerReference" and len(names) == 3:
                r["stage"].add(names[0]); r["job"] = names[1]; r["has_index"].add(names[2])
            if last_attr(n.value) == "ParseDataReferenceFull" and len(names) == 4:
                r["stage"].add(names[0]); r["job"] = names[1]
    r["reserved"] |= set(match.locals_where(fn, lambda v: "SpecialFolders" in source.src(v)))
    return r


def classifier_atomise(job: str = "jobName", roles: Optional[dict] = None):
    roles = roles or {"job": job, "has_index": {"hasIndex"}, "stage": {"stage_index", "stageIndex"}, "reserved": {"special_folders", "top_level_folders"}}
    job = roles["job"]

    def atomise(e: ast.AST) -> Optional[Tuple[str, bool]]:
        s = source.src(e)
        cp = match.compare_parts(e)
        if cp:
            l, op, r = cp
            ls, rs = source.src(l), source.src(r)
            if isinstance(op, (ast.In, ast.NotIn)) and ls == job and (set(source.names_in(r)) & roles["reserved"]):
                return ("in_reserved", isinstance(op, ast.In))
            if isinstance(op, (ast.In, ast.NotIn)) and rs == job and ls in PATH_SEPS:
                return ("has_sep", isinstance(op, ast.In))
            if ls in roles["has_index"] and isinstance(r, ast.Constant) and isinstance(r.value, bool):
                if isinstance(op, (ast.Is, ast.Eq)):
                    return ("has_index", r.value)
                if isinstance(op, (ast.IsNot, ast.NotEq)):
                    return ("has_index", not r.value)
            if ls in roles["stage"] and isinstance(r, ast.Constant) and r.value is None:
                if isinstance(op, ast.Is):
                    return ("has_index", False)
                if isinstance(op, ast.IsNot):
                    return ("has_index", True)
            if ls == "top_level_folders" and isinstance(r, ast.Constant) and r.value is None:
                return ("tlf_given", isinstance(op, ast.IsNot))
        if isinstance(e, ast.Name) and e.id in roles["has_index"]:
            return ("has_index", True)
        if isinstance(e, ast.Call) and last_attr(e) in ("search", "match") and e.args and source.src(e.args[0]) == job:
            return ("is_var", True)
        if isinstance(e, ast.Call) and last_attr(e) == "is_var_reference" and e.args and source.src(e.args[0]) == job:
            return ("is_var", True)
        return None
    return atomise


def check_reserved_constants(ctx, m, rule: str, consequence: str) -> None:
    """STATE engine: the class-level collections (SpecialFolders, data_reference_methods, ...) are shared by every call: no function of
    flowir.py mutates one in place, directly or through a local bound to it without a copy.  Shared by C09 (classification) and C11
    (what the validators reject)."""
    cls_nodes = [c for c in ast.walk(m.tree) if isinstance(c, ast.ClassDef) and c.name == "FlowIR"]
    ctx.require(bool(cls_nodes), "anchor missing: class FlowIR")
    consts = state.class_mutable_constants(cls_nodes[0])
    ctx.require("SpecialFolders" in consts, "anchor missing: FlowIR.SpecialFolders is no longer a class-level list/set display")
    n_fn = 0
    hits = []
    for q, f in m.functions.items():
        if not any(isinstance(x, ast.Attribute) and x.attr in consts for x in ast.walk(f)):
            continue
        n_fn += 1
        for (node, cname, how) in state.shared_constant_mutations(f, consts, {"FlowIR"}):
            hits.append((q, node, cname, how))
    for (q, node, cname, how) in hits:
        ctx.ob(rule, node, False,
               "%s mutates the class-level collection FlowIR.%s in place (%s through a name bound to it without a copy): %s"
               % (q, cname, how, consequence), construct="%s: in-place mutation of FlowIR.%s" % (q, cname))
    if not hits:
        ctx.ob(rule, cls_nodes[0], True,
               "none of the %d functions that read a class-level collection of FlowIR (%s) mutates it in place" % (n_fn, ", ".join(sorted(consts))),
               construct="class-level collections of FlowIR are never mutated in place")
    ctx.floor(rule, n_fn, 5, "functions reading class-level collections of FlowIR")


def check_segment_tests(ctx) -> None:
    """R8: a reserved name is compared with a whole path segment, never as a text prefix ('data' is a prefix of 'data-prep')."""
    rule = "C09.R8-reserved-names-match-whole-segments"
    RESERVED = ("SpecialFolders", "special_folders", "top_level_folders", "direct_folders", "app_deps", "application_dependencies")
    n_fn = 0
    hits = []
    for rel in (FLOWIR, GRAPH):
        m = ctx.repo.module(rel)
        for q, f in m.functions.items():
            if q.count(".") > 1:
                continue
            if not any(isinstance(x, (ast.Name, ast.Attribute)) and (getattr(x, "id", None) in RESERVED or getattr(x, "attr", None) in RESERVED) for x in ast.walk(f)):
                continue
            n_fn += 1
            for c in source.calls_in(f, include_nested=True):
                if last_attr(c) in ("startswith", "endswith") and c.args:
                    arg = c.args[0]
                    chain = [arg] + ([v for v in match.assigned_value(f, arg.id)] if isinstance(arg, ast.Name) else [])
                    mentions = any(isinstance(x, (ast.Name, ast.Attribute)) and (getattr(x, "id", None) in RESERVED or getattr(x, "attr", None) in RESERVED)
                                   for v in chain for x in ast.walk(v))
                    # a separator appended to every name makes the prefix test a segment test
                    with_sep = any(isinstance(x, ast.BinOp) and isinstance(x.op, ast.Add) and any(
                        (isinstance(y, ast.Constant) and y.value in ("/",)) or (isinstance(y, ast.Attribute) and y.attr == "sep") for y in (x.left, x.right))
                        for v in chain for x in ast.walk(v)) or any(isinstance(x, ast.Call) and call_name(x) == "os.path.join" for v in chain for x in ast.walk(v))
                    if mentions and not with_sep:
                        hits.append((q, c))
    for (q, c) in hits:
        ctx.ob(rule, c, False,
               "%s tests a reference against the reserved names with %s(..): a text prefix, not a path segment - a component called 'data-prep', "
               "'input.v2', 'binning' or 'configure' is taken for the reserved folder its name begins with, so 'data-prep/out.csv:ref' is classified "
               "as a path while 'stage0.data-prep/out.csv:ref' names the component" % (q, last_attr(c)),
               construct="%s: %s <- whole segment" % (q, short(c, 60)))
    if not hits:
        ctx.ob(rule, ctx.repo.module(FLOWIR).tree, True,
               "no classifier compares a reference with the reserved names as a text prefix (%d functions inspected)" % n_fn,
               construct="reserved names are compared with whole path segments")
    ctx.floor(rule, n_fn, 5, "functions that consult the reserved folder names")


def check_method_alternation(ctx) -> None:
    """R7: 'copy' is a prefix of 'copyout': an alternation of the reference methods must try the longer one first (or be closed by a
    boundary), otherwise ':copyout' is read as ':copy' and the rest of the word is left over."""
    rule = "C09.R7-method-alternation-longest-first"
    n = 0
    for rel in (FLOWIR, GRAPH):
        m = ctx.repo.module(rel)
        for q, f in m.functions.items():
            for c in source.calls_in(f, include_nested=False):
                if not (isinstance(c.func, ast.Attribute) and c.func.attr == "join" and isinstance(c.func.value, ast.Constant) and c.func.value.value == "|" and c.args):
                    continue
                arg = c.args[0]
                srcs = [arg] + ([v for v in match.assigned_value(f, arg.id)] if isinstance(arg, ast.Name) else [])
                if not any("data_reference_methods" in source.src(v) or "DataReference.methods" in source.src(v) for v in srcs):
                    continue
                n += 1
                ctx.analysed(f)

                def longest_first(e: ast.AST) -> bool:
                    if not (isinstance(e, ast.Call) and call_name(e) == "sorted"):
                        return False
                    key = next((k.value for k in e.keywords if k.arg == "key"), None)
                    rev = next((k.value for k in e.keywords if k.arg == "reverse"), None)
                    by_len = (isinstance(key, ast.Name) and key.id == "len") or (isinstance(key, ast.Lambda) and isinstance(key.body, ast.Call) and call_name(key.body) == "len")
                    neg_len = isinstance(key, ast.Lambda) and isinstance(key.body, ast.UnaryOp) and isinstance(key.body.op, ast.USub) \
                        and isinstance(key.body.operand, ast.Call) and call_name(key.body.operand) == "len"
                    return (by_len and isinstance(rev, ast.Constant) and rev.value is True) or (neg_len and rev is None)
                ok = any(longest_first(v) for v in srcs)
                # or: the pattern the alternation goes into closes the group with a boundary
                if not ok:
                    tgt = [a.targets[0].id for a in source.walk_own(f) if isinstance(a, ast.Assign) and a.value is c and isinstance(a.targets[0], ast.Name)]
                    for a in source.walk_own(f):
                        if isinstance(a, ast.Call) and call_name(a) == "re.compile" and a.args and tgt and tgt[0] in source.src(a.args[0]):
                            txt = source.src(a.args[0])
                            if ")\\\\b" in txt or ")(?!" in txt or ")$" in txt:
                                ok = True
                ctx.ob(rule, c, ok,
                       "%s tries the reference methods longest first (or closes the alternation with a boundary)" % q if ok else
                       "%s builds the alternation of reference methods in list order: 'copy' comes before 'copyout', so 'gen/out.txt:copyout' in a "
                       "command line is detected as the reference 'gen/out.txt:copy' (and 'out' is left over) - a valid workflow is rejected with "
                       "'Unknown reference to gen/out.txt:copy', the spelling that was parsed is not the one that was written" % q,
                       construct="%s: '|'.join(<reference methods>) <- longest first" % q)
    ctx.floor(rule, n, 1, "alternations built from the list of reference methods")


MEMO_CTORS = {"dict", "OrderedDict", "defaultdict", "collections.OrderedDict", "collections.defaultdict", "WeakValueDictionary",
              "weakref.WeakValueDictionary"}


def check_parse_is_a_function_of_its_arguments(ctx) -> None:
    """R11 (seed C09-13): the functions that parse a reference, and the constructors that call them, may remember results in a
    process-wide container only under a key that names every argument the parse depends on, unmodified.  ``(name, index or 0)``
    files the identifier built WITHOUT a stage under the one built for stage 0: whichever is parsed first decides both."""
    rule = "C09.R11-parse-is-a-function-of-its-arguments"
    scanned = 0
    for path in (FLOWIR, "python/experiment/model/graph.py", "python/experiment/model/conf.py", "python/experiment/model/data.py"):
        mod = ctx.repo.module(path)
        shared: dict = {}       # (class name or None, attribute / name) -> node of the process-wide mutable container
        for st in mod.tree.body:
            if isinstance(st, (ast.Assign, ast.AnnAssign)):
                tg = st.targets if isinstance(st, ast.Assign) else [st.target]
                v = st.value
                if v is not None and (isinstance(v, ast.Dict) or (isinstance(v, ast.Call) and (call_name(v) or "") in MEMO_CTORS)):
                    for t in tg:
                        if isinstance(t, ast.Name):
                            shared[(None, t.id)] = st
            elif isinstance(st, ast.ClassDef):
                for cst in st.body:
                    if isinstance(cst, (ast.Assign, ast.AnnAssign)):
                        tg = cst.targets if isinstance(cst, ast.Assign) else [cst.target]
                        v = cst.value
                        if v is not None and (isinstance(v, ast.Dict) or (isinstance(v, ast.Call) and (call_name(v) or "") in MEMO_CTORS)):
                            for t in tg:
                                if isinstance(t, ast.Name):
                                    shared[(st.name, t.id)] = cst
        for qn, fn in mod.functions.items():
            parse_calls = [c for c in source.calls_in(fn) if (last_attr(c) or call_name(c) or "").startswith(("ParseProducerReference", "ParseDataReference"))]
            is_parser = fn.name.startswith(("ParseProducerReference", "ParseDataReference"))
            if not parse_calls and not is_parser:
                continue
            scanned += 1
            cls_name = qn.split(".")[0] if "." in qn else None
            params = [a.arg for a in fn.args.posonlyargs + fn.args.args + fn.args.kwonlyargs if a.arg not in ("self", "cls")]
            # attributes of self that are plain copies of a parameter
            alias = {}
            for st in source.walk_own(fn):
                if isinstance(st, ast.Assign) and isinstance(st.value, ast.Name) and st.value.id in params:
                    for t in st.targets:
                        if isinstance(t, ast.Attribute) and isinstance(t.value, ast.Name) and t.value.id == "self":
                            alias["self." + t.attr] = st.value.id
            needed = set(params) if is_parser else set()
            for c in parse_calls:
                for a in list(c.args) + [k.value for k in c.keywords]:
                    for x in ast.walk(a):
                        if isinstance(x, ast.Name) and x.id in params:
                            needed.add(x.id)
                        elif isinstance(x, ast.Attribute) and dotted(x) in alias:
                            needed.add(alias[dotted(x)])

            def container(e: ast.AST):
                if isinstance(e, ast.Name) and (None, e.id) in shared and e.id not in params:
                    return e.id
                if isinstance(e, ast.Attribute):
                    base = dotted(e.value) or source.src(e.value)
                    for (cn, an) in shared:
                        if cn is not None and an == e.attr and (base in (cn, "cls", "self", "type(self)", "self.__class__") and
                                                                (base == cn or cn == cls_name)):
                            return "%s.%s" % (cn, an)
                return None
            for st in source.walk_own(fn):
                key = None
                cont = None
                if isinstance(st, ast.Assign):
                    for t in st.targets:
                        if isinstance(t, ast.Subscript) and container(t.value):
                            key, cont = t.slice, container(t.value)
                elif isinstance(st, ast.Call) and last_attr(st) == "setdefault" and isinstance(st.func, ast.Attribute) and container(st.func.value) and st.args:
                    key, cont = st.args[0], container(st.func.value)
                if key is None:
                    continue
                k = match.resolve_local(fn, key)
                parts = list(k.elts) if isinstance(k, ast.Tuple) else [k]
                named = set()
                lossy = []
                for e in parts:
                    if isinstance(e, ast.Name) and e.id in params:
                        named.add(e.id)
                    elif isinstance(e, ast.Attribute) and dotted(e) in alias:
                        named.add(alias[dotted(e)])
                    else:
                        lossy.append(e)
                missing = sorted(needed - named - {x.id for e in lossy for x in ast.walk(e) if isinstance(x, ast.Name)})
                ok = not lossy and not missing
                ctx.ob(rule, st, ok,
                       "results remembered in %s are keyed by the arguments of the parse themselves (%s)" % (cont, short(k, 50)) if ok else
                       "%s remembers what it parsed in the process-wide %s under the key %s: %s - two calls that differ in what the key drops "
                       "share one result, so the parse of a reference depends on what was parsed before it (a producer given without a stage "
                       "and the same name given for stage 0 get whichever of (None, name, False) / (0, name, True) came first)"
                       % (qn, cont, short(k, 60), ("the key transforms an argument (%s)" % short(lossy[0], 40)) if lossy else
                          ("the key omits %s" % ", ".join(missing))),
                       construct="%s: memo key names every argument of the parse" % qn)
    ctx.require(scanned >= 4, "anchor missing: fewer than 4 functions that parse references were found (%d)" % scanned)
    ctx.ob(rule, ctx.repo.module(FLOWIR).func("FlowIR.ParseProducerReference"), True,
           "%d parsing functions / constructors scanned for process-wide memo tables" % scanned, trivial=True,
           construct="parse family scanned")


MUTATORS = {"update", "clear", "pop", "popitem", "setdefault", "__setitem__", "__delitem__"}


def check_manifest_folders_are_current(ctx, m) -> None:
    """R12 (seed C09-14): a value that a method of Manifest derives from the manifest mapping and remembers on the object (an attribute
    assigned outside __init__ from an expression over self._manifest) is reset by every method that changes the mapping.  The remembered
    top-level folders otherwise keep classifying references by the folders of an earlier key set."""
    rule = "C09.R12-manifest-folders-are-current"
    cls = next((c for c in m.tree.body if isinstance(c, ast.ClassDef) and c.name == "Manifest"), None)
    ctx.require(cls is not None, "anchor missing: class Manifest in flowir.py")
    methods = [f for f in cls.body if isinstance(f, ast.FunctionDef)]
    tlf = [f for f in methods if f.name == "top_level_folders"]
    ctx.require(bool(tlf), "anchor missing: Manifest.top_level_folders")
    # the mapping attribute: what top_level_folders iterates
    maps = {x.attr for f in tlf for x in ast.walk(f) if isinstance(x, ast.Attribute) and isinstance(x.value, ast.Name) and x.value.id == "self"
            and x.attr.startswith("_") and isinstance(x.ctx, ast.Load)}
    inits = {t.attr for f in methods if f.name == "__init__" for st in ast.walk(f) if isinstance(st, ast.Assign) for t in st.targets
             if isinstance(t, ast.Attribute) and isinstance(t.value, ast.Name) and t.value.id == "self"
             and not (isinstance(st.value, ast.Constant) and st.value.value is None)}
    mapping_attrs = {a for a in maps if a in inits} or {"_manifest"}
    memos = {}
    for f in methods:
        if f.name == "__init__":
            continue
        for st in ast.walk(f):
            if isinstance(st, ast.Assign):
                for t in st.targets:
                    if isinstance(t, ast.Attribute) and isinstance(t.value, ast.Name) and t.value.id == "self" and t.attr not in mapping_attrs \
                            and any(isinstance(x, ast.Attribute) and x.attr in mapping_attrs for x in ast.walk(st.value)):
                        memos.setdefault(t.attr, (f, st))

    def mutates(f) -> Optional[ast.AST]:
        for x in ast.walk(f):
            if isinstance(x, ast.Call) and isinstance(x.func, ast.Attribute) and x.func.attr in MUTATORS and isinstance(x.func.value, ast.Attribute) \
                    and x.func.value.attr in mapping_attrs:
                return x
            if isinstance(x, (ast.Assign, ast.AugAssign, ast.Delete)):
                tg = x.targets if isinstance(x, (ast.Assign, ast.Delete)) else [x.target]
                for t in tg:
                    if isinstance(t, ast.Subscript) and isinstance(t.value, ast.Attribute) and t.value.attr in mapping_attrs:
                        return x
                    if isinstance(t, ast.Attribute) and t.attr in mapping_attrs and isinstance(t.value, ast.Name) and t.value.id == "self":
                        return x
        return None
    n_mut = 0
    for f in methods:
        if f.name == "__init__":
            continue
        mu = mutates(f)
        if mu is None:
            continue
        n_mut += 1
        for attr, (owner, st) in sorted(memos.items()):
            if owner is f:
                continue
            resets = any(isinstance(a, ast.Assign) and any(isinstance(t, ast.Attribute) and t.attr == attr for t in a.targets) for a in ast.walk(f)) or \
                any(isinstance(c, ast.Call) and isinstance(c.func, ast.Attribute) and isinstance(c.func.value, ast.Name) and c.func.value.id == "self"
                    and any(isinstance(a, ast.Assign) and any(isinstance(t, ast.Attribute) and t.attr == attr for t in a.targets)
                            for g in methods if g.name == c.func.attr for a in ast.walk(g)) for c in ast.walk(f))
            ctx.ob(rule, mu, resets,
                   "Manifest.%s changes the mapping and resets the remembered self.%s" % (f.name, attr) if resets else
                   "Manifest.%s changes the manifest mapping (%s) but leaves self.%s - which Manifest.%s derived from the earlier keys - in place: "
                   "after clear() + update(new keys) the top-level folders handed to the reference classifiers are those of the OLD key set, a "
                   "reference into a new folder ('forcefield/ff.xml:copy') is classified as a component reference and a component named like an "
                   "old folder as a direct path" % (f.name, short(mu, 40), attr, owner.name),
                   construct="Manifest.%s resets self.%s" % (f.name, attr))
    ctx.ob(rule, tlf[0], True, "%d methods of Manifest change the mapping, %d values derived from it are remembered on the object"
           % (n_mut, len(memos)), trivial=True, construct="Manifest: mutators x remembered values")
    ctx.require(n_mut >= 1, "anchor missing: no method of Manifest changes the manifest mapping (update / clear were expected)")


def run(ctx) -> None:
    ctx.explanation = (
        "Printer/parser separator agreement for references, sibling cross-check of the two 'is this a component "
        "reference' classifiers as boolean formulas over {in_reserved, has_index, has_sep, is_var} (exhaustive truth "
        "tables from the AST), the weaker classification clause of expand_potential_component_reference, reserved-folder "
        "sets, the separator used to extract the first path segment of manifest keys, and the absolute-path rule. "
        "Round-trip/idempotence equalities over all strings need execution and are not claimed.")
    ctx.rule("C09.R1-separator-agreement", "compile_reference and the parsers agree on ':' (method), '/' (file) and 'stage<N>.' (stage prefix)")
    ctx.rule("C09.R2-sibling-classifiers", "ParseDataReferenceFull and is_datareference_to_component classify with the same formula; "
                                           "expand_potential_component_reference never expands variables, reserved first segments without stage prefix, or producers containing a path separator")
    ctx.rule("C09.R3-reserved-sets", "on every path the collection a classifier consults includes FlowIR.SpecialFolders, the caller's folders and "
             "(where the function takes them) the application-dependency names; application dependencies are mapped to their names")
    ctx.rule("C09.R8-reserved-names-match-whole-segments", "where a reference is compared with the reserved folder names (SpecialFolders, top-level "
             "folders, application dependencies) the comparison is a membership / equality test of a whole path segment, never "
             "startswith()/endswith() on the text (unless a separator is appended to every name)")
    ctx.rule("C09.R7-method-alternation-longest-first", "a regular-expression alternation built from the list of reference methods tries the longer "
             "of two methods that share a prefix first (sorted by length, descending) or closes the group with a boundary")
    ctx.rule("C09.R6-reserved-constants-immutable", "the class-level collections of FlowIR (SpecialFolders, ...) are never mutated in place, "
             "directly or through an uncopied local alias")
    ctx.rule("C09.R4-first-path-segment", "the first segment of a manifest key is taken with the path separator; os.pathsep is used only on environment values")
    ctx.rule("C09.R5-absolute-paths", "a producer starting with '/' never has a stage index")
    ctx.rule("C09.R10-application-name-drops-the-trailing-extension-only", "FlowIR.application_dependency_to_name - which decides that the first path "
             "segment of a reference is an application dependency, and names the folder the dependency is linked under - removes the TRAILING "
             "extension of the folder name (a cut at the last dot), never everything after the first dot")
    ctx.rule("C09.R11-parse-is-a-function-of-its-arguments", "the reference parsers and the constructors that call them keep no process-wide memo "
             "whose key drops or transforms an argument of the parse (what a reference parses to never depends on what was parsed before it)")
    ctx.rule("C09.R12-manifest-folders-are-current", "the top-level folders a Manifest reports - the reserved names the classifiers receive - follow the "
             "manifest's keys: a value derived from the mapping and remembered on the object is reset by every method that changes the mapping")
    ctx.rule("C09.R9-caller-stage-applies", "ParseProducerReference gives a producer that carries no stage prefix the stage its caller supplies: every "
             "path to the return takes the stage from the reference itself or consults the caller's index (absolute paths apart)")

    m = ctx.repo.module(FLOWIR)
    cr = m.func("FlowIR.compile_reference")
    pdr = m.func("FlowIR.ParseDataReference")
    ppr = m.func("FlowIR.ParseProducerReference")
    pdf = m.func("FlowIR.ParseDataReferenceFull")
    idc = m.func("FlowIR.is_datareference_to_component")
    epc = m.func("FlowIR.expand_potential_component_reference")
    ecr = m.func("FlowIR.expand_component_references")
    for f in (cr, pdr, ppr, pdf, idc, epc, ecr):
        ctx.analysed(f)

    # ---------------- R1 -------------------------------------------------------------------------------
    fmts = [n.left.value for n in source.walk_own(cr) if isinstance(n, ast.BinOp) and isinstance(n.op, ast.Mod)
            and isinstance(n.left, ast.Constant) and isinstance(n.left.value, str)]
    ok = "%s:%s" in fmts and "%s/%s:%s" in fmts
    ctx.ob("C09.R1-separator-agreement", cr, ok, "printer joins producer[/file]:method" if ok else
           "compile_reference no longer prints '<producer>[/<file>]:<method>' (formats: %s)" % fmts, construct="formats %s" % sorted(fmts))
    ok = any(f == "stage%d.%s" for f in fmts)
    ctx.ob("C09.R1-separator-agreement", cr, ok, "printer prefixes 'stage<N>.'" if ok else
           "compile_reference no longer prints the 'stage%d.' prefix", construct="stage prefix format")
    splits = [c for c in source.calls_in(pdr) if last_attr(c) == "split" and c.args]
    colon = [c for c in splits if isinstance(c.args[0], ast.Constant) and c.args[0].value == ":"]
    ok = bool(colon) and all(len(c.args) == 1 for c in colon)
    ctx.ob("C09.R1-separator-agreement", colon[0] if colon else pdr, ok, "parser splits the method on ':' (exactly one colon allowed)" if ok else
           "ParseDataReference no longer splits on ':' rejecting extra colons")
    seps = [c for c in splits if source.src(c.args[0]) in PATH_SEPS]
    ok = bool(seps) and all(len(c.args) == 2 and isinstance(c.args[1], ast.Constant) and c.args[1].value == 1 for c in seps)
    ctx.ob("C09.R1-separator-agreement", seps[0] if seps else pdr, ok, "parser splits producer/file on the first path separator" if ok else
           "ParseDataReference does not split producer and file on the first path separator", construct="reference.split(<path sep>, 1)")
    dots = [c for c in source.calls_in(ppr) if last_attr(c) == "split" and c.args and isinstance(c.args[0], ast.Constant) and c.args[0].value == "."]
    ok = bool(dots) and all(len(c.args) == 2 and isinstance(c.args[1], ast.Constant) and c.args[1].value == 1 for c in dots)
    ctx.ob("C09.R1-separator-agreement", dots[0] if dots else ppr, ok, "parser splits the stage prefix on the first '.'" if ok else
           "ParseProducerReference does not split on the first '.'", construct="reference.split('.', 1)")
    res = [c for c in source.calls_in(ppr) if call_name(c) == "re.compile" and c.args and isinstance(c.args[0], ast.Constant)]
    ok = any(c.args[0].value in ("stage([0-9]+)", r"stage(\d+)", "stage([0-9]+)$") for c in res)
    ctx.ob("C09.R1-separator-agreement", res[0] if res else ppr, ok, "parser recognises 'stage<digits>'" if ok else
           "the stage prefix pattern differs from the printed 'stage%d'", construct="stage prefix regex")
    # ... and the pattern must cover the WHOLE text in front of the '.': fullmatch, or match with an end anchor
    pat_names = {t.id for n in source.walk_own(ppr) if isinstance(n, ast.Assign) and isinstance(n.value, ast.Call) and call_name(n.value) == "re.compile"
                 for t in n.targets if isinstance(t, ast.Name)}
    uses = [c for c in source.calls_in(ppr) if isinstance(c.func, ast.Attribute) and c.func.attr in ("match", "fullmatch", "search")
            and isinstance(c.func.value, ast.Name) and c.func.value.id in pat_names]
    ctx.floor("C09.R1-separator-agreement", len(uses), 1, "applications of the stage-prefix pattern in ParseProducerReference")
    for u in uses:
        pats = [n.value.args[0].value for n in source.walk_own(ppr) if isinstance(n, ast.Assign) and isinstance(n.value, ast.Call)
                and call_name(n.value) == "re.compile" and any(isinstance(t, ast.Name) and t.id == u.func.value.id for t in n.targets)
                and n.value.args and isinstance(n.value.args[0], ast.Constant)]
        end_anchored = bool(pats) and all(p_.endswith("$") or p_.endswith("\\Z") for p_ in pats)
        start_anchored = bool(pats) and all(p_.startswith("^") or p_.startswith("\\A") for p_ in pats)
        ok = u.func.attr == "fullmatch" or (u.func.attr == "match" and end_anchored) or (u.func.attr == "search" and end_anchored and start_anchored)
        ctx.ob("C09.R1-separator-agreement", u, ok,
               "the stage-prefix pattern has to match the whole text in front of the '.'" if ok else
               "the stage-prefix pattern is applied with %s() and without an end anchor: it accepts any text that merely starts with "
               "'stage<digits>', so the relative producer 'stage2-prep.v1' parses as component 'v1' of stage 2 and prints back as "
               "'stage2.v1' - another producer" % u.func.attr, construct="stage prefix pattern applied to the whole prefix")

    # ---------------- R2 -------------------------------------------------------------------------------
    atoms = ["in_reserved", "has_index", "has_sep", "is_var"]
    tables = {}
    tests = {}
    for fn, name in ((pdf, "ParseDataReferenceFull"), (idc, "is_datareference_to_component")):
        ifs = [n for n in fn.body if isinstance(n, ast.If)]
        roles = classifier_roles(fn)
        cand = [i for i in ifs if roles["job"] in source.names_in(i.test) and (set(source.names_in(i.test)) & roles["has_index"])]
        ctx.require(bool(cand), "anchor missing: classification test in %s" % name)
        tests[name] = cand[-1]
        try:
            tables[name] = boolx.truth_table(cand[-1].test, atoms, classifier_atomise(roles=roles))
        except boolx.Unrecognised as e:
            raise AnalysisError("cannot interpret the classifier of %s: %s" % (name, e))
    free = sorted({k for t in tables.values() for (env, _) in t for k in env if k.startswith("?")})
    if free:
        ctx.note("classifier formulas contain unrecognised atoms (treated as free): %s" % free)
    ta = {tuple(sorted((k, v) for k, v in env.items() if not k.startswith("?"))): val for env, val in tables["ParseDataReferenceFull"]}
    tb = {tuple(sorted((k, v) for k, v in env.items() if not k.startswith("?"))): val for env, val in tables["is_datareference_to_component"]}
    diff = [k for k in ta if ta[k] != tb.get(k)]
    ok = not diff and not free
    ctx.ob("C09.R2-sibling-classifiers", tests["is_datareference_to_component"].test, ok,
           "both classifiers use the same formula over (in_reserved, has_index, has_sep, is_var): 16 rows agree" if ok else
           "the two classifiers disagree on %d of 16 rows, e.g. %s: the same reference is a component for one and a "
           "path for the other" % (len(diff), dict(diff[0]) if diff else free),
           construct="truth tables of ParseDataReferenceFull vs is_datareference_to_component")
    # the formula itself: not-a-component <=> (in_reserved & !has_index) | (has_sep & !has_index) | is_var
    for name, t in tables.items():
        bad = [env for env, val in t if val != ((env["in_reserved"] and not env["has_index"]) or (env["has_sep"] and not env["has_index"]) or env["is_var"])]
        ctx.ob("C09.R2-sibling-classifiers", tests[name].test, not bad,
               "%s: not-a-component <=> (reserved first segment or path separator) without stage prefix, or a variable" % name if not bad else
               "%s: the classification formula differs from the documented one on %s" % (name, bad[0]),
               construct="%s formula" % name)
    # what happens on the not-a-component side
    pdf_roles = classifier_roles(pdf)
    ok = any(isinstance(s, ast.Assign) and source.src(s.targets[0]) in pdf_roles["stage"] and isinstance(s.value, ast.Constant) and s.value.value is None
             for s in tests["ParseDataReferenceFull"].body)
    ctx.ob("C09.R2-sibling-classifiers", tests["ParseDataReferenceFull"], ok, "ParseDataReferenceFull clears the stage index for non-components" if ok else
           "ParseDataReferenceFull no longer clears the stage index for non-component references", construct="stageIndex = None")
    ok = any(isinstance(s, ast.Return) and isinstance(s.value, ast.Constant) and s.value.value is False for s in tests["is_datareference_to_component"].body)
    ctx.ob("C09.R2-sibling-classifiers", tests["is_datareference_to_component"], ok, "is_datareference_to_component returns False for non-components" if ok else
           "is_datareference_to_component no longer returns False on the non-component side", construct="return False")
    # expand_potential_component_reference
    cfg = CFG(epc)
    var_tests = match.test_nodes(cfg, lambda t: "T" if (isinstance(t, ast.Call) and last_attr(t) == "is_var_reference") else None)
    compiles = match.nodes_calling(cfg, lambda c: last_attr(c) == "compile_reference")
    ctx.require(bool(compiles), "anchor missing: compile_reference in expand_potential_component_reference")
    for cn in compiles:
        ok = bool(var_tests) and match.only_via_edges(cfg, cn, [(n, "F") for n, _ in var_tests])
        ctx.ob("C09.R2-sibling-classifiers", cn.ast, ok, "a variable producer is never expanded" if ok else
               "a reference whose producer is a variable can be expanded into a component reference", construct="expand <- not is_var_reference")
    # the variable test looks at the PRODUCER part of the parsed reference only: a variable or an index below a known producer
    # ('gen/%(molecule)s.xyz:ref', 'gen/frames[0].xyz:copy') does not make the reference a non-component
    producer_names = {st.targets[0].elts[1].id for st in source.walk_own(epc) if isinstance(st, ast.Assign) and isinstance(st.targets[0], ast.Tuple)
                      and len(st.targets[0].elts) >= 2 and isinstance(st.targets[0].elts[1], ast.Name) and isinstance(st.value, ast.Call)
                      and last_attr(st.value) in ("ParseDataReferenceFull", "ParseDataReference", "ParseProducerReference")}
    for n, _ in var_tests:
        arg = n.ast.args[0] if n.ast.args else None
        ok = isinstance(arg, ast.Name) and arg.id in producer_names
        ctx.ob("C09.R2-sibling-classifiers", n.ast, ok, "the variable test is applied to the producer part of the parsed reference" if ok else
               "the variable test is applied to %s, not to the producer part of the parsed reference: a reference to a known component whose path "
               "holds a %%(variable)s or an [index] is left relative while ParseDataReferenceFull / is_datareference_to_component / "
               "compile_reference still classify it as that component" % (short(arg, 30) if arg is not None else "nothing"),
               construct="expand: is_var_reference(<producer>)")
    epc_roles = classifier_roles(epc)
    # roles: DIRECT = the boolean local defined from 'top_level_folders is not None and (...)'; REFC = the local initialised
    # from the force_expand parameter
    DIRECT = match.role(epc, lambda v: isinstance(v, ast.BoolOp) and "top_level_folders" in source.src(v), "direct_reference")
    REFC = match.role(epc, lambda v: isinstance(v, ast.Name) and v.id == "force_expand", "references_component")
    dr = match.assigned_value(epc, DIRECT)
    ctx.require(len(dr) == 1, "anchor missing: direct_reference in expand_potential_component_reference")
    try:
        t = boolx.truth_table(dr[0], ["tlf_given", "has_index", "in_reserved", "has_sep"], classifier_atomise(roles=epc_roles))
    except boolx.Unrecognised as e:
        raise AnalysisError("cannot interpret direct_reference: %s" % e)
    bad = [env for env, val in t if not any(k.startswith("?") for k in env)
           and val != ((env["tlf_given"] and not env["has_index"] and env["in_reserved"]) or env["has_sep"])]
    freed = sorted({k for env, _ in t for k in env if k.startswith("?")})
    ctx.ob("C09.R2-sibling-classifiers", dr[0], not bad and not freed,
           "direct_reference <=> (reserved first segment without stage prefix) or the producer contains a path separator" if not bad and not freed else
           "direct_reference deviates from the documented classification (%s)" % (bad[0] if bad else freed), construct="direct_reference formula")
    # references_component can become True only by force_expand, by 'top_level_folders and not direct_reference', or by a known component
    sets_true = [n for n in cfg.nodes if n.kind == "stmt" and isinstance(n.ast, ast.Assign) and source.src(n.ast.targets[0]) == REFC
                 and isinstance(n.ast.value, ast.Constant) and n.ast.value.value is True]
    nd = match.test_nodes(cfg, lambda t_: match.polarity(t_, lambda e: isinstance(e, ast.Name) and e.id == DIRECT))
    kc = match.test_nodes(cfg, lambda t_: "T" if (isinstance(t_, ast.Compare) and isinstance(t_.ops[0], ast.In) and "known_components" in source.src(t_.comparators[0])) else None)
    for s_ in sets_true:
        edges = [(n, match.other(l)) for n, l in nd] + kc
        ok = bool(edges) and match.only_via_edges(cfg, s_, edges)
        ctx.ob("C09.R2-sibling-classifiers", s_.ast, ok, "expansion is decided only by 'not a direct reference' or 'known component'" if ok else
               "a direct (reserved-folder / path) reference can be expanded although it is not a known component")
    init = match.assigned_value(epc, REFC)
    ok = any(isinstance(v, ast.Name) and v.id == "force_expand" for v in init)
    ctx.ob("C09.R2-sibling-classifiers", epc, ok, "expansion defaults to force_expand" if ok else "references_component no longer starts from force_expand",
           construct="references_component = force_expand", trivial=True)

    # ---------------- R3 -------------------------------------------------------------------------------
    # INCL engine: what the collection that a classifier consults is guaranteed to include on every path
    from vlib import incl, state

    def leaf(e: ast.AST) -> Optional[str]:
        if isinstance(e, ast.Attribute) and e.attr == "SpecialFolders":
            return "SPECIAL"
        if isinstance(e, (ast.ListComp, ast.GeneratorExp, ast.Call)) and any(
                isinstance(c, ast.Call) and last_attr(c) == "application_dependency_to_name" for c in ast.walk(e)) \
                and not (isinstance(e, ast.Call) and (call_name(e) or "").split(".")[-1] in incl.COPIES):
            return "APPDEP"
        return None
    FOLDER_PARAMS = ("top_level_folders", "special_folders")
    NAMES = {"SPECIAL": "FlowIR.SpecialFolders", "APPDEP": "the application-dependency folder names",
             "P:top_level_folders": "the caller's top_level_folders", "P:special_folders": "the caller's special_folders"}
    n_sites = 0
    users = [f for q, f in m.functions.items() if q.startswith("FlowIR.") and f not in (pdf, idc, ecr) and any(
        isinstance(c, ast.Call) and last_attr(c) == "expand_potential_component_reference" for c in source.walk_own(f))]
    for fn in [pdf, idc, ecr] + users:
        params = {a.arg for a in fn.args.args + fn.args.kwonlyargs}
        required = {"SPECIAL"} | {"P:" + p for p in FOLDER_PARAMS if p in params} | ({"APPDEP"} if "application_dependencies" in params else set())
        an = incl.Inclusion(fn, leaf, [p for p in FOLDER_PARAMS + ("application_dependencies",) if p in params],
                            empty_with={"P:application_dependencies": ["APPDEP"]})
        ctx.analysed(fn)
        sites: List[ast.AST] = []
        job = classifier_roles(fn)["job"]
        for n in source.walk_own(fn):
            # <producer name> in <collection>
            cp = match.compare_parts(n) if isinstance(n, ast.Compare) else None
            if cp and isinstance(cp[1], (ast.In, ast.NotIn)) and source.src(cp[0]) == job and isinstance(cp[2], ast.Name):
                sites.append(cp[2])
            # the reserved folders handed to the classifier
            if isinstance(n, ast.Call) and last_attr(n) == "expand_potential_component_reference":
                arg = next((k.value for k in n.keywords if k.arg == "top_level_folders"), n.args[3] if len(n.args) > 3 else None)
                # an explicit None is the callee's "no folder information" protocol: acceptable only where the caller has none
                if arg is not None and not (isinstance(arg, ast.Constant) and arg.value is None and not (required - {"SPECIAL"})
                                            and fn not in (pdf, idc, ecr)):
                    sites.append(arg)
        for sx in sites:
            got = an.at(sx)
            ctx.require(got is not None, "cannot locate the reserved-folder collection %s of %s in its CFG" % (short(sx, 40), fn.name))
            n_sites += 1
            missing = sorted(required - got)
            ok = not missing
            ctx.ob("C09.R3-reserved-sets", sx, ok,
                   "%s classifies against a collection that includes %s on every path" % (fn.name, ", ".join(NAMES[r] for r in sorted(required))) if ok else
                   "%s can classify a reference against a collection that does not include %s: a reference such as 'data/file:ref' or "
                   "'<top-level folder>/x:copy' is then taken for a component in one place and for a path in another"
                   % (fn.name, " and ".join(NAMES[r] for r in missing)),
                   construct="%s: reserved collection %s includes %s" % (fn.name, short(sx, 30), "+".join(sorted(required))))
    ctx.floor("C09.R3-reserved-sets", n_sites, 4, "reserved-folder collections consulted by the classifiers and their callers")
    vals = [v for nm in match.locals_where(pdf, lambda v: "application_dependency_to_name" in source.src(v)) for v in match.assigned_value(pdf, nm)]
    ok = any("application_dependency_to_name" in source.src(v) for v in vals)
    ctx.ob("C09.R3-reserved-sets", vals[0] if vals else pdf, ok, "application dependencies are mapped to their folder names" if ok else
           "application dependencies are compared without application_dependency_to_name")

    check_method_alternation(ctx)
    check_segment_tests(ctx)
    check_reserved_constants(ctx, m, "C09.R6-reserved-constants-immutable",
                             "the folders of one workflow stay reserved for every workflow loaded later in the process, so the same reference "
                             "string is classified differently depending on what was loaded before")

    # ---------------- R4 -------------------------------------------------------------------------------
    tlf = m.func("Manifest.top_level_folders")
    ctx.analysed(tlf)
    sp = [c for c in source.calls_in(tlf, include_nested=True) if last_attr(c) == "split" and c.args
          and (call_name(c) or "") != "os.path.split"]
    # what is taken from each key: the recognised "first segment" forms are x.split(sep[, n])[0] / x.partition(sep)[0];
    # forms that are known NOT to give the left-most folder of a nested key are violations; anything else is undecided
    firsts = [n for n in ast.walk(tlf) if isinstance(n, ast.Subscript) and isinstance(n.value, ast.Call)
              and last_attr(n.value) in ("split", "partition") and (call_name(n.value) or "") != "os.path.split"
              and isinstance(n.slice, ast.Constant) and n.slice.value == 0]
    NOT_FIRST = {"os.path.dirname": "the parent path ('a/b/c' -> 'a/b')", "os.path.basename": "the last segment",
                 "os.path.split": "(parent, last segment)", "os.path.normpath": "the whole key", "os.path.splitext": "the key without extension"}
    wrong = [c for c in source.calls_in(tlf, include_nested=True) if (call_name(c) or "") in NOT_FIRST
             or last_attr(c) in ("rsplit", "rpartition")]
    wrong += [n for n in ast.walk(tlf) if isinstance(n, ast.Subscript) and isinstance(n.value, ast.Call) and last_attr(n.value) in ("split", "partition")
              and (call_name(n.value) or "") != "os.path.split" and not (isinstance(n.slice, ast.Constant) and n.slice.value == 0)]
    for w in wrong:
        what = NOT_FIRST.get(call_name(w) or "", "not the left-most segment") if isinstance(w, ast.Call) else "not element [0] of the split"
        ctx.ob("C09.R4-first-path-segment", w, False,
               "Manifest.top_level_folders derives a folder from a manifest key with %s, which is %s: for a key nested two or "
               "more levels ('lib/python/site') the reserved folder is not 'lib', so 'lib/helper.py:ref' is classified as a "
               "component" % (short(w, 50), what), construct="top_level_folders: %s" % short(w, 60))
    ctx.require(bool(firsts) or bool(wrong), "cannot decide how Manifest.top_level_folders derives the folder of a key "
                                             "(neither a recognised first-segment form nor a known wrong form)")
    if firsts and not wrong:
        ctx.ob("C09.R4-first-path-segment", firsts[0], True, "the folder of a manifest key is element [0] of a split on the separator",
               construct="top_level_folders: %s" % short(firsts[0], 60))
    for c in sp:
        sep = source.src(c.args[0])
        ok = sep in PATH_SEPS
        ctx.ob("C09.R4-first-path-segment", c, ok,
               "the first segment of a manifest key is taken with the path separator (%s)" % sep if ok else
               "Manifest.top_level_folders splits keys on %s (%s), not on the path separator used by ParseDataReference: a key "
               "'mydir/sub' yields the folder 'mydir/sub', so 'mydir/file:ref' is classified as a component"
               % (sep, "the PATH-list separator ':'" if sep in ENV_PATHSEPS else "another separator"))
    n_ps = 0
    mods = [m, ctx.repo.module(GRAPH)] if ctx.tier == "quick" else [x for x in ctx.repo.modules() if x.rel.startswith("python/experiment/")]
    for mod in mods:
        for n in ast.walk(mod.tree):
            if isinstance(n, ast.Attribute) and n.attr == "pathsep":
                n_ps += 1
                st = source.stmt_of(n)
                fn = source.enclosing_def(n)
                text = source.src(st)
                envish = any(k in text for k in ("environ", "getenv", "PATH", "env[", "environment"))
                if not envish and fn is not None:
                    envish = any(k in source.src(fn) for k in ("os.environ", "getenv")) and "manifest" not in source.src(fn).lower()
                ctx.ob("C09.R4-first-path-segment", n, envish,
                       "os.pathsep applied to an environment-variable style value" if envish else
                       "os.pathsep (':' list separator) is applied to something that is not an environment value: %s" % short(st, 80))
    ctx.extra["pathsep_uses"] = n_ps

    # ---------------- R5 -------------------------------------------------------------------------------
    c2 = CFG(ppr)
    rt = [r.value for r in source.walk_own(ppr) if isinstance(r, ast.Return) and isinstance(r.value, ast.Tuple) and len(r.value.elts) == 3
          and isinstance(r.value.elts[2], ast.Name)]
    HASIDX = rt[0].elts[2].id if rt else "hasIndex"
    sets_ = [n for n in c2.nodes if n.kind == "stmt" and isinstance(n.ast, ast.Assign) and source.src(n.ast.targets[0]) == HASIDX
             and isinstance(n.ast.value, ast.Constant) and n.ast.value.value is True]
    abs_tests = match.test_nodes(c2, lambda t_: "T" if (isinstance(t_, ast.Call) and last_attr(t_) == "startswith" and t_.args
                                                        and isinstance(t_.args[0], ast.Constant) and t_.args[0].value == "/") else None)
    ctx.require(bool(sets_), "anchor missing: hasIndex = True in ParseProducerReference")
    for s_ in sets_:
        ok = bool(abs_tests) and match.only_via_edges(c2, s_, [(n, "F") for n, _ in abs_tests])
        ctx.ob("C09.R5-absolute-paths", s_.ast, ok, "an absolute path never gets a stage index" if ok else
               "a producer starting with '/' can be given a stage index")
    c3 = CFG(pdr)
    abs3 = match.test_nodes(c3, lambda t_: "T" if (isinstance(t_, ast.Call) and last_attr(t_) == "startswith" and t_.args
                                                   and isinstance(t_.args[0], ast.Constant) and t_.args[0].value == "/") else None)
    ok = bool(abs3)
    ctx.ob("C09.R5-absolute-paths", pdr, ok, "absolute references are split with os.path.split (directory / file)" if ok else
           "ParseDataReference no longer special-cases absolute paths", construct="if reference.startswith('/')")

    # ---------------- R9 -------------------------------------------------------------------------------
    # relative and absolute spelling name the same producer: the relative one gets its stage from the caller.  On every path to the return
    # either the stage was read off the reference (a definition of the returned stage variable from int(..)), or the caller's index was
    # consulted (a test of the index parameter), or the reference is an absolute path.  A path that does neither returns 'no stage' for
    # a relative producer - e.g. for a component whose name contains a dot ('md.run/out.csv:ref' in stage 2) - while 'stage2.md.run/..'
    # returns stage 2: the two spellings then name different producers
    STAGE = rt[0].elts[0].id if rt and isinstance(rt[0].elts[0], ast.Name) else None
    idx_param = ppr.args.args[2].arg if len(ppr.args.args) > 2 else None
    ctx.require(STAGE is not None and idx_param is not None, "anchor missing: ParseProducerReference(cls, reference, index) returning (stage, name, flag)")
    from_ref = [n for n in c2.nodes if n.kind == "stmt" and isinstance(n.ast, ast.Assign) and any(
        isinstance(t, ast.Name) and t.id == STAGE for t in n.ast.targets) and any(
        isinstance(x, ast.Call) and isinstance(x.func, ast.Name) and x.func.id == "int" for x in ast.walk(n.ast.value))]
    idx_tests = [n for n in c2.nodes if n.kind == "test" and n.ast is not None and any(
        isinstance(x, ast.Name) and x.id == idx_param for x in ast.walk(n.ast))]
    idx_uses = [n for n in c2.nodes if n.kind == "stmt" and isinstance(n.ast, ast.Assign) and any(
        isinstance(t, ast.Name) and t.id == STAGE for t in n.ast.targets) and any(
        isinstance(x, ast.Name) and x.id == idx_param for x in ast.walk(n.ast.value))]
    ret_nodes = [n for n in c2.nodes if n.kind == "stmt" and isinstance(n.ast, ast.Return)]
    ctx.require(bool(from_ref) and bool(ret_nodes), "anchor missing: the stage read from the reference / the return of ParseProducerReference")
    # the side of a test of the has-a-stage flag on which the flag is true stands for 'the stage was read off the reference', provided the
    # flag is only raised after that definition
    flag_edges = []
    if all(c2.every_path_to_passes(s_, gates=from_ref) for s_ in sets_):
        flag_edges = [(n.id, lab) for (n, lab) in match.test_nodes(c2, lambda t_: match.polarity(t_, lambda e: isinstance(e, ast.Name) and e.id == HASIDX))]
    for rn in ret_nodes:
        ok = c2.every_path_to_passes(rn, gates=from_ref + idx_tests + idx_uses, gate_edges=[(n.id, lab) for (n, lab) in abs_tests] + flag_edges,
                                     ignore_labels=("exc", "raise", "uncaught"))
        ctx.ob("C09.R9-caller-stage-applies", rn.ast, ok,
               "on every path the stage comes from the reference or the caller's index is consulted" if ok else
               "ParseProducerReference can return without a stage from the reference and without consulting the caller's index: a relative "
               "producer on that path (a component name with a dot in it: 'md.run/out.csv:ref' in stage 2) parses to stage None while the "
               "absolute spelling 'stage2.md.run/out.csv:ref' parses to stage 2 - graph.DataReference prints 'md.run:ref' as its absolute "
               "form, validate_references misses a missing producer and replication skips the consumer",
               construct="ParseProducerReference: stage from the reference or from the caller on every path")

    # ---------------- R10 ------------------------------------------------------------------------------
    # 'amber-20.1.application' is the dependency 'amber-20.1': a reference 'amber-20.1/bin/sander:ref' is a path into it, not a component.
    # A cut at the FIRST dot names it 'amber-20': the reference is then classified as a component of the consumer's stage (and a real
    # component called 'amber-20' as a folder).  The forms are enumerated; anything else stops the run as undecided.
    adn = m.functions.get("FlowIR.application_dependency_to_name")
    ctx.require(adn is not None, "anchor missing: FlowIR.application_dependency_to_name")
    ctx.analysed(adn)

    def dot_const(e: ast.AST) -> bool:
        return isinstance(e, ast.Constant) and e.value == "."
    right, left = [], []
    for x in source.walk_own(adn):
        if isinstance(x, ast.Call):
            cn = call_name(x) or ""
            la = last_attr(x)
            if cn.endswith("path.splitext") or (la in ("rsplit", "rpartition", "rfind", "rindex") and x.args and dot_const(x.args[0])) or la == "with_suffix":
                right.append(x)
            elif la in ("split", "partition", "find", "index") and x.args and dot_const(x.args[0]):
                left.append(x)
        elif isinstance(x, ast.Attribute) and x.attr == "stem":
            right.append(x)
    ctx.require(bool(right or left), "C09.R10: application_dependency_to_name removes the extension in a form the rule does not know (not decided)")
    for x in left:
        ctx.ob("C09.R10-application-name-drops-the-trailing-extension-only", x, False,
               "application_dependency_to_name cuts the folder name at the FIRST dot (%s): 'amber-20.1.application' becomes 'amber-20', so "
               "'amber-20.1/bin/sander:ref' is classified as a component of the consumer's stage (validation reports an unknown reference on a "
               "valid workflow) and a component called 'amber-20' as a direct path" % short(x, 50),
               construct="application_dependency_to_name: the extension is cut at the last dot")
    # the separator a folder id may end with is taken off on EVERY path to the return: 'Gamess.application/' otherwise keeps its
    # extension (splitext finds none after the '/') and never equals the first segment of a reference (seed C09-15)
    acfg = CFG(adn)
    strips = [n for n in acfg.nodes if n.ast is not None and n.kind in ("stmt", "test") and any(
        isinstance(c, ast.Call) and ((last_attr(c) in ("rstrip", "strip") and c.args and isinstance(c.args[0], ast.Constant) and "/" in str(c.args[0].value))
                                     or (call_name(c) or "").endswith("path.normpath")) for c in ast.walk(n.ast))]
    rets = [n for n in acfg.nodes if n.kind == "stmt" and isinstance(n.ast, ast.Return)]
    for rn in rets:
        inline = any(isinstance(c, ast.Call) and (last_attr(c) in ("rstrip", "strip") or (call_name(c) or "").endswith("path.normpath")) for c in ast.walk(rn.ast))
        ok_s = inline or (bool(strips) and acfg.every_path_to_passes(rn, gates=strips))
        ctx.ob("C09.R10-application-name-drops-the-trailing-extension-only", rn.ast, ok_s,
               "a trailing separator of the folder id is taken off on every path" if ok_s else
               "application_dependency_to_name can reach its return without taking a trailing '/' off the id: the relative entry 'Gamess.application/' "
               "is named 'gamess.application/' - no reference's first segment ever equals it, so 'gamess/bin/rungms:ref' is classified as the "
               "component stage1.gamess", construct="application_dependency_to_name: trailing separator stripped on every path")
    if not left:
        ctx.ob("C09.R10-application-name-drops-the-trailing-extension-only", right[0], True,
               "the name of an application dependency is its folder name minus the trailing extension (%s)" % short(right[0], 50),
               construct="application_dependency_to_name: the extension is cut at the last dot")

    # ---------------- R11 ------------------------------------------------------------------------------
    check_parse_is_a_function_of_its_arguments(ctx)

    # ---------------- R12 ------------------------------------------------------------------------------
    check_manifest_folders_are_current(ctx, m)
