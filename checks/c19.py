"""C19 - the legacy (DOSINI) configuration format round-trips an instance.

TAB engine: the writer table (FlowIR option path -> DOSINI key, converter kind) is extracted from the dict/lambda
literals of the Dosini._comp_*_to_* writers, the reader table (DOSINI key -> FlowIR path, converter kind) from the
if/elif chain of Dosini.parse_component, and the two are compared.  See DESIGN.md section C19.
"""
from __future__ import annotations

import ast
from typing import Dict, List, Optional, Set, Tuple

from vlib import match, source
from vlib.source import AnalysisError, call_name, dotted, last_attr, short
from vlib.cfg import CFG, own_calls

DOSINI = "python/experiment/model/frontends/dosini.py"

# FlowIR options the legacy format cannot express (frozen; a new unwritten option is reported as information)
NOT_WRITTEN = {
    ("workflowAttributes", "isRepeat"): "derived by the reader from repeat-interval",
    ("workflowAttributes", "isMigrated"): "runtime-only flag",
    ("resourceManager", "kubernetes", "qos"): "kubernetes-only, not expressible",
    ("resourceManager", "kubernetes", "podSpec"): "kubernetes-only, not expressible",
    ("resourceManager", "docker"): "docker resource manager has no legacy spelling",
    ("resourceRequest", "gpus"): "no legacy spelling",
}

Path = Tuple[str, ...]

# actual spelling of some locals, discovered by role on every run (defaults = spelling on the pinned tree)
R = {"translate_map": "translate_map", "key": "key", "value": "value", "tkeys": {"translated_key", "key"}, "component": "component"}


def const_str(e: ast.AST) -> Optional[str]:
    return e.value if isinstance(e, ast.Constant) and isinstance(e.value, str) else None


class Env:
    """Resolves local names to FlowIR paths / constants inside one writer function."""

    def __init__(self, fn: ast.AST, root: str):
        self.fn = fn
        self.root = root
        self.consts: Dict[str, str] = {}
        self.paths: Dict[str, Path] = {}
        for n in source.walk_own(fn):
            if isinstance(n, ast.Assign) and len(n.targets) == 1 and isinstance(n.targets[0], ast.Name):
                c = const_str(n.value)
                if c is not None:
                    self.consts[n.targets[0].id] = c
        changed = True
        while changed:
            changed = False
            for n in source.walk_own(fn, include_nested=False):
                if isinstance(n, ast.Assign) and len(n.targets) == 1 and isinstance(n.targets[0], ast.Name):
                    p = self.path_of(n.value)
                    if p is not None and self.paths.get(n.targets[0].id) != p:
                        self.paths[n.targets[0].id] = p
                        changed = True

    def key_of(self, e: ast.AST) -> Optional[str]:
        c = const_str(e)
        if c is not None:
            return c
        if isinstance(e, ast.Name):
            return self.consts.get(e.id)
        return None

    def path_of(self, e: ast.AST) -> Optional[Path]:
        if isinstance(e, ast.Name):
            if e.id == self.root:
                return ()
            return self.paths.get(e.id)
        if isinstance(e, ast.Subscript):
            base = self.path_of(e.value)
            k = self.key_of(e.slice)
            if base is not None and k is not None:
                return base + (k,)
            if base is not None and isinstance(e.slice, ast.Name):
                return base + ("<%s>" % e.slice.id,)
        if isinstance(e, ast.Call) and isinstance(e.func, ast.Attribute) and e.func.attr == "get" and e.args:
            base = self.path_of(e.func.value)
            k = self.key_of(e.args[0])
            if base is not None and k is not None:
                return base + (k,)
        return None


BOOL_WORDS = {"true", "false", "yes", "no"}
HELPERS: Dict[str, ast.AST] = {}   # module-level functions of dosini.py (filled by run)


def helper_is_bool_speller(f: ast.AST) -> bool:
    """A helper that normalises the spelling of boolean constants: it tests the (lower-cased) text for membership in a constant
    collection of boolean words and returns a .lower() of it under that test."""
    consts = [n for n in ast.walk(f) if isinstance(n, ast.Compare) and len(n.ops) == 1 and isinstance(n.ops[0], ast.In)
              and isinstance(n.comparators[0], (ast.Tuple, ast.List, ast.Set))
              and {e.value for e in n.comparators[0].elts if isinstance(e, ast.Constant)} >= {"true", "false"}]
    lowers = [n for n in ast.walk(f) if isinstance(n, ast.Return) and n.value is not None and any(
        isinstance(c, ast.Call) and last_attr(c) == "lower" for c in ast.walk(n.value))]
    return bool(consts) and bool(lowers)


def conv_kind_of_writer(value_expr: ast.AST) -> str:
    s = source.src(value_expr)
    if ".join(" in s:
        return "list"
    if s.endswith(".lower()") and "str(" in s:
        return "bool"
    if isinstance(value_expr, ast.Call) and isinstance(value_expr.func, ast.Name) and value_expr.func.id in HELPERS \
            and helper_is_bool_speller(HELPERS[value_expr.func.id]):
        return "bool"
    if s.startswith("str("):
        return "num"
    return "str"


def lambda_entries(fn_node: ast.AST, flowir_key: str, translate: Optional[Dict[str, str]]) -> List[Tuple[str, str]]:
    """(dosini key, converter kind) pairs produced by a converter (lambda or local def) for FlowIR key."""
    out: List[Tuple[str, str]] = []
    bodies: List[ast.AST] = []
    keyname = "key"
    if isinstance(fn_node, ast.Lambda):
        bodies = [fn_node.body]
        keyname = fn_node.args.args[0].arg if fn_node.args.args else "key"
    elif isinstance(fn_node, (ast.FunctionDef,)):
        bodies = [r.value for r in source.walk_own(fn_node) if isinstance(r, ast.Return) and r.value is not None]
        keyname = fn_node.args.args[0].arg if fn_node.args.args else "key"
        # key = translate_map[key] inside the converter
        translated = any(isinstance(n, ast.Assign) and isinstance(n.value, ast.Subscript) and dotted(n.value.value) == R["translate_map"]
                         for n in source.walk_own(fn_node))
        if not translated:
            translate = None
    for b in bodies:
        dicts = [d for d in ast.walk(b) if isinstance(d, ast.Dict)]
        for d in dicts:
            for k, v in zip(d.keys, d.values):
                if k is None:
                    continue
                ks = const_str(k)
                if ks is None and isinstance(k, ast.Name) and k.id == keyname:
                    ks = flowir_key
                    if translate is not None:
                        ks = translate.get(flowir_key, flowir_key)
                if ks is None:
                    raise AnalysisError("cannot determine the DOSINI key written for option %s (%s)" % (flowir_key, short(d)))
                out.append((ks, conv_kind_of_writer(v)))
    return out


def _is_none_identity(t: ast.AST) -> bool:
    if isinstance(t, ast.Compare) and len(t.ops) == 1 and isinstance(t.ops[0], (ast.Is, ast.IsNot)):
        return isinstance(t.comparators[0], ast.Constant) and t.comparators[0].value is None
    if isinstance(t, ast.BoolOp):
        return all(_is_none_identity(v) for v in t.values)
    if isinstance(t, ast.UnaryOp) and isinstance(t.op, ast.Not):
        return _is_none_identity(t.operand)
    return False


def _dict_keys(e: ast.AST) -> Optional[frozenset]:
    if isinstance(e, ast.Dict):
        return frozenset(source.src(k) for k in e.keys if k is not None)
    return None


def value_dependent_drops(conv: ast.AST) -> List[ast.AST]:
    """Conditionals in a converter that choose, by a test on the value other than None-identity, between results with
    different key sets."""
    args = conv.args.args
    vname = args[1].arg if len(args) > 1 else "value"

    def mentions_value(t: ast.AST) -> bool:
        return any(isinstance(x, ast.Name) and x.id == vname for x in ast.walk(t))
    bad: List[ast.AST] = []
    body_nodes = [conv.body] if isinstance(conv, ast.Lambda) else list(conv.body)
    for b in body_nodes:
        for n in ast.walk(b):
            if isinstance(n, ast.IfExp) and mentions_value(n.test) and not _is_none_identity(n.test):
                ka, kb = _dict_keys(n.body), _dict_keys(n.orelse)
                if (ka is not None or kb is not None) and ka != kb:
                    bad.append(n.test)
            if isinstance(n, ast.If) and mentions_value(n.test) and not _is_none_identity(n.test):
                def rets(stmts):
                    out = []
                    for st in stmts:
                        for x in ast.walk(st):
                            if isinstance(x, ast.Return):
                                out.append(_dict_keys(x.value) if x.value is not None else frozenset())
                    return out
                ra, rb = rets(n.body), rets(n.orelse)
                if (ra or rb) and set(ra) != set(rb):
                    bad.append(n.test)
    return bad


def dict_literal(e: ast.AST) -> Optional[Dict[str, ast.AST]]:
    if isinstance(e, ast.Dict) and all(const_str(k) is not None for k in e.keys):
        return {const_str(k): v for k, v in zip(e.keys, e.values)}
    return None


def extract_writer_table(ctx, m) -> Dict[Path, List[Tuple[str, str, ast.AST]]]:
    table: Dict[Path, List[Tuple[str, str, ast.AST]]] = {}
    writers = ["Dosini._comp_workflow_attributes_to_dict", "Dosini._comp_resource_request_to_dict",
               "Dosini._comp_resource_manager_to_str", "Dosini._comp_command_to_dict"]
    for q in writers:
        fn = m.func(q)
        ctx.analysed(fn)
        env = Env(fn, "comp")
        local_defs = {n.name: n for n in fn.body if isinstance(n, ast.FunctionDef)}
        translate = None
        subscripted = {x.value.id for f_ in local_defs.values() for x in ast.walk(f_) if isinstance(x, ast.Subscript) and isinstance(x.value, ast.Name)}
        for n in source.walk_own(fn):
            if isinstance(n, ast.Assign) and len(n.targets) == 1 and isinstance(n.targets[0], ast.Name) and n.targets[0].id in subscripted:
                d = dict_literal(n.value)
                if d is not None and d and all(const_str(v) is not None for v in d.values()):
                    translate = {k: const_str(v) for k, v in d.items()}
                    R["translate_map"] = n.targets[0].id
        # dict-of-dicts 'optional' keyed by group (resource manager)
        grouped_by_name: Dict[str, Dict[str, Dict[str, ast.AST]]] = {}
        for n in source.walk_own(fn):
            if isinstance(n, ast.Assign) and len(n.targets) == 1 and isinstance(n.targets[0], ast.Name):
                d = dict_literal(n.value)
                if d is not None and d and all(dict_literal(sub_) is not None for sub_ in d.values()):
                    gd = {g: dict_literal(sub_) for g, sub_ in d.items()}
                    grouped_by_name[n.targets[0].id] = gd
        calls = [c for c in source.calls_in(fn) if last_attr(c) == "_translate_dict_to_dict"]
        if not calls:
            raise AnalysisError("writer %s no longer goes through _translate_dict_to_dict" % q)
        for c in calls:
            kw = {k.arg: k.value for k in c.keywords}
            src_expr = c.args[0] if c.args else kw.get("field")
            opt = kw.get("optional") if "optional" in kw else (c.args[2] if len(c.args) > 2 else None)
            req = kw.get("required") if "required" in kw else (c.args[1] if len(c.args) > 1 else None)
            base = env.path_of(src_expr)
            if base is None:
                raise AnalysisError("cannot resolve the FlowIR path written by %s: %s" % (q, short(src_expr)))
            sources: List[Tuple[Path, Dict[str, ast.AST]]] = []
            for dexpr in (opt, req):
                if dexpr is None:
                    continue
                d = dict_literal(dexpr)
                if d is not None:
                    sources.append((base, d))
                elif isinstance(dexpr, ast.Subscript) and isinstance(dexpr.value, ast.Name) and dexpr.value.id in grouped_by_name:
                    # a table of tables indexed by the group: every group contributes its (possibly empty) table
                    for g, sd in grouped_by_name[dexpr.value.id].items():
                        if sd:
                            sources.append((tuple(x if not x.startswith("<") else g for x in base), sd))
                else:
                    raise AnalysisError("writer %s: cannot read the option table %s" % (q, short(dexpr)))
            for (b, d) in sources:
                for fk, conv in d.items():
                    node = conv
                    if isinstance(conv, ast.Name):
                        if conv.id not in local_defs:
                            raise AnalysisError("writer %s: unknown converter %s" % (q, conv.id))
                        node = local_defs[conv.id]
                    for (dk, kind) in lambda_entries(node, fk, translate):
                        table.setdefault(b + (fk,), []).append((dk, kind, conv))
    # executors
    fn = m.func("Dosini._comp_executors_to_str")
    ctx.analysed(fn)
    _er = [r.value.id for r in source.walk_own(fn) if isinstance(r, ast.Return) and isinstance(r.value, ast.Name)]
    ERET = _er[-1] if _er else "ret"
    for n in source.walk_own(fn):
        if isinstance(n, ast.Assign) and isinstance(n.targets[0], ast.Subscript) and dotted(n.targets[0].value) == ERET:
            k = const_str(n.targets[0].slice)
            if k:
                which = "pre" if "'pre'" in source.src(n.value) else "post" if "'post'" in source.src(n.value) else "?"
                table.setdefault(("executors", which, k), []).append((k, "str", n))
    return table


def conv_kind_of_reader(value_expr: ast.AST) -> str:
    if isinstance(value_expr, ast.Call):
        cn = call_name(value_expr) or ""
        if cn == "value_to_bool":
            return "bool"
        if cn in ("value_to_int", "value_to_float", "value_to_memorybytes"):
            return "num"
        if last_attr(value_expr) == "split":
            return "list"
    if isinstance(value_expr, ast.Name):
        return "str"
    return "other"


def tested_keys(test: ast.AST, fn: Optional[ast.AST] = None) -> Optional[List[str]]:
    cp = match.compare_parts(test)
    if not cp or not (isinstance(cp[0], ast.Name) and cp[0].id == R["key"]):
        return None
    if isinstance(cp[1], ast.In) and isinstance(cp[2], ast.Name) and fn is not None:
        # `key in <local>`: the local's one literal definition (adjacent string literals are already joined by the parser, so a
        # missing comma shows as one long key)
        vals = [v for v in match.assigned_value(fn, cp[2].id)]
        if len(vals) == 1 and isinstance(vals[0], (ast.List, ast.Tuple, ast.Set)):
            ks = [const_str(e) for e in vals[0].elts]
            if all(k is not None for k in ks):
                return ks  # type: ignore[return-value]
    if isinstance(cp[1], ast.Eq) and const_str(cp[2]) is not None:
        return [const_str(cp[2])]
    if isinstance(cp[1], ast.In) and isinstance(cp[2], (ast.List, ast.Tuple, ast.Set)):
        ks = [const_str(e) for e in cp[2].elts]
        if all(k is not None for k in ks):
            return ks  # type: ignore[return-value]
    return None


def extract_reader_table(ctx, m, translate: Dict[str, str]):
    fn = m.func("Dosini.parse_component")
    ctx.analysed(fn)
    # the chain: the If inside `for key in ...known_flowir_options()`
    loops = [n for n in source.walk_own(fn) if isinstance(n, ast.For) and "known_flowir_options" in source.src(n.iter)]
    if not loops:
        raise AnalysisError("anchor missing: loop over known_flowir_options() in parse_component")
    # roles: the loop variable (option key), the option's value (<vars>[key]), the translated key(s), the component dictionary
    if isinstance(loops[0].target, ast.Name):
        R["key"] = loops[0].target.id
    R["tkeys"] = {R["key"]}
    for n in ast.walk(loops[0]):
        if isinstance(n, ast.Assign) and len(n.targets) == 1 and isinstance(n.targets[0], ast.Name):
            v = n.value
            if isinstance(v, ast.Subscript) and isinstance(v.slice, ast.Name) and v.slice.id == R["key"]:
                if isinstance(v.value, ast.Name) and any(dict_literal(x) is not None for x in match.assigned_value(fn, v.value.id)):
                    R["tkeys"].add(n.targets[0].id)          # translated = <literal map>[key]
                else:
                    R["value"] = n.targets[0].id             # value = <variables>[key]
            elif isinstance(v, ast.Name) and v.id == R["key"]:
                R["tkeys"].add(n.targets[0].id)              # translated = key
    comp_stores: Dict[str, int] = {}
    for n in source.walk_own(fn):
        if isinstance(n, ast.Assign) and isinstance(n.targets[0], ast.Subscript) and isinstance(n.targets[0].value, ast.Name) \
                and isinstance(n.value, ast.Name) and const_str(n.targets[0].slice) in ("command", "workflowAttributes", "resourceManager", "resourceRequest", "executors"):
            comp_stores[n.targets[0].value.id] = comp_stores.get(n.targets[0].value.id, 0) + 1
    if comp_stores:
        R["component"] = max(comp_stores, key=lambda k: comp_stores[k])
    chain = [s for s in loops[0].body if isinstance(s, ast.If)]
    if not chain:
        raise AnalysisError("anchor missing: if/elif chain in parse_component")
    env = Env(fn, "<none>")
    # top-level dicts -> component field
    top: Dict[str, Path] = {}
    for n in source.walk_own(fn):
        if isinstance(n, ast.Assign) and isinstance(n.targets[0], ast.Subscript) and dotted(n.targets[0].value) == R["component"] \
                and isinstance(n.value, ast.Name):
            k = const_str(n.targets[0].slice)
            if k:
                top[n.value.id] = (k,)
    # lists stored into a top-level dictionary under a constant key:  executors['pre'] = <list>  =>  <list> -> (executors, pre)
    for n in source.walk_own(fn):
        if isinstance(n, ast.Assign) and isinstance(n.targets[0], ast.Subscript) and isinstance(n.targets[0].value, ast.Name) \
                and n.targets[0].value.id in top and isinstance(n.value, ast.Name) and const_str(n.targets[0].slice) \
                and any(isinstance(x, (ast.List, ast.Dict)) and not getattr(x, "elts", getattr(x, "keys", None)) for x in match.assigned_value(fn, n.value.id)):
            top.setdefault(n.value.id, top[n.targets[0].value.id] + (const_str(n.targets[0].slice),))
    top.setdefault("executors_pre", ("executors", "pre"))
    top.setdefault("executors_post", ("executors", "post"))
    top.setdefault("executors_main", ("executors", "main"))
    table: Dict[str, List[Tuple[Path, str, ast.AST]]] = {}
    branches = []
    node: Optional[ast.If] = chain[0]
    while node is not None:
        keys = tested_keys(node.test, fn)
        if keys is None:
            raise AnalysisError("parse_component: unrecognised branch condition %s" % short(node.test))
        branches.append((keys, node.body, node))
        nxt = node.orelse
        node = nxt[0] if len(nxt) == 1 and isinstance(nxt[0], ast.If) else None
    for keys, body, ifnode in branches:
        # local aliases inside the branch: memoization = workflowAttributes.get('memoization', {})
        local: Dict[str, Path] = dict(top)
        stores: List[Tuple[ast.AST, ast.AST]] = []
        for st in body:
            for n in ast.walk(st):
                if isinstance(n, ast.Assign) and len(n.targets) == 1:
                    t, v = n.targets[0], n.value
                    if isinstance(t, ast.Name):
                        p = _reader_path(v, local, None)
                        if p is not None:
                            local[t.id] = p
                        elif isinstance(v, ast.Call) and last_attr(v) == "get" and v.args and const_str(v.args[0]):
                            b = _reader_path(v.func.value, local, None)
                            if b is not None:
                                local[t.id] = b + (const_str(v.args[0]),)
                    elif isinstance(t, ast.Subscript):
                        stores.append((t, v))
                if isinstance(n, ast.Call) and last_attr(n) == "append" and isinstance(n.func.value, ast.Name) \
                        and n.func.value.id in local and n.args and isinstance(n.args[0], ast.Dict):
                    d = dict_literal(n.args[0])
                    if d and "name" in d:
                        stores.append((n.func.value, n.args[0]))
        for key in keys:
            tkey = translate.get(key, key)
            for (t, v) in stores:
                if isinstance(t, ast.Name):  # executors append
                    p = local[t.id] + (key,)
                    table.setdefault(key, []).append((p, "str", ifnode))
                    continue
                p = _reader_path(t, local, tkey)
                if p is None:
                    continue
                # stores of whole sub-dicts back into their parent (workflowAttributes['memoization'] = memoization) are plumbing
                if isinstance(v, ast.Name) and v.id in local and v.id not in (R["value"],):
                    continue
                if isinstance(v, ast.Dict):
                    continue
                kind = conv_kind_of_reader(v)
                if isinstance(v, ast.Name) and v.id != R["value"]:
                    # a branch-local variable: take the converter of its (non-None) definitions in this branch
                    kinds = set()
                    for st in body:
                        for n2 in ast.walk(st):
                            if isinstance(n2, ast.Assign) and any(isinstance(t2, ast.Name) and t2.id == v.id for t2 in n2.targets) \
                                    and not (isinstance(n2.value, ast.Constant) and n2.value.value is None):
                                kinds.add(conv_kind_of_reader(n2.value))
                    if len(kinds) == 1:
                        kind = kinds.pop()
                # branches that choose the converter by key (optimizer): take the converter matching this key
                table.setdefault(key, []).append((p, kind, v))
    return table, branches


def _reader_path(e: ast.AST, local: Dict[str, Path], tkey: Optional[str]) -> Optional[Path]:
    if isinstance(e, ast.Name):
        return local.get(e.id)
    if isinstance(e, ast.Subscript):
        base = _reader_path(e.value, local, tkey)
        if base is None:
            return None
        c = const_str(e.slice)
        if c is not None:
            return base + (c,)
        if isinstance(e.slice, ast.Name) and e.slice.id in R["tkeys"] and tkey is not None:
            return base + (tkey,)
    return None


def class_dict(cls: ast.ClassDef, name: str) -> Optional[Dict[str, Optional[str]]]:
    for st in cls.body:
        if isinstance(st, ast.Assign) and any(isinstance(t, ast.Name) and t.id == name for t in st.targets):
            d = dict_literal(st.value)
            if d is not None:
                return {k: const_str(v) for k, v in d.items()}
    return None


def class_set(cls: ast.ClassDef, name: str) -> Optional[Set[str]]:
    for st in cls.body:
        if isinstance(st, ast.Assign) and any(isinstance(t, ast.Name) and t.id == name for t in st.targets):
            v = st.value
            if isinstance(v, ast.Call) and call_name(v) == "set" and v.args:
                v = v.args[0]
            if isinstance(v, (ast.List, ast.Set, ast.Tuple)):
                vals = [const_str(e) for e in v.elts]
                if all(x is not None for x in vals):
                    return set(vals)  # type: ignore[arg-type]
    return None


def check_stage_file_index(ctx, m) -> None:
    import re as _re
    rule = "C19.R9-stage-file-index"
    ds = m.func("Dosini._discover_stages")
    ctx.analysed(ds)
    # what becomes the key of the stage -> path table
    stores = [n for n in source.walk_own(ds) if isinstance(n, ast.Assign) and len(n.targets) == 1 and isinstance(n.targets[0], ast.Subscript)
              and isinstance(n.targets[0].slice, ast.Name)]
    ctx.require(bool(stores), "anchor missing: stage_to_paths[<index>] = path in _discover_stages")
    for st in stores:
        idx = st.targets[0].slice.id
        vals = match.assigned_value(ds, idx)
        ints = [v for v in vals if isinstance(v, ast.Call) and call_name(v) == "int" and v.args]
        ctx.require(bool(ints), "cannot see how the stage index %s is computed" % idx)
        for iv in ints:
            arg = iv.args[0]
            ok, why = False, "unrecognised form %s" % short(arg, 50)
            if isinstance(arg, ast.Subscript) and isinstance(arg.slice, ast.Slice) and arg.slice.upper is None:
                ok, why = True, "everything after the prefix"
            elif isinstance(arg, ast.Call) and last_attr(arg) == "group" and arg.args and isinstance(arg.args[0], ast.Constant):
                gno = arg.args[0].value
                mobj = arg.func.value
                pat_text = None
                if isinstance(mobj, ast.Name):
                    for mv in match.assigned_value(ds, mobj.id):
                        if isinstance(mv, ast.Call) and last_attr(mv) in ("match", "fullmatch", "search"):
                            recv = mv.func.value
                            cands = []
                            if isinstance(recv, ast.Name):
                                cands = match.assigned_value(ds, recv.id) or [n_.value for n_ in m.tree.body if isinstance(n_, ast.Assign)
                                                                             and any(isinstance(t, ast.Name) and t.id == recv.id for t in n_.targets)]
                            elif isinstance(recv, ast.Attribute):
                                cands = [n_.value for c_ in ast.walk(m.tree) if isinstance(c_, ast.ClassDef) for n_ in c_.body
                                         if isinstance(n_, ast.Assign) and any(isinstance(t, ast.Name) and t.id == recv.attr for t in n_.targets)]
                            for cv in cands:
                                if isinstance(cv, ast.Call) and (call_name(cv) or "").endswith("compile") and cv.args and isinstance(cv.args[0], ast.Constant):
                                    pat_text = cv.args[0].value
                            if pat_text is None and (call_name(mv) or "").startswith("re.") and mv.args and isinstance(mv.args[0], ast.Constant):
                                pat_text = mv.args[0].value
                if pat_text is None:
                    ok, why = False, "the pattern behind %s cannot be resolved" % short(arg, 40)
                else:
                    parsed = _re._parser.parse(pat_text)

                    def find_group(seq, inside_repeat: bool):
                        for op, av in seq:
                            name = str(op)
                            if name == "SUBPATTERN":
                                g, _a, _b, sub = av
                                if g == gno:
                                    return sub, inside_repeat
                                r = find_group(sub, inside_repeat)
                                if r:
                                    return r
                            elif name in ("MAX_REPEAT", "MIN_REPEAT", "POSSESSIVE_REPEAT"):
                                lo, hi, sub = av
                                r = find_group(sub, True if (hi is None or hi > 1 or str(hi) == "MAXREPEAT") else inside_repeat)
                                if r:
                                    return r
                            elif name == "BRANCH":
                                for alt in av[1]:
                                    r = find_group(alt, inside_repeat)
                                    if r:
                                        return r
                        return None
                    found = find_group(parsed, False)
                    if not found:
                        ok, why = False, "group %s does not exist in %r" % (gno, pat_text)
                    else:
                        sub, in_rep = found
                        body = list(sub)
                        whole = len(body) == 1 and str(body[0][0]) in ("MAX_REPEAT", "POSSESSIVE_REPEAT") and body[0][1][0] >= 1
                        if in_rep:
                            ok, why = False, ("in %r group %s is itself repeated: a repeated group keeps only its LAST repetition, so 'stage10' "
                                              "yields index 0 and 'stage23' index 3" % (pat_text, gno))
                        elif not whole:
                            ok, why = False, "group %s of %r does not enclose a repetition of digits" % (gno, pat_text)
                        else:
                            ok, why = True, "group %s encloses the digit repetition" % gno
            ctx.ob(rule, iv, ok,
                   "the stage index is %s" % why if ok else
                   "the stage index is not the whole number printed by the writer (%s): with more than ten stages several files map to the same "
                   "index, the 'missing stage files' test stays silent, and the components of the later stages are lost or replace those of "
                   "stage (index mod 10)" % why, construct="_discover_stages: %s = %s" % (idx, short(iv, 50)))


def check_missing_not_none(ctx, m) -> None:
    RID = "C19.R10-missing-is-not-the-text-None"
    for reader, writer, label in (("Dosini.parse_output", "Dosini._dump_output", "[Output]"), ("Dosini.parse_status", "Dosini._dump_status", "[Status]")):
        _missing_not_none(ctx, m, RID, m.func(reader), m.func(writer), label)


def _missing_not_none(ctx, m, RID, po, do, label) -> None:
    ctx.analysed(po)
    ctx.analysed(do)
    # accessors of the reader that answer None for a missing option: nested functions with an implicit / explicit `return None` path
    accessors = set()
    for f in ast.walk(po):
        if isinstance(f, ast.FunctionDef) and f is not po:
            rets = [r for r in ast.walk(f) if isinstance(r, ast.Return)]
            falls = not isinstance(f.body[-1], ast.Return)
            if falls or any(r.value is None or (isinstance(r.value, ast.Constant) and r.value.value is None) for r in rets):
                accessors.add(f.name)
    optional = set()
    for a in source.walk_own(po, include_nested=False):
        if isinstance(a, ast.Assign) and isinstance(a.value, ast.Call) and isinstance(a.value.func, ast.Name) and a.value.func.id in accessors \
                and a.value.args and isinstance(a.value.args[0], ast.Constant):
            optional.add(a.value.args[0].value)
    ctx.floor(RID, len(optional), 1, "options of the %s section read with the None-when-missing accessor" % label)
    cfg = CFG(do)
    n = 0
    for nd in cfg.nodes:
        if nd.kind != "stmt" or nd.ast is None:
            continue
        for c in own_calls(nd.ast):
            if last_attr(c) == "set" and len(c.args) == 3 and isinstance(c.args[2], ast.Call) and call_name(c.args[2]) == "str" and c.args[2].args:
                val = c.args[2].args[0]
                # which keys does this write cover: a literal key, a loop variable over a literal list, or a loop variable over the
                # keys of the stored section itself (then: every key the reader may have stored)
                keys = set()
                kx = c.args[1]
                if isinstance(kx, ast.Constant):
                    keys = {kx.value}
                elif isinstance(kx, ast.Name):
                    for lp in source.walk_own(do):
                        if isinstance(lp, ast.For) and isinstance(lp.target, ast.Name) and lp.target.id == kx.id:
                            if isinstance(lp.iter, (ast.List, ast.Tuple)):
                                keys |= {e.value for e in lp.iter.elts if isinstance(e, ast.Constant)}
                            else:
                                keys |= optional
                if not (keys & optional):
                    continue
                n += 1
                tests = match.test_nodes(cfg, lambda t, val=val: (
                    ("F" if isinstance(match.compare_parts(t)[1], (ast.Is, ast.Eq)) else "T")
                    if (match.compare_parts(t) and source.src(match.compare_parts(t)[0]) == source.src(val)
                        and isinstance(match.compare_parts(t)[2], ast.Constant) and match.compare_parts(t)[2].value is None) else None))
                ok = bool(tests) and match.only_via_edges(cfg, nd, tests)
                ctx.ob(RID, c, ok,
                       "%s is written only when it is not None" % short(val, 30) if ok else
                       "%s writes str(%s) for %s although %s stores None for an option the section does not have: the option is written as "
                       "the text 'None' (or the writer's assertion on the value fails) and the instance does not survive a second "
                       "write/reload" % (do.name, short(val, 30), sorted(keys & optional), po.name),
                       construct="%s: str(%s) <- is not None" % (do.name, short(val, 30)))
    ctx.floor(RID, n, 1, "writes of optional %s keys in %s" % (label, do.name))


def check_stage_files_contiguous(ctx, m) -> None:
    RID = "C19.R11-one-stage-file-per-index"
    ds = m.func("Dosini._discover_stages")
    dc = m.func("Dosini._dump_components")
    ctx.analysed(dc)
    # the reader's requirement (so the rule follows the reader if it is relaxed): set(found) != set(range(n)) -> raise
    requires = any(isinstance(t, ast.Compare) and any(isinstance(x, ast.Call) and call_name(x) == "range" for x in ast.walk(t))
                   and any(isinstance(x, ast.Call) and call_name(x) == "set" for x in ast.walk(t))
                   and any(isinstance(r, ast.Raise) for r in ast.walk(iff))
                   for iff in source.walk_own(ds) if isinstance(iff, ast.If) for t in [iff.test])
    loops = [lp for lp in source.walk_own(dc) if isinstance(lp, ast.For) and any(
        isinstance(c, ast.Call) and last_attr(c) == "write" for c in ast.walk(lp)) and any(
        isinstance(x, ast.Constant) and isinstance(x.value, str) and x.value.startswith("stage%d") for x in ast.walk(lp))]
    ctx.floor(RID, len(loops), 1, "loops of _dump_components that write the stage files")
    for lp in loops:
        it = lp.iter
        bound = match.resolve_local(dc, it.args[0]) if isinstance(it, ast.Call) and call_name(it) == "range" and len(it.args) == 1 else None
        # len(X) counts the highest index + 1 only when X has an entry per index: a mapping keyed by the stages that HAVE components
        # (X = {} filled with X[<stage>] = ..) is sparse, its length is the number of non-empty stages (seed C19-13)
        def sparse(x: ast.AST) -> bool:
            if not isinstance(x, ast.Name):
                return False
            vals = match.assigned_value(dc, x.id)
            mapping = any(isinstance(v, (ast.Dict, ast.DictComp)) or (isinstance(v, ast.Call) and (call_name(v) or "").split(".")[-1] in (
                "dict", "defaultdict", "OrderedDict")) for v in vals)
            keyed = any(isinstance(st, ast.Assign) and any(isinstance(t, ast.Subscript) and isinstance(t.value, ast.Name) and t.value.id == x.id
                                                          and not isinstance(t.slice, ast.Constant) for t in st.targets)
                        for st in source.walk_own(dc))
            return mapping or keyed
        contiguous = bound is not None and any(
            isinstance(x, ast.Call) and (call_name(x) == "max" or (call_name(x) == "len" and x.args and not sparse(x.args[0])))
            for x in ast.walk(bound))
        ok = contiguous or not requires
        ctx.ob(RID, lp, ok,
               "a stage file is written for every index below the highest stage" if contiguous else
               ("the reader does not require contiguous stage files" if ok else
                "_dump_components writes a stage file only for %s while _discover_stages requires the files 0..N-1: a stage without "
                "components (its stage file holds only [META]) is skipped, the instance is written as stage0 + stage2 and cannot be "
                "loaded ('Missing stage files (present: [0, 2])')" % short(it, 40)),
               construct="_dump_components: for <stage> in range(<highest>+1)")


def check_section_prefix(ctx, m) -> None:
    """The writers name an environment section '<PREFIX>%s' % <name>.upper(); the reader takes the prefix off again.  The only
    inverse of 'prepend P' is 'drop the first len(P) characters' (a slice from len(P), or removeprefix): a substitution or a
    replace() removes every later occurrence of the prefix text as well ('conda-env-py3' -> 'conda-py3')."""
    RID = "C19.R13-section-prefix-is-sliced-off"
    prefixes = set()
    for q, f in m.functions.items():
        if not q.startswith("Dosini._dump"):
            continue
        for b in ast.walk(f):
            if isinstance(b, ast.BinOp) and isinstance(b.op, ast.Mod) and isinstance(b.left, ast.Constant) and isinstance(b.left.value, str) \
                    and b.left.value.endswith("%s") and b.left.value[:-2].endswith("-") and "%" not in b.left.value[:-2]:
                prefixes.add(b.left.value[:-2])
    ctx.floor(RID, len(prefixes), 1, "section-name prefixes printed by the writers ('ENV-%s')")
    n = 0
    for q, f in sorted(m.functions.items()):
        if not q.startswith("Dosini.") or q.startswith("Dosini._dump"):
            continue
        # names tested with <name>[.upper()].startswith(<prefix>)
        tested = {}
        for c in ast.walk(f):
            if isinstance(c, ast.Call) and last_attr(c) == "startswith" and c.args and isinstance(c.args[0], ast.Constant) and c.args[0].value in prefixes:
                recv = c.func.value
                while isinstance(recv, ast.Call) and isinstance(recv.func, ast.Attribute) and recv.func.attr in ("upper", "lower", "strip"):
                    recv = recv.func.value
                if isinstance(recv, ast.Name):
                    tested[recv.id] = c.args[0].value
        if not tested:
            continue
        ctx.analysed(f)
        for a in source.walk_own(f):
            if isinstance(a, ast.Assign) and len(a.targets) == 1 and isinstance(a.targets[0], ast.Name) and a.targets[0].id in tested \
                    and a.targets[0].id in source.names_in(a.value):
                nm, pref = a.targets[0].id, tested[a.targets[0].id]
                v = a.value
                sliced = isinstance(v, ast.Subscript) and isinstance(v.value, ast.Name) and v.value.id == nm and isinstance(v.slice, ast.Slice) \
                    and v.slice.upper is None and v.slice.step is None and (
                        (isinstance(v.slice.lower, ast.Constant) and v.slice.lower.value == len(pref))
                        or (isinstance(v.slice.lower, ast.Call) and call_name(v.slice.lower) == "len" and v.slice.lower.args
                            and isinstance(v.slice.lower.args[0], ast.Constant) and v.slice.lower.args[0].value == pref))
                n += 1
                ctx.ob(RID, a, sliced,
                       "the reader drops exactly the %d characters of the prefix %r" % (len(pref), pref) if sliced else
                       "the reader takes the prefix %r off with %s: anything but a slice from %d also changes names that contain the prefix text "
                       "further on (written [ENV-CONDA-ENV-PY3], read back as 'conda-py3'; components that name the environment then refer to "
                       "an unknown one)" % (pref, short(v, 60), len(pref)), construct="%s: <name> = <name>[len(%r):]" % (f.name, pref))
    ctx.floor(RID, n, 1, "assignments of the reader that take a section-name prefix off")


def check_defaults_only_for_the_missing(ctx, m) -> None:
    from vlib import escape
    RID = "C19.R12-default-only-for-what-is-missing"
    fns = [f for q, f in sorted(m.functions.items()) if q.startswith("Dosini.") and not any(
        q.startswith(o + ".") and o != q for o in m.functions if o.startswith("Dosini."))]
    tries = 0
    for f in fns:
        own = [t for t in source.walk_own(f) if isinstance(t, ast.Try) and any(
            isinstance(x, ast.Name) and isinstance(x.ctx, ast.Store) for h in t.handlers for st in h.body for x in ast.walk(st))]
        if not own:
            continue
        tries += len(own)
        ctx.analysed(f)
        bad = {id(t): (nm, st, later) for (t, h, nm, st, later) in escape.handler_discards_found(f)}
        for t in own:
            hit = bad.get(id(t))
            ctx.ob(RID, t, hit is None,
                   "the handler's default replaces only a value whose own look-up is the last raising statement of the try body" if hit is None else
                   "the handler resets %s, which the try body had already found (%s), whenever the LATER statement %s raises: a description "
                   "that has the one value and not the other is written without the one it has (stage variables of a description without "
                   "global variables never reach [META] of the stage files, and cannot be resolved after the reload)"
                   % (hit[0], short(hit[1], 50), short(hit[2], 50)), construct="try: <look-ups> except: <defaults> in %s" % f.name)
    ctx.floor(RID, len(fns), 20, "functions of the Dosini writer/reader inspected for default-binding handlers")


def check_stale_stage_files_removed(ctx, m) -> None:
    """The reader finds the stage files by LISTING the directory (glob 'stage*..conf').  A writer that updates an existing directory
    must therefore remove what a listing finds, not the files the new description happens to name: a shorter description would leave
    the old stageK file behind, and the reader would load its components on top of what was written."""
    RID = "C19.R11-one-stage-file-per-index"
    dump = m.func("Dosini.dump")
    ctx.analysed(dump)

    def lists_stage_files(e: ast.AST) -> bool:
        return any(isinstance(c, ast.Call) and (call_name(c) or "").endswith("glob") and any(
            isinstance(x, ast.Constant) and isinstance(x.value, str) and x.value.startswith("stage*") for x in ast.walk(c)) for c in ast.walk(e))
    from vlib import flow
    cfg_d = CFG(dump)

    def from_listing(name: str, at_node, depth: int = 0) -> bool:
        """some reaching definition of `name` at this node is (derived from) a listing of the stage files"""
        if depth > 5:
            return False
        rd = flow.reaching_defs(cfg_d, name, ignore_labels=("exc",)).get(at_node.id, frozenset())
        for d in rd:
            if d < 0:
                continue
            v = flow.def_value(cfg_d, d, name)
            if v is None:
                continue
            if lists_stage_files(v):
                return True
            if any(from_listing(nm, cfg_d.nodes[d], depth + 1) for nm in set(source.names_in(v))):
                return True
        return False
    removal_loops = [lp for lp in source.walk_own(dump) if isinstance(lp, ast.For) and any(
        isinstance(c, ast.Call) and call_name(c) in ("os.remove", "os.unlink") for c in ast.walk(lp))]
    ctx.floor(RID, len(removal_loops), 1, "loops of Dosini.dump that remove files of an existing directory")
    for lp in removal_loops:
        fn_ = [n for n in cfg_d.nodes if n.kind == "for" and n.ast is lp]
        ok = bool(fn_) and any(from_listing(nm, fn_[0]) for nm in set(source.names_in(lp.iter)))
        ctx.ob(RID, lp, ok,
               "the files removed before an update include what a listing of stages.d finds (the reader lists the directory too)" if ok else
               "Dosini.dump removes only files it derives from the NEW description (%s): when the directory holds stage0..N from an earlier write and "
               "the next description has fewer stages, stageK.instance.conf survives, _discover_stages still sees contiguous indices and the "
               "reloaded instance has the stale stage's components on top of what was written" % short(lp.iter, 40),
               construct="dump: stale stage files are found by listing stages.d")


def check_static_tables(ctx, m, cls) -> None:
    from vlib import state
    rule = "C19.R7-static-option-tables"
    consts = state.class_mutable_constants(cls)
    ctx.require({"_known_flowir", "_translate_map"} <= consts or "_translate_map" in consts,
                "anchor missing: Dosini._translate_map / _known_flowir are no longer class-level displays")
    tables = {c for c in consts if c in ("_known_flowir", "_translate_map")} | {c for c in consts if "known" in c.lower() or "translate" in c.lower()}
    # accessors: methods of Dosini that return something built from a table
    accessors = []
    for q, f in m.functions.items():
        if not q.startswith("Dosini.") or q.count(".") != 1:
            continue
        rets = [r for r in source.walk_own(f) if isinstance(r, ast.Return) and r.value is not None]
        reads_table = any(isinstance(x, ast.Attribute) and x.attr in tables for x in ast.walk(f))
        small = sum(1 for _ in ast.walk(f)) < 120
        if rets and reads_table and small:
            accessors.append((q, f))
    ctx.floor(rule, len(accessors), 2, "accessors of the class-level option tables")
    for q, f in accessors:
        ctx.analysed(f)
        eff = state.nonlocal_effects(f)
        ctx.ob(rule, eff[0] if eff else f, not eff,
               "%s keeps no state" % q if not eff else
               "%s stores state on the class (%s): what it returns is then shared between calls; validate_component extends the "
               "returned list with the backend's option names (sim_* for the simulator), after which parse_component removes those "
               "names from every component's variables although no branch files them - the variables are lost on reload, for "
               "every later load in the process" % (q, short(eff[0], 70)), construct="%s is stateless" % q)
        stale = state.stale_returns(f)
        ctx.ob(rule, stale[0][0] if stale else f, not stale,
               "%s returns a fresh object on every call" % q if not stale else
               "%s can return an object that outlives the call (%s): a caller that extends it changes the table for every later caller"
               % (q, stale[0][1]), construct="%s returns a fresh object" % q)
    n_fn = 0
    hits = []
    for q, f in m.functions.items():
        if not any(isinstance(x, ast.Attribute) and x.attr in consts for x in ast.walk(f)):
            continue
        n_fn += 1
        for (node, cname, how) in state.shared_constant_mutations(f, consts, {"Dosini"}):
            if cname.startswith("_suppressed"):
                continue
            hits.append((q, node, cname, how))
    for (q, node, cname, how) in hits:
        ctx.ob(rule, node, False, "%s mutates the class-level table Dosini.%s in place (%s)" % (q, cname, how),
               construct="%s: in-place mutation of Dosini.%s" % (q, cname))
    if not hits:
        ctx.ob(rule, cls, True, "none of the %d functions reading a class-level table of Dosini mutates it in place" % n_fn,
               construct="class-level tables of Dosini are never mutated in place")


CASE_METHODS = {"lower", "upper", "title", "capitalize", "swapcase", "casefold"}


def check_writer_keeps_text(ctx, m, wt) -> None:
    from vlib.cfg import CFG
    rule = "C19.R8-writer-keeps-text"

    def is_bool_word_test(t: ast.AST) -> bool:
        return isinstance(t, ast.Compare) and len(t.ops) == 1 and isinstance(t.ops[0], ast.In) \
            and isinstance(t.comparators[0], (ast.Tuple, ast.List, ast.Set)) and t.comparators[0].elts \
            and all(isinstance(e, ast.Constant) and isinstance(e.value, str) and e.value.lower() in BOOL_WORDS for e in t.comparators[0].elts)

    def unguarded_in_expr(e: ast.AST) -> List[ast.AST]:
        """case-changing calls in an expression that are not confined to the true arm of `<..> in (<boolean words>)`"""
        out: List[ast.AST] = []

        def walk(x: ast.AST, guarded: bool) -> None:
            if isinstance(x, ast.IfExp):
                walk(x.test, True)      # inside a test nothing is written
                walk(x.body, guarded or is_bool_word_test(x.test))
                walk(x.orelse, guarded)
                return
            if isinstance(x, ast.Compare) and is_bool_word_test(x):
                return
            if isinstance(x, ast.Call) and isinstance(x.func, ast.Attribute) and x.func.attr in CASE_METHODS and not guarded:
                out.append(x)
            for ch in ast.iter_child_nodes(x):
                walk(ch, guarded)
        walk(e, False)
        return out

    def unguarded_in_function(f: ast.AST) -> List[ast.AST]:
        cfg = CFG(f)
        tests = match.test_nodes(cfg, lambda t: "T" if is_bool_word_test(t) else None)
        out: List[ast.AST] = []
        for n in cfg.nodes:
            if n.kind != "stmt" or n.ast is None or isinstance(n.ast, (ast.FunctionDef, ast.ClassDef)):
                continue
            calls = unguarded_in_expr(n.ast)
            if calls and not (tests and match.only_via_edges(cfg, n, tests)):
                # assignments to a local that is only tested are harmless; only written/returned text matters
                if isinstance(n.ast, ast.Return) or (isinstance(n.ast, ast.Assign) and any(
                        isinstance(r, ast.Return) and r.value is not None and any(
                            isinstance(t, ast.Name) and t.id in source.names_in(r.value) for t in n.ast.targets)
                        and not (tests and match.only_via_edges(cfg, rn, tests))
                        for rn in cfg.nodes if rn.kind == "stmt" and isinstance(rn.ast, ast.Return) for r in [rn.ast])):
                    out.extend(calls)
        return out
    seen = set()
    n = 0
    helpers_used: Set[str] = set()
    for path, entries in sorted(wt.items()):
        for (dk, kind, node) in entries:
            if isinstance(node, ast.Name):
                defs = [f for q, wf in m.functions.items() if q.startswith("Dosini._comp_") and q.count(".") == 1
                        for f in wf.body if isinstance(f, ast.FunctionDef) and f.name == node.id
                        and wf.lineno <= node.lineno <= (wf.end_lineno or 10 ** 9)]
                if not defs:
                    continue
                node = defs[0]
            if id(node) in seen or not isinstance(node, (ast.Lambda, ast.FunctionDef)):
                continue
            seen.add(id(node))
            n += 1
            bad = unguarded_in_expr(node.body) if isinstance(node, ast.Lambda) else unguarded_in_function(node)
            for c in ast.walk(node):
                if isinstance(c, ast.Call) and isinstance(c.func, ast.Name) and c.func.id in HELPERS:
                    helpers_used.add(c.func.id)
            ctx.ob(rule, bad[0] if bad else node, not bad,
                   "the converter of %s writes the text as it is (boolean constants apart)" % "/".join(path) if not bad else
                   "the converter of %s changes the case of whatever it writes (%s): '%%(DoAggregate)s' is written as '%%(doaggregate)s' "
                   "and refers to an unknown variable after reload" % ("/".join(path), short(bad[0], 40)),
                   construct="converter %s -> %s keeps the text" % ("/".join(path), dk))
    for h in sorted(helpers_used):
        f = HELPERS[h]
        ctx.analysed(f)
        bad = unguarded_in_function(f)
        n += 1
        ctx.ob(rule, bad[0] if bad else f, not bad,
               "%s changes the case of boolean constants only" % h if not bad else
               "%s returns case-changed text for values that are not boolean constants (%s)" % (h, short(bad[0], 40)),
               construct="helper %s keeps the text" % h)
    ctx.floor(rule, n, 15, "writer converters and their helpers")


def check_glob_directories_escaped(ctx, m) -> None:
    RID = "C19.R15-directories-in-glob-patterns-are-escaped"
    n = 0
    for q, f in m.functions.items():
        for c in source.calls_in(f, include_nested=False):
            if call_name(c) not in ("glob.glob", "glob.iglob") or not c.args:
                continue
            n += 1
            pat = c.args[0]
            # the run-time parts of the pattern: everything that is not a string constant
            parts = pat.args if isinstance(pat, ast.Call) and call_name(pat) == "os.path.join" else [pat]

            def escaped(e: ast.AST, depth: int = 0) -> bool:
                if isinstance(e, ast.Constant):
                    return True
                if isinstance(e, ast.Call) and call_name(e) == "glob.escape":
                    return True
                if isinstance(e, ast.Name) and depth < 3:
                    vals = match.assigned_value(f, e.id)
                    return bool(vals) and all(escaped(v, depth + 1) for v in vals)
                if isinstance(e, ast.Call) and call_name(e) == "os.path.join":
                    return all(escaped(a_, depth + 1) for a_ in e.args)
                return False
            bad = [p_ for p_ in parts if not escaped(p_)]
            ctx.ob(RID, c, not bad,
                   "%s: the directory inside the glob pattern is escaped" % q if not bad else
                   "%s builds a glob pattern from the run-time directory %s without glob.escape: an instance directory whose path contains '[1]', '*' or '?' "
                   "matches nothing - 0 stage files are accepted silently and the instance loads as an empty workflow (the written components are "
                   "lost on reload)" % (q, short(bad[0], 30)),
                   construct="%s: %s" % (q, short(c, 70)))
    ctx.floor(RID, n, 4, "glob patterns in dosini.py")


def check_one_text_encoding(ctx, m) -> None:
    """Writers: text-mode open(.., 'w') of dosini.py; readers: the encoding handed to ConfigParser.read by the parser subclass (its
    fallback when the caller gives none) and by explicit callers.  A byte above 0x7F written in one encoding and decoded in another comes
    back as different characters without any error ('é' -> 'Ã©'), for every value of the instance at once."""
    import codecs

    def norm(e: Optional[ast.AST]) -> Optional[str]:
        if e is None or (isinstance(e, ast.Constant) and e.value is None):
            return "utf-8"          # platform default: see ctx.assume below
        if isinstance(e, ast.Constant) and isinstance(e.value, str):
            try:
                return codecs.lookup(e.value).name
            except LookupError:
                return "?" + e.value
        return None                 # not a constant: undecided
    writers = []
    for q, f in m.functions.items():
        for c in source.calls_in(f, include_nested=False):
            if call_name(c) in ("open", "io.open", "codecs.open") and len(c.args) >= 2 and isinstance(c.args[1], ast.Constant) \
                    and isinstance(c.args[1].value, str) and any(ch in c.args[1].value for ch in "wa") and "b" not in c.args[1].value:
                enc = next((k.value for k in c.keywords if k.arg == "encoding"), None)
                writers.append((c, norm(enc)))
    readers = []
    for q, f in m.functions.items():
        for c in source.calls_in(f, include_nested=False):
            if last_attr(c) == "read" and any(k.arg == "encoding" for k in c.keywords):
                ev = next(k.value for k in c.keywords if k.arg == "encoding")
                vals = [ev]
                if isinstance(ev, ast.Name):
                    vals = match.assigned_value(f, ev.id) or [ev]
                for v in vals:
                    # `given or <fallback>`: the fallback is what a caller that names no encoding gets
                    if isinstance(v, ast.BoolOp) and isinstance(v.op, ast.Or):
                        v = v.values[-1]
                    if isinstance(v, ast.Name) and v.id in {a.arg for a in f.args.args}:
                        continue            # the caller's own choice, passed through
                    readers.append((c, norm(v)))
    ctx.floor("C19.R14-one-text-encoding", len(writers), 5, "text-mode writers in dosini.py")
    ctx.floor("C19.R14-one-text-encoding", len(readers), 1, "encodings handed to ConfigParser.read in dosini.py")
    ctx.assume("a text file opened without an encoding uses the platform default, which is UTF-8 (Python >= 3.7 under a UTF-8 or C/POSIX locale)")
    wenc = {e for (_, e) in writers if e is not None}
    for (c, e) in readers:
        ok = e is None or wenc <= {e}
        ctx.ob("C19.R14-one-text-encoding", c, ok,
               "the reader decodes with %s, the writers encode with %s" % (e or "an encoding chosen at run time", sorted(wenc)) if ok else
               "the reader decodes the configuration files as %s while the writers encode them as %s: every byte above 0x7F comes back as other "
               "characters, silently ('é' in an argument, a variable, an environment value or a description is loaded as 'Ã©'), and the damage "
               "compounds with every further write-then-load" % (e, "/".join(sorted(wenc))),
               construct="encoding of %s equals the writers' encoding" % short(c, 50))


def run(ctx) -> None:
    ctx.explanation = (
        "Literal-table agreement between the DOSINI writers and the reader: every option the dumper writes under key k "
        "from FlowIR path p must be a known key, be tested by a branch of parse_component, be stored back into p and be "
        "converted with a converter of the matching kind; the two translate maps must be inverse; status/output section "
        "keys must agree. Covers every option at once (the suite dumps the options one sample package uses). Value "
        "equality after a round trip is not decided.")
    ctx.rule("C19.R1-writer-reader-agreement", "each written (path, key, kind) has a reader branch testing the key, storing into the same path with a matching converter")
    ctx.rule("C19.R2-translate-maps-inverse", "the writer's FlowIR->DOSINI map is the inverse of Dosini._translate_map on its options")
    ctx.rule("C19.R3-sections", "status/output section writers and readers use the same keys")
    ctx.rule("C19.R5-writer-total", "a converter writes its key for every value that is not None: the only value tests that may "
                                    "select an arm without the key are 'is None' / 'is not None' (0, False, '' and [] are values)")
    ctx.rule("C19.R6-parser-is-value-transparent", "the ConfigParser subclass used for writing and reading does not transform values "
             "or keys on the way in: no inline-comment stripping, raw (un-interpolated) reads, case-preserving option names - the "
             "writers emit values verbatim and the format has no escaping")
    ctx.rule("C19.R7-static-option-tables", "the set of known option names the reader files away is the static table: the accessors of the "
             "class-level tables (known_flowir_options, dosini_to_flowir_translate_map) keep no state and return a fresh object on "
             "every call, and no function of dosini.py mutates a class-level table in place (callers extend the returned list with "
             "backend-specific names; a shared list would make the reader swallow those names as options without a branch)")
    ctx.rule("C19.R8-writer-keeps-text", "a writer converter changes the case of the text it writes only when that text is one of the boolean "
             "constants: anything else may be a %(Reference)s to a (case-sensitive) variable name")
    ctx.rule("C19.R9-stage-file-index", "the reader takes the WHOLE decimal index out of a stage file name (the writer prints 'stage%d'): "
             "a slice after the 'stage' prefix, or a regular-expression group that encloses the digit repetition")
    ctx.rule("C19.R10-missing-is-not-the-text-None", "the [Output] keys the reader fetches with its None-when-missing accessor are written only when "
             "their value is not None: str(None) comes back as the string 'None'")
    ctx.rule("C19.R11-one-stage-file-per-index", "the reader requires the stage files 0..N-1 to be all present, so the writer's loop over the "
             "stages runs over range(<highest stage>+1), not only over the stages that have components")
    ctx.rule("C19.R13-section-prefix-is-sliced-off", "the prefix the writers put in front of an environment's name ('ENV-%s') is taken off by the reader with a "
             "slice from len(prefix) on the name it tested with startswith(prefix): no substitution, replace or strip")
    ctx.rule("C19.R12-default-only-for-what-is-missing", "in the Dosini writer and reader an except handler that binds a default for a name does so only "
             "when the look-up of THAT name failed: no statement that can raise follows the name's look-up inside the same try body "
             "(otherwise a value that is present in the description is dropped because another one is absent)")
    ctx.rule("C19.R4-reader-without-writer", "options parsed but never written are exactly the frozen list")
    ctx.rule("C19.R16-a-shared-element-accumulates-its-keys", "where the reader looks an element up in a list by its name (the one 'docker' executor of a component) "
             "because several written keys configure it, the element that is found is updated in place: it is never replaced by a fresh dictionary - "
             "the key read first would be lost")
    ctx.rule("C19.R15-directories-in-glob-patterns-are-escaped", "every glob pattern of dosini.py is a constant wildcard part joined to a directory that went "
             "through glob.escape: the directory of an instance is text - with '[1]' in its path an unescaped pattern matches no stage file and the "
             "instance loads as an empty workflow")
    ctx.rule("C19.R14-one-text-encoding", "the encoding the reader decodes the configuration files with is the one the writers encode them with "
             "(an unspecified encoding is the platform default, UTF-8 here)")

    m = ctx.repo.module(DOSINI)
    HELPERS.clear()
    HELPERS.update({q: f for q, f in m.functions.items() if "." not in q})
    cls = m.cls("Dosini")
    translate = class_dict(cls, "_translate_map")
    known = class_set(cls, "_known_flowir")
    ctx.require(translate is not None and known is not None, "cannot read Dosini._translate_map / _known_flowir literals")
    kfo = m.func("Dosini.known_flowir_options")
    ok = "_known_flowir" in source.src(kfo) and "_translate_map" in source.src(kfo)
    ctx.ob("C19.R1-writer-reader-agreement", kfo, ok, "known options = _known_flowir + keys of _translate_map" if ok else
           "known_flowir_options is no longer the union of _known_flowir and the translate map keys")
    all_known = set(known) | set(translate.keys())
    check_static_tables(ctx, m, cls)
    check_stage_file_index(ctx, m)
    check_missing_not_none(ctx, m)
    check_stage_files_contiguous(ctx, m)
    check_stale_stage_files_removed(ctx, m)
    check_defaults_only_for_the_missing(ctx, m)
    check_section_prefix(ctx, m)
    tmap = {k: v for k, v in translate.items() if v is not None}

    wt = extract_writer_table(ctx, m)
    rt, branches = extract_reader_table(ctx, m, tmap)
    ctx.extra["writer_table"] = {"/".join(p): [(k, kind) for (k, kind, _) in v] for p, v in sorted(wt.items())}
    ctx.extra["reader_table"] = {k: [("/".join(p), kind) for (p, kind, _) in v] for k, v in sorted(rt.items())}
    branch_keys = {k for keys, _, _ in branches for k in keys}

    n = 0
    for path, entries in sorted(wt.items()):
        for (dk, kind, node) in entries:
            n += 1
            cons = "%s -> %s (%s)" % ("/".join(path), dk, kind)
            if dk not in all_known:
                ctx.ob("C19.R1-writer-reader-agreement", node, False,
                       "option %s is dumped under key '%s', which is not a known FlowIR option key: on reload it is parsed "
                       "as a plain variable" % ("/".join(path), dk), construct=cons)
                continue
            if dk not in branch_keys:
                ctx.ob("C19.R1-writer-reader-agreement", node, False,
                       "option %s is dumped under key '%s'; the key is known (so it is removed from the variables) but no "
                       "branch of parse_component tests it: the value is lost on reload" % ("/".join(path), dk), construct=cons)
                continue
            targets = rt.get(dk, [])
            same = [t for t in targets if t[0] == path]
            if not same:
                ctx.ob("C19.R1-writer-reader-agreement", node, False,
                       "option %s is dumped under key '%s' but the reader stores that key into %s"
                       % ("/".join(path), dk, sorted("/".join(t[0]) for t in targets) or "nothing"), construct=cons)
                continue
            kinds = {t[1] for t in same}
            okk = kind in kinds or (kind == "str" and kinds <= {"str", "num"} and path[-1] in ("memory", "cpuUnitsPerCore"))
            ctx.ob("C19.R1-writer-reader-agreement", node, okk,
                   "written as %s and read back with a %s converter into the same path" % (kind, "/".join(sorted(kinds))) if okk else
                   "option %s is written as %s but read back with a %s converter" % ("/".join(path), kind, "/".join(sorted(kinds))),
                   construct=cons)
    ctx.floor("C19.R1-writer-reader-agreement", n, 40, "written options")

    # R5: no value-dependent drop
    seen_conv = set()
    n5 = 0
    for path, entries in sorted(wt.items()):
        for (dk, kind, node) in entries:
            conv = node
            if id(conv) in seen_conv or not isinstance(conv, (ast.Lambda, ast.FunctionDef, ast.Name)):
                continue
            seen_conv.add(id(conv))
            if isinstance(conv, ast.Name):
                defs = [f for q in ("Dosini._comp_resource_request_to_dict", "Dosini._comp_resource_manager_to_str",
                                    "Dosini._comp_command_to_dict", "Dosini._comp_workflow_attributes_to_dict")
                        for f in m.func(q).body if isinstance(f, ast.FunctionDef) and f.name == conv.id
                        and f.lineno <= conv.lineno < (m.func(q).end_lineno or 10**9)]
                if not defs or id(defs[0]) in seen_conv:
                    continue
                conv = defs[0]
                seen_conv.add(id(conv))
            n5 += 1
            bad = value_dependent_drops(conv)
            ctx.ob("C19.R5-writer-total", conv, not bad,
                   "the converter of %s writes '%s' for every non-None value" % ("/".join(path), dk) if not bad else
                   "the converter of %s omits '%s' depending on the value (%s): a legitimate falsy value (0, False, '', []) is "
                   "not written and the reloaded component falls back to the default" % ("/".join(path), dk, short(bad[0], 60)),
                   construct="converter %s -> %s is total" % ("/".join(path), dk))
    check_writer_keeps_text(ctx, m, wt)
    # the same for the writers of the variable sections (seed C19-15): a comprehension that copies a mapping into what is written filters
    # on nothing but 'is not None' - `if value` drops a stage variable that is '' or 0, and the stage file then carries the global value
    n_dumpf = 0
    for q_, f_ in m.functions.items():
        if not (q_.startswith("Dosini._dump_") or q_ == "Dosini.configuration_for_stage") or q_.count(".") != 1:
            continue
        n_dumpf += 1
        for c in [x for x in ast.walk(f_) if isinstance(x, (ast.DictComp, ast.ListComp, ast.GeneratorExp)) and any(g.ifs for g in x.generators)]:
            for g in c.generators:
                if not (isinstance(g.iter, ast.Call) and last_attr(g.iter) == "items" and isinstance(g.target, ast.Tuple) and len(g.target.elts) == 2
                        and isinstance(g.target.elts[1], ast.Name)):
                    continue
                vname = g.target.elts[1].id
                bad_ = [t for t in g.ifs if any(isinstance(x, ast.Name) and x.id == vname for x in ast.walk(t)) and not _is_none_identity(t)]
                ctx.ob("C19.R5-writer-total", c, not bad_,
                       "%s copies the mapping it writes without filtering on the values" % q_.split(".")[-1] if not bad_ else
                       "%s drops entries of the mapping it writes by a test of the VALUE other than 'is not None' (%s): a stage variable that is '' or 0 "
                       "is not written into the stage's [META] section, the globals copied into that section fill the name in, and every "
                       "component of the stage reloads with the global's value" % (q_.split(".")[-1], short(bad_[0], 40)),
                       construct="%s: mapping written without a value filter" % q_.split(".")[-1])
    ctx.require(n_dumpf >= 4, "anchor missing: the _dump_* writers of Dosini (found %d)" % n_dumpf)
    tdd = m.func("Dosini._translate_dict_to_dict")
    ctx.analysed(tdd)
    filt = [c for c in ast.walk(tdd) if isinstance(c, ast.DictComp) and any(g.ifs for g in c.generators)]
    for c in filt:
        conds = [t for g in c.generators for t in g.ifs]
        ok = all(_is_none_identity(t) for t in conds)
        ctx.ob("C19.R5-writer-total", c, ok,
               "_translate_dict_to_dict filters out only None values" if ok else
               "_translate_dict_to_dict drops options by a test other than 'is not None' (%s): falsy values such as 0 or "
               "False are not written" % short(conds[0], 60), construct="_translate_dict_to_dict value filter")
    for nn in source.walk_own(tdd, include_nested=True):
        if isinstance(nn, ast.If) and any(isinstance(x, ast.Name) and x.id in ("value", "converted") for x in ast.walk(nn.test)) \
                and not _is_none_identity(nn.test):
            ctx.ob("C19.R5-writer-total", nn, False,
                   "_translate_dict_to_dict applies a conversion only under the value test %s" % short(nn.test, 60),
                   construct="_translate_dict_to_dict conditional conversion")
    ctx.floor("C19.R5-writer-total", n5, 22, "writer converters")

    # R6: the parser class
    TRANSFORMING = {"inline_comment_prefixes": "text after ' ;' / ' #' inside a value is dropped when the file is read back",
                    "interpolation": "'%(..)s' inside values is interpolated (or rejected) by configparser on read",
                    "converters": "values are converted on read", "delimiters": "other key/value delimiters split values differently",
                    "empty_lines_in_values": "multi-line values are cut at the first empty line"}
    pc = m.cls("FlowConfigParser")
    pinit = m.func("FlowConfigParser.__init__")
    ctx.analysed(pinit)
    set_keys = []
    interp_off: List[ast.AST] = []
    for n in ast.walk(pinit):
        if isinstance(n, ast.Assign):
            for t in n.targets:
                if isinstance(t, ast.Subscript) and isinstance(t.slice, ast.Constant) and t.slice.value in TRANSFORMING:
                    if t.slice.value == "interpolation" and isinstance(n.value, ast.Constant) and n.value.value is None:
                        interp_off.append(n)
                    else:
                        set_keys.append((t.slice.value, n))
        if isinstance(n, ast.Call):
            for k in n.keywords:
                if k.arg in TRANSFORMING and not (k.arg == "interpolation" and isinstance(k.value, ast.Constant) and k.value.value is None):
                    set_keys.append((k.arg, n))
                elif k.arg == "interpolation":
                    interp_off.append(n)
            if isinstance(n.func, ast.Attribute) and n.func.attr == "setdefault" and n.args and isinstance(n.args[0], ast.Constant) \
                    and n.args[0].value in TRANSFORMING:
                if n.args[0].value == "interpolation" and len(n.args) > 1 and isinstance(n.args[1], ast.Constant) and n.args[1].value is None:
                    interp_off.append(n)
                else:
                    set_keys.append((n.args[0].value, n))
    scan = ctx.repo.modules() if ctx.tier == "thorough" else [m, ctx.repo.module("python/experiment/model/conf.py")]
    for m_ in scan:
        if "FlowConfigParser(" not in m_.text:
            continue
        for c in ast.walk(m_.tree):
            if isinstance(c, ast.Call) and (call_name(c) or "").split(".")[-1] == "FlowConfigParser":
                for k in c.keywords:
                    if k.arg in TRANSFORMING and not (k.arg == "interpolation" and isinstance(k.value, ast.Constant) and k.value.value is None):
                        set_keys.append((k.arg, c))
    for (k, node) in set_keys:
        ctx.ob("C19.R6-parser-is-value-transparent", node, False,
               "the parser is configured with %s: %s, while the writer emits the value verbatim - e.g. arguments 'sh -c \"a ; b\"' "
               "reload as 'sh -c \"a'" % (k, TRANSFORMING[k]), construct="FlowConfigParser %s" % k)
    if not set_keys:
        ctx.ob("C19.R6-parser-is-value-transparent", pinit, True, "no value-transforming option of configparser is switched on",
               construct="FlowConfigParser.__init__ options")
    ok = bool(interp_off)
    ctx.ob("C19.R6-parser-is-value-transparent", interp_off[0] if interp_off else pinit, ok,
           "configparser's %-interpolation is switched off: values are neither interpolated on read nor validated on write" if ok else
           "the parser keeps configparser's default %-interpolation: set() validates every value against that syntax, so dumping a "
           "value with a bare '%' (arguments 'date +%Y') raises ValueError half-way through the dump although the loader, which reads "
           "raw, accepts such a file", construct="FlowConfigParser.__init__: interpolation=None")
    pget = m.func("FlowConfigParser.get")
    ctx.analysed(pget)
    raw_default = None
    for a, dflt in zip(pget.args.args[-len(pget.args.defaults):], pget.args.defaults):
        if a.arg == "raw":
            raw_default = dflt
    passes = any(isinstance(c, ast.Call) and last_attr(c) == "get" and any(k.arg == "raw" and isinstance(k.value, ast.Name) and k.value.id == "raw"
                                                                         for k in c.keywords) for c in ast.walk(pget))
    ok = isinstance(raw_default, ast.Constant) and raw_default.value is True and passes
    ctx.ob("C19.R6-parser-is-value-transparent", pget, ok, "values are read raw by default (no %-interpolation by configparser)" if ok else
           "FlowConfigParser.get no longer reads raw by default: '%(name)s' references inside values are interpolated or rejected by "
           "configparser when the file is read back", construct="FlowConfigParser.get(raw=True)")
    ox = m.functions.get("FlowConfigParser.optionxform")
    ok = ox is not None and any(isinstance(r, ast.Return) and isinstance(r.value, ast.Name) and r.value.id == ox.args.args[1].arg
                                for r in ast.walk(ox)) and not any(isinstance(c, ast.Call) for c in ast.walk(ox))
    ctx.ob("C19.R6-parser-is-value-transparent", ox if ox is not None else pc, ok, "option names keep their case" if ok else
           "option names are transformed by the parser (configparser lower-cases them by default): camelCase options and variables "
           "change their names on reload", construct="FlowConfigParser.optionxform is the identity")

    # R2
    rm = m.func("Dosini._comp_resource_manager_to_str")
    wmap = None
    for nn in source.walk_own(rm):
        if isinstance(nn, ast.Assign) and any(isinstance(t, ast.Name) and t.id == R["translate_map"] for t in nn.targets):
            d = dict_literal(nn.value)
            if d is not None:
                wmap = {k: const_str(v) for k, v in d.items()}
                wnode = nn
    ctx.require(wmap is not None, "anchor missing: translate_map literal in _comp_resource_manager_to_str")
    for fk, dk in sorted(wmap.items()):
        ok = tmap.get(dk) == fk
        ctx.ob("C19.R2-translate-maps-inverse", wnode, ok,
               "writer maps %s -> %s and reader maps it back" % (fk, dk) if ok else
               "writer maps %s -> %s but Dosini._translate_map maps %s -> %s" % (fk, dk, dk, tmap.get(dk)),
               construct="translate %s <-> %s" % (fk, dk))

    # R3 sections
    ds = m.func("Dosini._dump_output")
    po = m.func("Dosini.parse_output")
    wkeys = set()
    for nn in source.walk_own(ds):
        if isinstance(nn, ast.For) and isinstance(nn.iter, (ast.List, ast.Tuple)):
            wkeys |= {const_str(e) for e in nn.iter.elts if const_str(e)}
        if isinstance(nn, ast.Call) and last_attr(nn) == "set" and len(nn.args) == 3 and const_str(nn.args[1]):
            wkeys.add(const_str(nn.args[1]))
    rkeys = {const_str(c.args[0]) for c in source.calls_in(po) if call_name(c) == "safe_get" and c.args and const_str(c.args[0])}
    ok = wkeys == rkeys and bool(wkeys)
    ctx.ob("C19.R3-sections", ds, ok, "output section keys agree: %s" % sorted(wkeys) if ok else
           "output section: written keys %s, parsed keys %s" % (sorted(wkeys), sorted(rkeys)), construct="output.conf keys")
    pst = m.func("Dosini.parse_status")
    rkeys = {const_str(c.args[0]) for c in source.calls_in(pst) if call_name(c) == "safe_get" and c.args and const_str(c.args[0])}
    stored = set()
    for nn in source.walk_own(pst):
        if isinstance(nn, ast.Dict):
            stored |= {const_str(k) for k in nn.keys if k is not None and const_str(k)}
    ok = rkeys == stored and {"stage-weight", "executable", "arguments", "references"} <= rkeys
    ctx.ob("C19.R3-sections", pst, ok, "status section: every parsed key is stored under the same name (%s)" % sorted(rkeys) if ok else
           "status section: parsed keys %s, stored keys %s" % (sorted(rkeys), sorted(stored)), construct="status.conf keys")
    dst = m.func("Dosini._dump_status")
    def _key_loop(lp: ast.AST) -> bool:
        # for <k> in <section>[<stage>] (or its .keys()/.items()) ... <parser>.set(<name>, <k>, ..)
        if not (isinstance(lp, ast.For) and isinstance(lp.target, (ast.Name, ast.Tuple))):
            return False
        kname = lp.target.id if isinstance(lp.target, ast.Name) else (lp.target.elts[0].id if lp.target.elts and isinstance(lp.target.elts[0], ast.Name) else None)
        it = lp.iter.func.value if isinstance(lp.iter, ast.Call) and isinstance(lp.iter.func, ast.Attribute) and lp.iter.func.attr in ("keys", "items") else lp.iter
        return kname is not None and isinstance(it, ast.Subscript) and any(
            isinstance(c, ast.Call) and last_attr(c) == "set" and len(c.args) == 3 and isinstance(c.args[1], ast.Name) and c.args[1].id == kname
            for st in lp.body for c in ast.walk(st))
    ok = any(_key_loop(nn) for nn in source.walk_own(dst))
    ctx.ob("C19.R3-sections", dst, ok, "status section is dumped key-for-key" if ok else "status section is no longer dumped key-for-key",
           construct="_dump_status writes every key of status[stage]")
    sec_w = {c.args[0].left.value for c in source.calls_in(dst) if isinstance(c, ast.Call) and False} or set()
    # section naming: 'STAGE%d' written, 'STAGE' prefix parsed
    w = any(isinstance(nn, ast.BinOp) and isinstance(nn.left, ast.Constant) and nn.left.value == "STAGE%d" for nn in ast.walk(dst))
    prefixed = {c.func.value.id for c in source.calls_in(pst) if last_attr(c) == "startswith" and isinstance(c.func.value, ast.Name)
                and c.args and isinstance(c.args[0], ast.Constant) and c.args[0].value == "STAGE"}
    r = any(isinstance(nn, ast.Subscript) and isinstance(nn.value, ast.Name) and nn.value.id in prefixed and isinstance(nn.slice, ast.Slice)
            and isinstance(nn.slice.lower, ast.Constant) and nn.slice.lower.value == len("STAGE") and nn.slice.upper is None for nn in ast.walk(pst))
    ctx.ob("C19.R3-sections", dst, w and r, "status sections are named STAGE<index> on both sides" if w and r else
           "status section naming differs between writer and reader", construct="STAGE%d <-> stage[5:]")

    # R4
    written_keys = {dk for entries in wt.values() for (dk, _, _) in entries}
    for key, targets in sorted(rt.items()):
        if key in written_keys:
            continue
        for (p, kind, node) in targets:
            ok = p in NOT_WRITTEN or key in ("docker-args", "docker-image")
            ctx.ob("C19.R4-reader-without-writer", node, ok,
                   "key '%s' (-> %s) is parsed but not written: %s" % (key, "/".join(p), NOT_WRITTEN.get(p, "docker executor keys are written generically")) if ok else
                   "key '%s' is parsed into %s but no writer produces it: the option cannot survive a dump" % (key, "/".join(p)),
                   construct="reader-only key %s" % key, trivial=ok)
    unhandled = sorted(all_known - branch_keys)
    for k in unhandled:
        ctx.ob("C19.R4-reader-without-writer", cls, False,
               "key '%s' is a known option (removed from the variables when parsing) but no branch of parse_component "
               "handles it: any value written under it is dropped" % k, construct="known key %s without a reader branch" % k)

    # R14: one text encoding on both sides -------------------------------------------------------------
    check_one_text_encoding(ctx, m)

    # R15: run-time directories inside glob patterns ------------------------------------------------------
    check_glob_directories_escaped(ctx, m)

    # R16: an element shared by several keys accumulates them ------------------------------------------------
    pc = m.func("Dosini.parse_component")
    n16 = 0
    for comp in [x for x in source.walk_own(pc) if isinstance(x, ast.ListComp) and len(x.generators) == 1 and x.generators[0].ifs
                 and isinstance(x.generators[0].iter, ast.Name)]:
        g = x_gen = comp.generators[0]
        by_name = any(isinstance(t, ast.Compare) and isinstance(t.left, ast.Subscript) and isinstance(t.left.slice, ast.Constant)
                      and t.left.slice.value == "name" for t in g.ifs)
        st = source.stmt_of(comp)
        if not by_name or not isinstance(st, ast.Assign) or not isinstance(st.targets[0], ast.Name):
            continue
        found, lst = st.targets[0].id, g.iter.id
        # the statements of the same branch of the key chain
        branch = next((a_ for a_ in source.ancestors(st) if isinstance(a_, ast.If)), None)
        if branch is None:
            continue
        body = branch.body if any(st is y for b_ in branch.body for y in ast.walk(b_)) else branch.orelse
        n16 += 1
        replaced = [y for b_ in body for y in ast.walk(b_) if isinstance(y, ast.Assign) and any(
            isinstance(t, ast.Subscript) and isinstance(t.value, ast.Name) and t.value.id == lst for t in y.targets)]
        removed = [y for b_ in body for y in ast.walk(b_) if isinstance(y, ast.Call) and last_attr(y) in ("remove", "pop", "clear")
                   and isinstance(y.func.value, ast.Name) and y.func.value.id == lst]
        updated = [y for b_ in body for y in ast.walk(b_) if (isinstance(y, ast.Call) and last_attr(y) in ("update", "setdefault") and isinstance(y.func.value, ast.Subscript)
                                                             and isinstance(y.func.value.value, ast.Name) and y.func.value.value.id == found)
                   or (isinstance(y, ast.Assign) and any(isinstance(t, ast.Subscript) and isinstance(t.value, ast.Subscript) and isinstance(t.value.value, ast.Name)
                                                         and t.value.value.id == found for t in y.targets))]
        ok = bool(updated) and not replaced and not removed
        ctx.ob("C19.R16-a-shared-element-accumulates-its-keys", (replaced or removed or [st])[0], ok,
               "the %s element found by name is updated in place" % lst if ok else
               "the reader replaces the element of %s it found by name with a fresh dictionary (%s) instead of updating it: a component whose 'docker' "
               "executor is written with both docker-image and docker-args reloads with only the key that is read last - the other option is lost, "
               "under every hash seed" % (lst, short((replaced or removed or [st])[0], 60)),
               construct="parse_component: the element of %s found by name accumulates its keys" % lst)
    ctx.floor("C19.R16-a-shared-element-accumulates-its-keys", n16, 1, "look-ups of a list element by name in parse_component")

    # R3 (obligation): a list value is written in the order and multiplicity it has (seed C19-14) --------------------------------
    # the readers split the text and keep the order they find: a writer that sorts the TEXT of the elements ('stage10' < 'stage2') or
    # removes duplicates hands back another list than it was given
    n_join = 0
    for wq in ("Dosini._dump_output", "Dosini._dump_status"):
        wf = m.func(wq)
        for c in source.calls_in(wf, include_nested=True):
            if not (last_attr(c) == "join" and isinstance(c.func.value, ast.Constant) and c.args):
                continue
            n_join += 1
            val = match.resolve_local(wf, c.args[0]) if isinstance(c.args[0], ast.Name) else c.args[0]
            reorder = [x for x in ast.walk(val) if isinstance(x, (ast.Set, ast.SetComp)) or (
                isinstance(x, ast.Call) and (call_name(x) in ("sorted", "set", "frozenset", "reversed") or last_attr(x) in ("sort", "reverse")))]
            # an in-place sort of the local before it is joined
            if isinstance(c.args[0], ast.Name):
                reorder += [x for x in source.calls_in(wf, include_nested=True) if last_attr(x) in ("sort", "reverse")
                            and isinstance(x.func.value, ast.Name) and x.func.value.id == c.args[0].id]
            ctx.ob("C19.R3-sections", c, not reorder,
                   "%s joins the list value as it is (%s)" % (wq.split(".")[-1], short(val, 50)) if not reorder else
                   "%s reorders or de-duplicates a list value before it writes it (%s): the reader keeps the order of the text, so stages "
                   "[2, 10, 11] are written 'stage10,stage11,stage2' and read back [10, 11, 2] (and [3, 3] as [3])"
                   % (wq.split(".")[-1], short(reorder[0], 60)),
                   construct="%s: list value joined in the order given" % wq.split(".")[-1])
    ctx.require(n_join >= 2, "anchor missing: the joins of list values in _dump_output / _dump_status (found %d)" % n_join)

    # R3 (obligation): list values of the status section are split the way they were joined -----------------------------
    dst_ = m.func("Dosini._dump_status")
    pst_ = m.func("Dosini.parse_status")
    joins = [c.func.value.value for c in source.calls_in(dst_, include_nested=True) if last_attr(c) == "join" and isinstance(c.func.value, ast.Constant)
             and isinstance(c.func.value.value, str)]
    ctx.require(bool(joins), "anchor missing: the separator _dump_status joins list values with")

    def split_separators(f_, depth: int = 0):
        """separators that f_ splits text on: None = any white space; follows one level of helper methods with their default separator"""
        out = []
        for c in source.calls_in(f_, include_nested=True):
            if last_attr(c) == "split" and isinstance(c.func, ast.Attribute):
                if not c.args:
                    out.append((c, None))
                elif isinstance(c.args[0], ast.Constant):
                    out.append((c, c.args[0].value))
                elif isinstance(c.args[0], ast.Name) and isinstance(f_, ast.FunctionDef):
                    # the separator is a parameter: its default
                    names = [a_.arg for a_ in f_.args.args]
                    if c.args[0].id in names:
                        i_ = names.index(c.args[0].id) - (len(names) - len(f_.args.defaults))
                        if 0 <= i_ < len(f_.args.defaults) and isinstance(f_.args.defaults[i_], ast.Constant):
                            out.append((c, f_.args.defaults[i_].value))
            elif depth < 1 and isinstance(c.func, ast.Attribute) and isinstance(c.func.value, ast.Name) and c.func.value.id in ("cls", "self"):
                helper = m.functions.get("Dosini." + c.func.attr)
                if helper is not None and helper is not f_:
                    seps = split_separators(helper, depth + 1)
                    explicit = next((k.value.value for k in c.keywords if k.arg in ("separator", "sep") and isinstance(k.value, ast.Constant)),
                                    c.args[1].value if len(c.args) > 1 and isinstance(c.args[1], ast.Constant) else "<default>")
                    for (_, sp) in seps:
                        out.append((c, sp if explicit == "<default>" else explicit))
        return out
    for (c, sp) in split_separators(pst_):
        compatible = all((j.strip() == "" and sp in (None, j)) or (j.strip() != "" and sp == j) for j in joins)
        ctx.ob("C19.R3-sections", c, compatible,
               "parse_status splits list values on %s, _dump_status joins them with %r" % ("white space" if sp is None else repr(sp), joins[0]) if compatible else
               "parse_status splits a list value on %r (%s) while _dump_status joins list values with %r: a status entry with two references - "
               "['stage1.simulate:ref', 'stage1.analyse:ref'] - is read back as ONE reference 'stage1.simulate:ref stage1.analyse:ref'"
               % (sp, short(c, 50), joins[0]), construct="status section: list values split as they were joined")
