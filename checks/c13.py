"""C13 - a repeating observer sees its producers' final output and then stops.  See DESIGN.md section C13."""
from __future__ import annotations

import ast
from typing import List, Optional, Set, Tuple

from vlib import flow, match, source
from vlib.cfg import CFG, Node, own_calls
from vlib.source import AnalysisError, call_name, dotted, last_attr, short

ENGINE = "python/experiment/runtime/engine.py"
WORKFLOW = "python/experiment/runtime/workflow.py"
MONITOR = "python/experiment/runtime/monitor.py"

LIVE = "self._producers_are_finished"


def run(ctx) -> None:
    ctx.explanation = (
        "Structure of RepeatingEngine.run.EngineTaskController and its wiring, decided on the CFG: the stop decision "
        "reads a snapshot of the producers-finished flag taken before the launch, every pass through the decision "
        "block kills or consumes a retry, the task is generated only when the engine can consume and there is new "
        "output, the producers-finished notification is wired on every path of ComponentState.stageIn, the poll "
        "function fires when producers are finished, the monitor runs the action one last time after cancel, and "
        "exitReason is non-None only after cancel. The timing quantifier itself (where a notification lands between "
        "polls, NFS latency, the 20 s heuristic) is not decided.")
    for rid, text in [
        ("C13.R1-snapshot-before-launch", "self.kill() in the decision block is guarded by a snapshot of _producers_are_finished taken "
                                          "before the task is generated (or by _suicide), never by the live flag"),
        ("C13.R8-stop-needs-execution", "inside the decision (producers were finished before this pass started) the engine stops only "
                                        "after this pass executed a task, or because no retries are left, or because the kill timer fired"),
        ("C13.R9-success-of-this-pass", "the 'executed successfully' test of the decision reads the task generated in this pass: a local "
                                        "whose definitions are None or the result of self.taskGenerator(..), never self.process (which still "
                                        "holds the previous pass's task when the generator raised), and never dereferenced while it may be None"),
        ("C13.R10-cutoff-is-the-last-launch", "the date handed to the new-producer-output test is the launch time of the previous execution (the "
                                              "attribute that receives, before the task is generated, a clock reading taken in this pass), "
                                              "or something earlier (min): with a later cutoff - e.g. the time the previous task finished - "
                                              "output written while that task ran is never seen as new, and if it is the final output the "
                                              "observer stops without an execution that began after it"),
        ("C13.R2-progress", "every pass through the decision block calls kill() or decrements repeatRetries; the ==0 test precedes "
                            "the decrement; repeatRetries has no other writer; default is 3"),
        ("C13.R3-consume-before-execute", "taskGenerator is called only when self.consume and (new output or no producers); _consume is "
                                          "set only by canConsume / Engine.run"),
        ("C13.R4-notification-wiring", "stageIn of a repeating component subscribes _notifyProducersFinished as on_completed or calls it; "
                                       "it sets the flag before arming the kill timer"),
        ("C13.R5-last-action", "schedule_next_instance fires when producers are finished; CreateMonitor performs the action once more "
                               "after cancel when lastAction=True (constant at the call site)"),
        ("C13.R7-kill-delay-serviced", "once the kill-after-producers-done timer has set _suicide, the next pass of EngineTaskController "
                                       "(lastAction False) calls self.kill() on every path; the timer callback sets the flag before "
                                       "it looks at the process"),
        ("C13.R6-exit-reason", "RepeatingEngine.exitReason is non-None only when the cancel event is set and no process ever ran or the kernel completed"),
    ]:
        ctx.rule(rid, text)
    ctx.assume("timing (poll interval vs. arrival of the notification, file-system latency) is outside the static model")

    eng = ctx.repo.module(ENGINE)
    wf = ctx.repo.module(WORKFLOW)
    mon = ctx.repo.module(MONITOR)

    etc = eng.func("RepeatingEngine.run.EngineTaskController")
    ctx.analysed(etc)
    cfg = CFG(etc)
    ctx.paths += cfg.paths_count()

    kills = match.nodes_calling(cfg, lambda c: call_name(c) == "self.kill")
    gens = match.nodes_calling(cfg, lambda c: call_name(c) == "self.taskGenerator")
    ctx.floor("C13.R1-snapshot-before-launch", len(kills), 1, "self.kill() sites in EngineTaskController")
    ctx.require(bool(gens), "anchor missing: self.taskGenerator call in EngineTaskController")

    # ---------------- R10: the cutoff of the new-output test ---------------------------------------------
    def clock(e: ast.AST) -> bool:
        return isinstance(e, ast.Call) and (call_name(e) or "").endswith("datetime.now") and not e.args
    clock_locals = set(match.locals_where(etc, clock))
    # launch-time carriers: attributes / items assigned, on the way to the task generator, a clock local of this pass (or another carrier)
    carriers: Set[str] = set()
    success_carriers: Set[str] = set()      # recorded only once the launch succeeded
    gen_ids = {g.id for g in gens}
    changed = True
    while changed:
        changed = False
        for n in cfg.nodes:
            if n.kind == "stmt" and isinstance(n.ast, ast.Assign) and len(n.ast.targets) == 1 and not isinstance(n.ast.targets[0], ast.Name):
                v = n.ast.value
                if (isinstance(v, ast.Name) and v.id in clock_locals) or source.src(v) in carriers:
                    # the store is followed by the launch on every normal path (it records a launch, not e.g. a finish time) ..
                    r = cfg.reach([m for (m, l2) in n.succ if l2 is None], blocked=gens, ignore_labels=("exc",))
                    before_launch = cfg.exit.id not in r
                    # .. or sits on the success continuation of the launch (the else of the try around the generator) and stores a clock
                    # value that was read BEFORE the launch
                    after_success = False
                    if isinstance(v, ast.Name) and v.id in clock_locals:
                        defs_v = [d for d in cfg.nodes if d.kind == "stmt" and isinstance(d.ast, ast.Assign) and any(
                            isinstance(t_, ast.Name) and t_.id == v.id for t_ in d.ast.targets)]
                        pre = bool(defs_v) and all(cfg.every_path_to_passes(g_, gates=defs_v) for g_ in gens)
                        in_else = any(isinstance(a_, ast.Try) and any(any(n.ast is y for y in ast.walk(st_)) for st_ in a_.orelse)
                                      and any(any(g_.ast is y for y in ast.walk(st_)) for st_ in a_.body for g_ in gens) for a_ in source.ancestors(n.ast))
                        after_success = pre and in_else
                    elif source.src(v) in carriers:
                        after_success = source.src(v) in success_carriers
                    if (before_launch or after_success) and source.src(n.ast.targets[0]) not in carriers:
                        carriers.add(source.src(n.ast.targets[0]))
                        if after_success and not before_launch:
                            success_carriers.add(source.src(n.ast.targets[0]))
                        changed = True
    since = [c for c in source.calls_in(etc) if last_attr(c) == "producersHaveOutputSinceDate"]
    ctx.floor("C13.R10-cutoff-is-the-last-launch", len(since), 1, "new-producer-output tests in EngineTaskController")
    # a clock read AFTER the task generator returned (stored on the success continuation of the launch) is not the launch time: output the
    # producers write while the backend is still creating the task is older than that cutoff and is never reported as new, although the
    # execution just launched began before it existed
    late = []
    for n in cfg.nodes:
        if n.kind == "stmt" and isinstance(n.ast, ast.Assign) and len(n.ast.targets) == 1 and not isinstance(n.ast.targets[0], ast.Name) and clock(n.ast.value):
            in_else = any(isinstance(a_, ast.Try) and any(any(n.ast is y for y in ast.walk(st_)) for st_ in a_.orelse)
                          and any(any(g_.ast is y for y in ast.walk(st_)) for st_ in a_.body for g_ in gens) for a_ in source.ancestors(n.ast))
            after_gen = any(n.id in cfg.reach([g_], include_starts=False, ignore_labels=("exc",)) for g_ in gens) and not all(
                cfg.every_path_from_passes(n, gens, ignore_labels=("exc",)) for _ in [0])
            if in_else or after_gen:
                late.append(n)
    for n in late:
        tsrc = source.src(n.ast.targets[0])

        def reads_target(e: ast.AST, depth: int = 0) -> bool:
            if any(source.src(x) == tsrc for x in ast.walk(e)):
                return True
            if depth < 3:
                return any(reads_target(v, depth + 1) for x in ast.walk(e) if isinstance(x, ast.Name) for v in match.assigned_value(etc, x.id))
            return False
        used_as_cutoff = any(c.args and reads_target(c.args[0]) for c in since)
        if used_as_cutoff:
            ctx.ob("C13.R10-cutoff-is-the-last-launch", n.ast, False,
                   "%s - the cutoff of the new-output test - is set to the time at which the task generator RETURNED (%s), not to the time the launch "
                   "began: on a backend where creating a task takes a while, output the producers write in that window is older than the cutoff "
                   "and never counts as new; when it is their final output and they then finish, the following passes do not execute, use up the "
                   "retries (repeatRetries <= 2) and the engine stops having only run a task that began before that output existed"
                   % (short(n.ast.targets[0], 30), short(n.ast.value, 30)),
                   construct="the launch time is read before self.taskGenerator is called")
            carriers.add(source.src(n.ast.targets[0]))
            success_carriers.add(source.src(n.ast.targets[0]))
    ctx.require(bool(carriers), "anchor missing: the attribute that records the launch time before self.taskGenerator")

    def cutoff_ok(e: ast.AST, depth: int = 0) -> bool:
        if source.src(e) in carriers:
            return True
        if isinstance(e, ast.Call) and call_name(e) == "min" and e.args:
            return any(cutoff_ok(a, depth + 1) for a in e.args)
        if isinstance(e, ast.Name) and depth < 3:
            vals = match.assigned_value(etc, e.id)
            return bool(vals) and all(cutoff_ok(v, depth + 1) for v in vals)
        return False
    for c in since:
        ok = bool(c.args) and cutoff_ok(c.args[0])
        ctx.ob("C13.R10-cutoff-is-the-last-launch", c, ok,
               "new output is looked for since the launch of the previous execution (%s)" % short(c.args[0], 40) if ok else
               "the new-output test uses the cutoff %s, which is not the recorded launch time of the previous execution (%s) nor a minimum "
               "including it: output the producers write between that launch and the cutoff is never reported as new; when it is their "
               "final output the passes after the producers-finished notification do not execute, use up the retries, and the engine "
               "stops having only run a task that began before the final output existed" % (
                   short(c.args[0], 60) if c.args else "<none>", ", ".join(sorted(carriers))),
               construct="producersHaveOutputSinceDate(<cutoff>) <- launch time")

    # a launch that FAILED does not advance the cutoff: the carrier the new-output test reads is recorded on the success continuation of the
    # launch only (the property setter refuses older dates, so a handler cannot put the old value back)
    used = {source.src(a) for c in since if c.args for a in [c.args[0]] if source.src(a) in carriers}
    for cu in sorted(used):
        ok = cu in success_carriers
        ctx.ob("C13.R10-cutoff-is-the-last-launch", since[0], ok,
               "%s is recorded once the task generator has returned a task" % cu if ok else
               "%s - the cutoff of the new-output test - is advanced BEFORE the task generator is called: when the launch that should observe "
               "the producers' final output fails once (the generator raises), that output is no longer 'new', the following passes do not "
               "even try to launch, use up the retries, and the observer stops without an execution that began after the last output" % cu,
               construct="%s recorded after a successful launch" % cu)

    # (R1, order within a pass) the snapshot precedes the new-output test: a notification that lands after the output test of this
    # pass must leave the decision to the next pass, which looks for output again
    def _snap_nodes():
        return [n for n in cfg.nodes if n.kind == "stmt" and isinstance(n.ast, ast.Assign) and len(n.ast.targets) == 1
                and isinstance(n.ast.targets[0], ast.Name) and source.src(n.ast.value) == LIVE]
    for c in since:
        at = [n for n in cfg.nodes if n.ast is not None and n.kind in ("stmt", "test") and any(c is x for x in ast.walk(n.ast))]
        ok = bool(at) and bool(_snap_nodes()) and all(cfg.every_path_to_passes(a_, gates=_snap_nodes()) for a_ in at)
        ctx.ob("C13.R1-snapshot-before-launch", c, ok,
               "the producers-finished flag is snapshotted before this new-output test" if ok else
               "the new-output test runs BEFORE the producers-finished flag is snapshotted: a notification that lands between the two makes the "
               "pass decide 'producers were finished when I started' on an output test made while they were not - with repeatRetries: 0 the "
               "observer stops without any execution after the producers' last output", construct="new-output test <- after the snapshot")

    # snapshot variables: locals assigned exactly `self._producers_are_finished`
    snaps = {}
    for n in cfg.nodes:
        if n.kind == "stmt" and isinstance(n.ast, ast.Assign) and len(n.ast.targets) == 1 \
                and isinstance(n.ast.targets[0], ast.Name) and source.src(n.ast.value) == LIVE:
            snaps.setdefault(n.ast.targets[0].id, []).append(n)
    snap_tests = match.test_nodes(cfg, lambda t: "T" if isinstance(t, ast.Name) and t.id in snaps else None)
    suicide_tests = match.test_nodes(cfg, lambda t: "T" if source.src(t) == "self._suicide" else None)
    live_tests = match.test_nodes(cfg, lambda t: "T" if source.src(t) == LIVE else None)
    last_tests = match.test_nodes(cfg, lambda t: "T" if isinstance(t, ast.Name) and t.id == "lastAction" else None)

    # expressions whose truth value cannot change during one pass: the parameter lastAction (never reassigned) and the
    # monotone flag _suicide (only ever set to True, by the timer)
    stable = set()
    if not any(isinstance(x, ast.Name) and x.id == "lastAction" and isinstance(x.ctx, ast.Store) for x in ast.walk(etc)):
        stable.add("lastAction")
    if not any(isinstance(x, ast.Assign) and any(source.src(t) == "self._suicide" for t in x.targets) for x in ast.walk(etc)):
        stable.add("self._suicide")
    for k in kills:
        edges = snap_tests + suicide_tests
        ok = bool(snap_tests) and match.only_via_edges_consistent(cfg, k, edges, stable)
        ctx.ob("C13.R1-snapshot-before-launch", k.ast, ok,
               "self.kill() is reachable only when the producers were already finished before this execution started "
               "(snapshot) or the kill timer fired" if ok else
               "self.kill() is not guarded by the pre-launch snapshot of _producers_are_finished: a notification that "
               "arrives during the task stops the engine without an execution that began after the producers finished",
               construct=short(k.ast) + " <- snapshot guard")
        # no live-flag test between the decision and the kill
        for (ln, _) in live_tests:
            gated = match.only_via_edges(cfg, k, [(ln, "T")])
            ctx.ob("C13.R1-snapshot-before-launch", ln.ast, not gated,
                   "live flag is not what lets kill() through" if not gated else
                   "kill() is guarded by the live flag self._producers_are_finished", trivial=not gated,
                   construct="live flag test at line offset gating %s" % short(k.ast))
    # snapshot is taken before the task is generated, on every path, and is the latest definition at the test
    for name, defs in snaps.items():
        for g in gens:
            ok = cfg.every_path_to_passes(g, gates=defs)
            ctx.ob("C13.R1-snapshot-before-launch", defs[0].ast, ok,
                   "the snapshot %s is taken on every path before the task is generated" % name if ok else
                   "the task can be generated before the snapshot %s is taken" % name,
                   construct="%s = %s before taskGenerator" % (name, LIVE))
            # no re-definition after the launch
            after = cfg.reach([g], include_starts=False)
            redefs = [d for d in defs if d.id in after]
            ctx.ob("C13.R1-snapshot-before-launch", defs[0].ast, not redefs,
                   "the snapshot is not refreshed after the launch" if not redefs else
                   "the snapshot %s is refreshed after the task was generated" % name,
                   construct="%s not reassigned after taskGenerator" % name)
        rd = flow.reaching_defs(cfg, name)
        for (tn, _) in snap_tests:
            if isinstance(tn.ast, ast.Name) and tn.ast.id == name:
                ds = rd.get(tn.id, frozenset())
                ok = ds and all(d in {x.id for x in defs} for d in ds)
                ctx.ob("C13.R1-snapshot-before-launch", tn.ast, bool(ok),
                       "the decision reads the snapshot (all reaching definitions are the pre-launch copy)" if ok else
                       "the decision variable %s can hold something other than the pre-launch copy of the flag" % name,
                       construct="reaching defs of %s at the decision" % name)
    if not snaps:
        ctx.ob("C13.R1-snapshot-before-launch", etc, False,
               "no local snapshot of self._producers_are_finished is taken in EngineTaskController",
               construct="snapshot = self._producers_are_finished (missing)")

    # ---------------- R8 ------------------------------------------------------------------------------
    # "this pass executed": locals set to True only where every onward path generates the task
    exec_flags = {}
    for n in cfg.nodes:
        if n.kind == "stmt" and isinstance(n.ast, ast.Assign) and len(n.ast.targets) == 1 and isinstance(n.ast.targets[0], ast.Name) \
                and isinstance(n.ast.value, ast.Constant) and n.ast.value.value is True:
            exec_flags.setdefault(n.ast.targets[0].id, []).append(n)
    exec_flags = {k: v for k, v in exec_flags.items()
                  if all(cfg.every_path_from_passes(d, gens, exits=[cfg.exit], ignore_labels=("exc",)) for d in v)}
    exec_tests = match.test_nodes(cfg, lambda t: "T" if isinstance(t, ast.Name) and t.id in exec_flags else None)
    zero_t = match.test_nodes(cfg, lambda t: "T" if (match.compare_parts(t) and "repeatRetries" in source.src(match.compare_parts(t)[0])
                                                     and isinstance(match.compare_parts(t)[1], (ast.Eq, ast.LtE))
                                                     and isinstance(match.compare_parts(t)[2], ast.Constant)
                                                     and match.compare_parts(t)[2].value == 0) else None)
    ctx.ob("C13.R8-stop-needs-execution", etc, bool(exec_flags),
           "a local flag records that this pass generated a task (%s)" % sorted(exec_flags) if exec_flags else
           "no local flag records whether this pass executed a task", construct="did-execute flag")
    for k in kills:
        ok = bool(exec_tests) and match.only_via_edges_consistent(cfg, k, exec_tests + zero_t + suicide_tests, stable)
        ctx.ob("C13.R8-stop-needs-execution", k.ast, ok,
               "this stop is taken only after an execution in this pass, with no retries left, or on the kill timer" if ok else
               "the engine can stop on a pass that did not execute anything although retries are left and no kill timer fired: a "
               "stale 'no new output' answer (output or notification landing between the check and the snapshot, NFS lag) then "
               "ends the observer without an execution that began after the producers' last output",
               construct=short(k.ast) + " <- executed | retries==0 | suicide")

    # ---------------- R7 ------------------------------------------------------------------------------
    # paths with lastAction == False: the monitor was not cancelled yet, so nobody else will stop the engine
    blocked = set(flow.specialise(cfg, {"lastAction": False}))
    alias_assigns = [n for n in cfg.nodes if n.kind == "stmt" and isinstance(n.ast, ast.Assign) and len(n.ast.targets) == 1
                     and isinstance(n.ast.value, ast.Name) and n.ast.value.id == "lastAction"]
    for a in alias_assigns:
        ttext = source.src(a.ast.targets[0])
        others = [n for n in cfg.nodes if n.kind == "stmt" and isinstance(n.ast, (ast.Assign, ast.AugAssign)) and n is not a
                  and any(source.src(t) == ttext for t in (n.ast.targets if isinstance(n.ast, ast.Assign) else [n.ast.target]))]
        for t in cfg.nodes:
            if t.kind == "test" and t.ast is not None and source.src(t.ast) == ttext:
                if cfg.every_path_to_passes(t, gates=[a]) and t.id not in cfg.reach(others, blocked=[a]):
                    blocked.add((t.id, "T"))      # the test reads a copy of lastAction (False on these paths)
    n7 = 0
    for (tn, lab) in suicide_tests:
        n7 += 1
        succ = [m for (m, l2) in tn.succ if l2 == lab]
        # _suicide is monotone (set once by the timer, never reset in this function): later tests of it agree
        mono = not any(isinstance(x, ast.Assign) and any(source.src(t) == "self._suicide" for t in x.targets) for x in ast.walk(etc))
        b2 = set(blocked) | ({(n.id, match.other(l)) for n, l in suicide_tests} if mono else set())
        r = cfg.reach(succ, blocked=kills, blocked_edges=b2, ignore_labels=("exc",))
        # only paths on which this test can be reached with lastAction False matter
        feasible = tn.id in cfg.reach([cfg.entry], blocked_edges=blocked)
        ok = (not feasible) or (cfg.exit.id not in r)
        ctx.ob("C13.R7-kill-delay-serviced", tn.ast, ok,
               "after the kill timer fired, every path of this pass reaches self.kill()" if ok else
               "with _suicide set and lastAction False this pass of EngineTaskController returns without calling self.kill(): "
               "when the kill-after-producers-done-delay expires between two invocations while self.process still holds an "
               "earlier, finished task, the timer callback only calls process.kill() (a no-op) and every later pass takes this "
               "path - the engine never stops", construct="self._suicide (lastAction False) => self.kill() on every path")
    ctx.floor("C13.R7-kill-delay-serviced", n7, 1, "tests of self._suicide in EngineTaskController")
    napf = eng.func("RepeatingEngine.notify_all_producers_finished")
    ctx.analysed(napf)
    sui = [f for f in ast.walk(napf) if isinstance(f, ast.FunctionDef) and f is not napf]
    setters = [f for f in sui if any(isinstance(x, ast.Assign) and any(source.src(t) == "self._suicide" for t in x.targets)
                                     and isinstance(x.value, ast.Constant) and x.value.value is True for x in ast.walk(f))]
    ok = bool(setters)
    if ok:
        f = setters[0]
        c7 = CFG(f)
        set_nodes = [n for n in c7.nodes if n.kind == "stmt" and isinstance(n.ast, ast.Assign) and any(source.src(t) == "self._suicide" for t in n.ast.targets)]
        acts = match.nodes_calling(c7, lambda c: last_attr(c) == "kill")
        ok = bool(acts) and all(c7.every_path_to_passes(a, gates=set_nodes) for a in acts)
        # every path of the callback stops something (the process or the engine)
        r = c7.reach([c7.entry], blocked=acts, ignore_labels=("exc",))
        ok = ok and c7.exit.id not in r
    ctx.ob("C13.R7-kill-delay-serviced", setters[0] if setters else napf, ok,
           "the timer callback sets _suicide before it kills the process or the engine, on every path" if ok else
           "the kill-after-producers-done callback does not (first) set _suicide / can return without killing anything",
           construct="suicide(): _suicide = True precedes kill")

    # the countdown is armed whenever a delay is configured and the engine is alive - also for a notification that arrives before run():
    # the notification is delivered once and nothing arms the timer later
    timers = [st for st in source.walk_own(napf) if isinstance(st, ast.Expr) and any(
        isinstance(c, ast.Call) and (call_name(c) or "").endswith("timer") for c in ast.walk(st.value))]
    ctx.floor("C13.R7-kill-delay-serviced", len(timers), 1, "kill-delay timers armed in notify_all_producers_finished")
    for st in timers:
        extra = []
        for anc in source.ancestors(st):
            if anc is napf:
                break
            if isinstance(anc, ast.If):
                atoms = anc.test.values if isinstance(anc.test, ast.BoolOp) and isinstance(anc.test.op, ast.And) else [anc.test]
                for a in atoms:
                    cp = match.compare_parts(a)
                    delay_set = cp is not None and isinstance(cp[1], (ast.IsNot, ast.NotEq)) and isinstance(cp[2], ast.Constant) and cp[2].value is None \
                        and isinstance(cp[0], ast.Attribute) and cp[0].attr in ("_dieAfter", "dieAfter")
                    alive = isinstance(a, ast.Call) and last_attr(a) == "isAlive"
                    if not (delay_set or alive):
                        extra.append(a)
            elif isinstance(anc, (ast.For, ast.While, ast.Try)):
                extra.append(anc)
        ctx.ob("C13.R7-kill-delay-serviced", st, not extra,
               "the kill-delay timer is armed whenever a delay is configured and the engine is alive" if not extra else
               "the kill-delay timer is armed only if also %s: a producers-finished notification that arrives while that does not hold (before "
               "run(): stageIn notifies an observer whose producers are all done, the controller calls run() afterwards) never starts the "
               "countdown - with a task that hangs or keeps failing the observer never stops" % short(extra[0], 60),
               construct="notify_all_producers_finished: timer <- delay configured and alive")

    # ---------------- R9 ------------------------------------------------------------------------------
    rc_tests = [n for n in cfg.nodes if n.kind == "test" and n.ast is not None and any(
        isinstance(x, ast.Attribute) and x.attr == "returncode" for x in ast.walk(n.ast))]
    ctx.floor("C13.R9-success-of-this-pass", len(rc_tests), 1, "tests of a task's return code in EngineTaskController")
    for tn in rc_tests:
        # success is "the return code IS zero": a truthiness test (`not task.returncode`) also holds for None - the code of a task whose
        # outcome is not known (still running, lost by the backend) - and stops the observer on an execution that did not succeed
        atom = tn.ast
        while isinstance(atom, ast.UnaryOp) and isinstance(atom.op, ast.Not):
            atom = atom.operand
        truthy = isinstance(atom, ast.Attribute) and atom.attr == "returncode"
        loose = isinstance(atom, ast.Compare) and len(atom.ops) == 1 and isinstance(atom.ops[0], (ast.In, ast.NotIn)) and any(
            isinstance(x, ast.Constant) and x.value is None for x in ast.walk(atom.comparators[0]))
        ctx.ob("C13.R9-success-of-this-pass", tn.ast, not (truthy or loose),
               "the return code is compared with a value (%s)" % short(tn.ast, 50) if not (truthy or loose) else
               "the success test `%s` also holds when the return code is None (the outcome of the task is not known): the observer stops "
               "after an execution that did not succeed although it has retries left" % short(tn.ast, 60),
               construct="success test compares the return code with 0")
        recv = [x.value for x in ast.walk(tn.ast) if isinstance(x, ast.Attribute) and x.attr == "returncode"][0]
        if not isinstance(recv, ast.Name):
            ctx.ob("C13.R9-success-of-this-pass", tn.ast, False,
                   "the success test reads %s, which outlives the pass: when the task generator raises it is still the task of the "
                   "previous pass, so a pass that started nothing is judged by an execution that began before the producers' final "
                   "output and the engine stops without having observed it" % short(recv, 40),
                   construct="success test reads the task of this pass")
            continue
        var = recv.id
        rd = flow.reaching_defs(cfg, var).get(tn.id, frozenset())
        bad = []
        for d in rd:
            v = flow.def_value(cfg, d, var) if d >= 0 else None
            if d < 0 or v is None:
                bad.append("a definition that is not a plain assignment")
            elif isinstance(v, ast.Constant) and v.value is None:
                continue
            elif isinstance(v, ast.Call) and call_name(v) == "self.taskGenerator":
                continue
            else:
                bad.append(short(v, 50))
        ok = not bad and bool(rd)
        ctx.ob("C13.R9-success-of-this-pass", tn.ast, ok,
               "'%s' is None or the task generated in this pass" % var if ok else
               "'%s' may hold something other than the task generated in this pass (%s)" % (var, "; ".join(bad)),
               construct="definitions of %s at the success test" % var)
        # never dereferenced while None: with the not-None guards removed, no None definition reaches the test
        guards = match.test_nodes(cfg, lambda t, var=var: (
            ("T" if isinstance(match.compare_parts(t)[1], (ast.IsNot, ast.NotEq)) else "F")
            if (match.compare_parts(t) and isinstance(match.compare_parts(t)[0], ast.Name) and match.compare_parts(t)[0].id == var
                and isinstance(match.compare_parts(t)[2], ast.Constant) and match.compare_parts(t)[2].value is None
                and isinstance(match.compare_parts(t)[1], (ast.Is, ast.IsNot, ast.Eq, ast.NotEq))) else
            ("T" if isinstance(t, ast.Name) and t.id == var else None)))
        rd2 = flow.reaching_defs(cfg, var, blocked_edges=[(g.id, lab) for g, lab in guards]).get(tn.id, frozenset())
        none_defs = [d for d in rd2 if d >= 0 and isinstance(flow.def_value(cfg, d, var), ast.Constant)
                     and flow.def_value(cfg, d, var).value is None]
        ok = not none_defs
        ctx.ob("C13.R9-success-of-this-pass", tn.ast, ok,
               "the return code is read only where '%s' is a task" % var if ok else
               "'%s' is still None here when the task generator raised: the AttributeError leaves the pass before kill() or the "
               "repeatRetries decrement, the monitor logs it and calls again - a launch that keeps failing after the producers "
               "finished is retried for ever, the retry budget is never consumed and the engine never stops" % var,
               construct="%s.returncode is read only under '%s is not None'" % (var, var))

    # ---------------- R2 ------------------------------------------------------------------------------
    decs = [n for n in cfg.nodes if n.kind == "stmt" and isinstance(n.ast, ast.AugAssign) and isinstance(n.ast.op, ast.Sub)
            and "repeatRetries" in source.src(n.ast.target)]
    zero_tests = match.test_nodes(cfg, lambda t: "T" if (match.compare_parts(t) and "repeatRetries" in source.src(match.compare_parts(t)[0])
                                                         and isinstance(match.compare_parts(t)[1], (ast.Eq, ast.LtE))
                                                         and isinstance(match.compare_parts(t)[2], ast.Constant)
                                                         and match.compare_parts(t)[2].value == 0) else None)
    # a pass "enters the decision" when it takes the true side of the snapshot test or of a _suicide test; from there every
    # feasible path (consistent in lastAction/_suicide and copies of them) must kill or use up a retry before it returns
    decision_edges = {(tn.id, lab) for (tn, lab) in snap_tests + suicide_tests}
    ctx.require(bool(decision_edges) or not snap_tests, "cannot locate the decision block of EngineTaskController")
    base_step = match.stable_step(cfg, stable)

    for (tn, lab) in snap_tests + suicide_tests:
        def step3(src, label, dst, state, _e=(tn.id, lab)):
            st, entered = state
            ns = base_step(src, label, dst, st)
            if ns is None:
                return None
            return (ns, entered or ((src.id, label) == _e))
        pr = cfg.reach_product(cfg.entry, (frozenset(), False), step3, blocked=kills + decs, ignore_labels=("exc",))
        ok = not any(nid == cfg.exit.id and st[1] for (nid, st) in pr)
        ctx.ob("C13.R2-progress", tn.ast, ok,
               "every feasible path that takes this decision calls kill() or uses up one retry" if ok else
               "a path through the decision block neither kills the engine nor decrements repeatRetries: the engine can "
               "spin forever after its producers finished", construct="decision %s: kill() or repeatRetries -= 1" % short(tn.ast, 50))
    for d in decs:
        ok = isinstance(d.ast.value, ast.Constant) and d.ast.value.value == 1
        ctx.ob("C13.R2-progress", d.ast, ok, "repeatRetries is decremented by 1" if ok else "repeatRetries is not decremented by 1")
        ok = bool(zero_tests) and match.only_via_edges(cfg, d, [(n, "F") for n, _ in zero_tests])
        ctx.ob("C13.R2-progress", d.ast, ok, "the decrement happens only after the '== 0' test failed" if ok else
               "repeatRetries can be decremented without testing for 0 first (it can go negative and never stop)",
               construct=short(d.ast) + " <- repeatRetries != 0")
    for (zn, _) in zero_tests:
        # the option is not range-checked (any int passes validation): 'no retries left' has to hold for negative values too
        op = match.compare_parts(zn.ast)[1]
        init_vals = [v for f in eng.functions.values() for d in ast.walk(f) if isinstance(d, ast.Dict)
                     for (k, v) in zip(d.keys, d.values) if isinstance(k, ast.Constant) and k.value == "repeatRetries"]
        clamped = bool(init_vals) and all(isinstance(match.resolve_local(eng.func("RepeatingEngine.__init__"), v), ast.Call)
                                          and call_name(match.resolve_local(eng.func("RepeatingEngine.__init__"), v)) in ("max", "abs") for v in init_vals)
        ok = isinstance(op, ast.LtE) or clamped
        ctx.ob("C13.R2-progress", zn.ast, ok, "'no retries left' holds for every non-positive counter" if ok else
               "'no retries left' is tested with '== 0' while the configured repeatRetries is not range-checked: with 'repeatRetries: -1' the "
               "counter starts below zero, the test never holds, and an observer whose task keeps failing after its producers finished "
               "never stops (the counter only moves away from 0)", construct="repeatRetries <no retries left> covers negatives")
        succ = [m for (m, l2) in zn.succ if l2 == "T"]
        r = cfg.reach(succ, blocked=kills, ignore_labels=("exc",))
        ok = cfg.exit.id not in r
        ctx.ob("C13.R2-progress", zn.ast, ok, "no retries left => kill()" if ok else "no retries left does not lead to kill()")
    if not decs:
        ctx.ob("C13.R2-progress", etc, False, "repeatRetries is never decremented in EngineTaskController",
               construct="repeatRetries -= 1 (missing)")
    # other writers of repeatRetries in the module
    writers = 0
    for q, f in eng.functions.items():
        for n in source.walk_own(f):
            tgt = n.target if isinstance(n, ast.AugAssign) else (n.targets[0] if isinstance(n, ast.Assign) else None)
            if tgt is not None and isinstance(tgt, ast.Subscript) and isinstance(tgt.slice, ast.Constant) \
                    and tgt.slice.value == "repeatRetries":
                writers += 1
                ok = q == "RepeatingEngine.run.EngineTaskController" and isinstance(n, ast.AugAssign) and isinstance(n.op, ast.Sub)
                ctx.ob("C13.R2-progress", n, ok, "repeatRetries written only by the decrement" if ok else
                       "repeatRetries is written in %s (it can be replenished: no bounded number of attempts)" % q)
    init = eng.func("RepeatingEngine.__init__")
    mr_names = {t.id for n in source.walk_own(init) if isinstance(n, ast.Assign) and isinstance(n.value, ast.Subscript)
                and isinstance(n.value.slice, ast.Constant) and n.value.slice.value == "repeatRetries" for t in n.targets if isinstance(t, ast.Name)}
    mr = [v for nm in mr_names for v in match.assigned_value(init, nm)]
    ok_src = any(isinstance(v, ast.Subscript) and isinstance(v.slice, ast.Constant) and v.slice.value == "repeatRetries" for v in mr)
    ok_def = any(isinstance(v, ast.Constant) and v.value == 3 for v in mr)
    ctx.ob("C13.R2-progress", mr[0] if mr else init, ok_src and ok_def,
           "retries start from workflowAttributes.repeatRetries, default 3" if ok_src and ok_def else
           "initial retries are not 'workflowAttributes.repeatRetries or 3'", construct="max_retries = repeatRetries or 3")

    # a launch that fails - with ANY exception - still reaches the decision block (that is where the retries are counted and the engine
    # stops): the call of the task generator sits in a try whose handlers catch Exception and do not re-raise.  Otherwise the monitor
    # wraps the error, sleeps and calls the action again, for ever
    from vlib import escape as _esc
    for g in gens:
        call_ast = [c for c in own_calls(g.ast) if call_name(c) == "self.taskGenerator"][0]
        tries = [a for a in source.ancestors(call_ast) if isinstance(a, ast.Try) and any(any(call_ast is x for x in ast.walk(st)) for st in a.body)]
        contained = False
        for t in tries:
            for h in t.handlers:
                ht = _esc.handler_types(h)
                if (ht is None or ht & {"Exception", "BaseException"}) and not any(isinstance(x, ast.Raise) for st in h.body for x in ast.walk(st)):
                    contained = True
        ctx.ob("C13.R2-progress", g.ast, contained,
               "every failure of the task generator is caught and counted as a failed attempt" if contained else
               "the handlers around self.taskGenerator(..) catch %s only: any other exception leaves EngineTaskController before the decision "
               "block - no retry is used up, the engine is not stopped, and the monitor (which wraps the error, sleeps 5 s and calls the action "
               "again) repeats the attempt for ever once the producers have finished" % (
                   ", ".join(sorted({x for t in tries for h in t.handlers for x in (_esc.handler_types(h) or {"everything"})})) or "nothing"),
               construct="self.taskGenerator(..) <- except Exception (no re-raise)")

    # ---------------- R3 ------------------------------------------------------------------------------
    consume_tests = match.test_nodes(cfg, lambda t: match.polarity(t, lambda e: source.src(e) == "self.consume"))
    newout_names = {t.id for n in source.walk_own(etc) if isinstance(n, ast.Assign) and isinstance(n.value, ast.Call)
                    and last_attr(n.value) == "producersHaveOutputSinceDate" for t in n.targets if isinstance(t, ast.Name)}
    ctx.require(bool(newout_names), "anchor missing: <local> = self.job.producersHaveOutputSinceDate(..) in EngineTaskController")
    newout_tests = match.test_nodes(cfg, lambda t: "T" if isinstance(t, ast.Name) and t.id in newout_names else None)
    noprod_tests = match.test_nodes(cfg, lambda t: match.polarity(
        t, lambda e: isinstance(e, ast.Call) and call_name(e) == "bool" and "producerInstances" in source.src(e)))
    for g in gens:
        ok = bool(consume_tests) and match.only_via_edges(cfg, g, consume_tests)
        ctx.ob("C13.R3-consume-before-execute", g.ast, ok,
               "the task is generated only when the engine was able to consume" if ok else
               "the task can be generated although the engine could never consume producer output",
               construct="taskGenerator <- self.consume")
        edges = newout_tests + [(n, match.other(l)) for n, l in noprod_tests]
        ok = bool(newout_tests) and match.only_via_edges(cfg, g, edges)
        ctx.ob("C13.R3-consume-before-execute", g.ast, ok,
               "the task is generated only when there is new output (or the component has no producers)" if ok else
               "the task can be generated without new producer output", construct="taskGenerator <- isNewOutput or no producers")
    for q, f in eng.functions.items():
        for n in source.walk_own(f):
            if isinstance(n, ast.Assign) and any(source.src(t) == "self._consume" for t in n.targets):
                val = n.value
                if isinstance(val, ast.Constant) and val.value is False:
                    continue
                ok = q in ("Engine.canConsume", "Engine.run", "Engine.__init__", "RepeatingEngine.__init__")
                ctx.ob("C13.R3-consume-before-execute", n, ok, "_consume set in %s" % q if ok else
                       "_consume is set to a non-False value in %s (only canConsume / Engine.run may decide it)" % q)

    # the sticky flag holds a FINAL verdict: inside canConsume no test of a producer's output can follow a store of a non-False value
    # (the caller keeps whatever the flag holds when the test raises FilesystemInconsistencyError)
    cc = eng.func("Engine.canConsume")
    ctx.analysed(cc)
    c_cc = CFG(cc)
    ctx.paths += c_cc.paths_count()
    scans = [n for n in c_cc.nodes if n.kind == "for" and isinstance(n.ast, ast.For) and "producerInstances" in source.src(n.ast.iter)]
    ctx.require(bool(scans), "anchor missing: the loop over producerInstances in Engine.canConsume")
    sets = [n for n in c_cc.nodes if n.kind == "stmt" and isinstance(n.ast, ast.Assign) and any(source.src(t) == "self._consume" for t in n.ast.targets)
            and not (isinstance(n.ast.value, ast.Constant) and n.ast.value.value is False)]
    ctx.floor("C13.R3-consume-before-execute", len(sets), 1, "stores of a non-False value into self._consume in Engine.canConsume")
    for sn in sets:
        after = c_cc.reach([sn], include_starts=False)
        ok = not any(l.id in after for l in scans)
        ctx.ob("C13.R3-consume-before-execute", sn.ast, ok,
               "_consume is set after the producers were tested (no test of producer output can follow the store)" if ok else
               "_consume is set to %s BEFORE the producers' working directories are tested: when a listing raises "
               "FilesystemInconsistencyError the caller keeps the flag ('will assume canConsume=%%s'), the optimistic value sticks and the "
               "repeating engine executes although no producer has output" % short(sn.ast.value, 20),
               construct="canConsume: self._consume = <verdict> after the producer scan")

    # ---------------- R4 ------------------------------------------------------------------------------
    si = wf.func("ComponentState.stageIn")
    ctx.analysed(si)
    c2 = CFG(si)
    ctx.paths += c2.paths_count()
    rep_tests = match.test_nodes(c2, lambda t: "T" if (isinstance(t, ast.Call) and call_name(t) == "isinstance" and len(t.args) == 2
                                                       and "RepeatingEngine" in source.src(t.args[1])) else None)
    ctx.require(bool(rep_tests), "anchor missing: isinstance(self.engine, RepeatingEngine) in ComponentState.stageIn")
    wrappers = set()
    for n in source.walk_own(si):
        if isinstance(n, ast.Assign) and isinstance(n.value, ast.Call) and any(
                source.src(a) == "self._notifyProducersFinished" for a in n.value.args):
            for t in n.targets:
                if isinstance(t, ast.Name):
                    wrappers.add(t.id)

    def wires(c: ast.Call) -> bool:
        if call_name(c) == "self._notifyProducersFinished":
            return True
        if last_attr(c) == "subscribe":
            for kw in c.keywords:
                if kw.arg == "on_completed" and (source.src(kw.value) == "self._notifyProducersFinished" or
                                                 (isinstance(kw.value, ast.Name) and kw.value.id in wrappers)):
                    return True
        return False
    wire_nodes = match.nodes_calling(c2, wires)
    for (tn, _) in rep_tests:
        succ = [m for (m, l2) in tn.succ if l2 == "T"]
        r = c2.reach(succ, blocked=wire_nodes, ignore_labels=("exc",))
        ok = bool(wire_nodes) and c2.exit.id not in r
        ctx.ob("C13.R4-notification-wiring", tn.ast, ok,
               "a repeating component either subscribes _notifyProducersFinished as on_completed of its live producers or "
               "calls it immediately" if ok else
               "a repeating component can finish stageIn without any route to _notifyProducersFinished: it never learns "
               "that its producers finished and never stops", construct="stageIn wires _notifyProducersFinished")
    # subscription source: merged notifyFinished of alive producers
    ps = [n.value for n in source.walk_own(si) if isinstance(n, ast.Assign) and isinstance(n.value, ast.ListComp)
          and "notifyFinished" in source.src(n.value.elt)]
    ok = any(isinstance(v, ast.ListComp) and "notifyFinished" in source.src(v.elt) and "self.producers" in source.src(v.generators[0].iter)
             for v in ps)
    ctx.ob("C13.R4-notification-wiring", ps[0] if ps else si, ok, "the merged stream is built from every producer's notifyFinished" if ok else
           "the merged stream is no longer built from every producer's notifyFinished")
    # ... of the producer COMPONENT: the engine's own notifyFinished also fires when a task exits and the controller is about to
    # restart the producer (ResourceExhausted, SubmissionFailed) - the producer has not finished then
    for v in ps:
        tgt = v.generators[0].target.id if isinstance(v.generators[0].target, ast.Name) else None
        comp_level = isinstance(v.elt, ast.Attribute) and v.elt.attr == "notifyFinished" and isinstance(v.elt.value, ast.Name) and v.elt.value.id == tgt
        ctx.ob("C13.R4-notification-wiring", v, comp_level,
               "the observer waits for the notifyFinished of the producer components (a restarted producer is not finished)" if comp_level else
               "the observer subscribes to %s instead of the producer component's notifyFinished: the engine-level event also fires between two "
               "launches of a producer that is being restarted, so the observer is told 'all producers finished' while one of them is about "
               "to produce more output - it runs once more, succeeds and stops without ever seeing the restarted producer's final output"
               % short(v.elt, 40), construct="producers-finished stream <- <producer component>.notifyFinished")
    npf = wf.func("ComponentState._notifyProducersFinished")
    calls = [c for c in source.calls_in(npf) if last_attr(c) == "notify_all_producers_finished"]
    c3 = CFG(npf)
    nn = match.nodes_calling(c3, lambda c: last_attr(c) == "notify_all_producers_finished")
    err_tests = match.test_nodes(c3, lambda t: "T" if (match.compare_parts(t) and isinstance(match.compare_parts(t)[0], ast.Name)
                                                       and match.compare_parts(t)[0].id == "error"
                                                       and isinstance(match.compare_parts(t)[1], ast.IsNot)) else None)
    r = c3.reach([c3.entry], blocked=nn, blocked_edges={(n.id, "T") for n, _ in err_tests})
    ok = bool(nn) and c3.exit.id not in r
    ctx.ob("C13.R4-notification-wiring", npf, ok, "_notifyProducersFinished (without error) notifies the engine" if ok else
           "_notifyProducersFinished can return without calling engine.notify_all_producers_finished",
           construct="_notifyProducersFinished -> notify_all_producers_finished")
    nap = eng.func("RepeatingEngine.notify_all_producers_finished")
    c4 = CFG(nap)
    sets = [n for n in c4.nodes if n.kind == "stmt" and isinstance(n.ast, ast.Assign) and any(source.src(t) == LIVE for t in n.ast.targets)
            and isinstance(n.ast.value, ast.Constant) and n.ast.value.value is True]
    timers = match.nodes_calling(c4, lambda c: (call_name(c) or "").endswith("timer"))
    r = c4.reach([c4.entry], blocked=sets)
    ok = bool(sets) and c4.exit.id not in r and all(c4.every_path_to_passes(t, gates=sets) for t in timers)
    ctx.ob("C13.R4-notification-wiring", nap, ok, "the flag is set on every path, before the optional kill timer is armed" if ok else
           "notify_all_producers_finished can return (or arm the timer) without setting _producers_are_finished",
           construct="_producers_are_finished = True first")
    # the flag has no other writer that clears it
    for q, f in eng.functions.items():
        for n in source.walk_own(f):
            if isinstance(n, ast.Assign) and any(source.src(t) == LIVE for t in n.targets):
                ok = (q == "RepeatingEngine.notify_all_producers_finished") or \
                     (q == "RepeatingEngine.__init__" and isinstance(n.value, ast.Constant) and n.value.value is False)
                ctx.ob("C13.R4-notification-wiring", n, ok, "flag written in %s" % q if ok else
                       "_producers_are_finished is written in %s" % q, trivial=(q == "RepeatingEngine.__init__"))

    # ---------------- R5 ------------------------------------------------------------------------------
    sni = eng.func("RepeatingEngine.run.schedule_next_instance")
    ctx.analysed(sni)
    c5 = CFG(sni)
    lt = match.test_nodes(c5, lambda t: "T" if source.src(t) == LIVE else None)
    ok = False
    for (tn, _) in lt:
        succ = [m for (m, l2) in tn.succ if l2 == "T"]
        rets = [n for n in c5.nodes if n.kind == "stmt" and isinstance(n.ast, ast.Return)]
        true_rets = [n for n in rets if isinstance(n.ast.value, ast.Constant) and n.ast.value.value is True]
        r = c5.reach(succ, blocked=true_rets)
        ok = bool(true_rets) and c5.exit.id not in r
    ctx.ob("C13.R5-last-action", sni, ok, "once producers are finished the next poll fires immediately (after the 5 s floor)" if ok else
           "schedule_next_instance no longer returns True when the producers are finished: the last observation waits for "
           "a full repeat interval (or never happens)", construct="if self._producers_are_finished: return True")
    runf = eng.func("RepeatingEngine.run")
    cm = [c for c in source.calls_in(runf) if last_attr(c) == "CreateMonitor"]
    ctx.require(bool(cm), "anchor missing: CreateMonitor call in RepeatingEngine.run")
    for c in cm:
        kw = [k for k in c.keywords if k.arg == "lastAction"]
        ok = (not kw and len(c.args) < 4) or (kw and isinstance(kw[0].value, ast.Constant) and kw[0].value.value is True)
        ctx.ob("C13.R5-last-action", c, bool(ok), "the monitor is created with lastAction=True" if ok else
               "the monitor is created without lastAction=True: the final observation after kill() is skipped")
        ok = len(c.args) >= 2 and isinstance(c.args[0], ast.Name) and c.args[0].id == "schedule_next_instance" \
            and isinstance(c.args[1], ast.Name) and c.args[1].id == "EngineTaskController"
        ctx.ob("C13.R5-last-action", c, ok, "the monitor polls schedule_next_instance and runs EngineTaskController" if ok else
               "the monitor is not wired to schedule_next_instance / EngineTaskController", construct="CreateMonitor(schedule_next_instance, EngineTaskController)")
    monf = mon.func("CreateMonitor.Monitor")
    ctx.analysed(monf)
    c6 = CFG(monf)
    cancel_tests = match.test_nodes(c6, lambda t: "T" if (isinstance(t, ast.Call) and last_attr(t) == "is_set" and "cancelEvent" in source.src(t)) else None)
    # roles of two locals of the monitor loop: CONT = the name tested by the while loop that contains the action call;
    # EXE = the name whose truth guards the action call
    acts0 = [c for c in ast.walk(monf) if isinstance(c, ast.Call) and call_name(c) == "action"]
    ctx.require(bool(acts0), "anchor missing: action(...) call in the monitor")
    loops_ = [a for a in source.ancestors(acts0[0]) if isinstance(a, ast.While) and isinstance(a.test, ast.Name)]
    guards_ = [a for a in source.ancestors(acts0[0]) if isinstance(a, ast.If) and isinstance(a.test, ast.Name)]
    ctx.require(bool(loops_) and bool(guards_), "anchor missing: 'while <flag>: ... if <flag>: action(..)' in the monitor")
    CONT, EXE = loops_[0].test.id, guards_[0].test.id
    exe_defs = [n for n in c6.nodes if n.kind == "stmt" and isinstance(n.ast, ast.Assign)
                and any(isinstance(t, ast.Name) and t.id == EXE for t in n.ast.targets)]
    last_defs = [n for n in exe_defs if isinstance(n.ast.value, ast.Name) and n.ast.value.id == "lastAction"]
    acts = match.nodes_calling(c6, lambda c: call_name(c) == "action")
    exe_tests = match.test_nodes(c6, lambda t: "T" if isinstance(t, ast.Name) and t.id == EXE else None)
    ok = bool(last_defs) and bool(cancel_tests) and all(match.only_via_edges(c6, d, cancel_tests) for d in last_defs)
    bad_defs = [d for d in exe_defs if d not in last_defs and not (isinstance(d.ast.value, ast.Constant) and d.ast.value.value is True)]
    ok = ok and not bad_defs
    ctx.ob("C13.R5-last-action", monf, ok, "after cancel the monitor executes the action iff lastAction" if ok else
           "after cancel the monitor no longer sets executeAction = lastAction", construct="executeAction = lastAction on cancel")
    for a in acts:
        ok = bool(exe_tests) and match.only_via_edges(c6, a, exe_tests)
        call = [c for c in own_calls(a.ast) if call_name(c) == "action"][0]
        ok2 = len(call.args) == 1 and source.src(call.args[0]) == "not " + CONT
        ctx.ob("C13.R5-last-action", call, ok and ok2, "action(not continueAction) under executeAction" if ok and ok2 else
               "the monitor's action call is no longer 'action(not continueAction)' under executeAction")
    # after the last action the loop ends (continueAction False on cancel)
    cont_defs = [n for n in c6.nodes if n.kind == "stmt" and isinstance(n.ast, ast.Assign)
                 and any(isinstance(t, ast.Name) and t.id == CONT for t in n.ast.targets)
                 and isinstance(n.ast.value, ast.Constant) and n.ast.value.value is False]
    ok = bool(cont_defs) and all(match.only_via_edges(c6, d, cancel_tests) for d in cont_defs)
    ctx.ob("C13.R5-last-action", monf, ok, "the monitor stops looping only after the cancel event" if ok else
           "continueAction is cleared outside the cancel branch", construct="continueAction = False only on cancel")
    # the prologue of EngineTaskController: lastAction => kernelCompleted = lastAction
    kc = [n for n in cfg.nodes if n.kind == "stmt" and isinstance(n.ast, ast.Assign)
          and any(source.src(t) == "self.kernelCompleted" for t in n.ast.targets)
          and ((isinstance(n.ast.value, ast.Name) and n.ast.value.id == "lastAction")
               or (isinstance(n.ast.value, ast.Constant) and n.ast.value.value is True))]
    r5 = match.reach_consistent(cfg, [cfg.entry], stable, blocked=kc, ignore_labels=("exc",), init=[("lastAction", True)])
    ok = bool(kc) and "lastAction" in stable and cfg.exit.id not in r5
    ctx.ob("C13.R5-last-action", kc[0].ast if kc else etc, ok, "the final call marks the kernel completed" if ok else
           "the final call (lastAction) no longer marks the kernel as completed", construct="lastAction => self.kernelCompleted = True")
    # the final observation itself: with lastAction (and not suicide) nothing executes; the execution that began after
    # producers finished is the one guarded by R1.

    # ---------------- R6 ------------------------------------------------------------------------------
    er = eng.func("RepeatingEngine.exitReason")
    ctx.analysed(er)
    c7 = CFG(er)
    ret_names = {n.ast.value.id for n in c7.nodes if n.kind == "stmt" and isinstance(n.ast, ast.Return) and isinstance(n.ast.value, ast.Name)}
    ctx.require(len(ret_names) == 1, "anchor missing: RepeatingEngine.exitReason returns one local (found %s)" % sorted(ret_names))
    REASON = next(iter(ret_names))
    sets_ = [n for n in c7.nodes if n.kind == "stmt" and isinstance(n.ast, ast.Assign)
             and any(isinstance(t, ast.Name) and t.id == REASON for t in n.ast.targets)
             and not (isinstance(n.ast.value, ast.Constant) and n.ast.value.value is None)]
    cancel = match.test_nodes(c7, lambda t: "T" if (isinstance(t, ast.Call) and last_attr(t) == "is_set") else None)
    proc = match.test_nodes(c7, lambda t: "T" if (match.compare_parts(t) and source.src(match.compare_parts(t)[0]) == "self.process"
                                                  and isinstance(match.compare_parts(t)[1], ast.IsNot)) else None)
    kcomp = match.test_nodes(c7, lambda t: "T" if source.src(t) == "self.kernelCompleted" else None)
    ctx.floor("C13.R6-exit-reason", len(sets_), 2, "non-None assignments of reason in RepeatingEngine.exitReason")
    for s_ in sets_:
        ok = bool(cancel) and match.only_via_edges(c7, s_, cancel)
        ctx.ob("C13.R6-exit-reason", s_.ast, ok, "exit reason only after the cancel event" if ok else
               "RepeatingEngine.exitReason can be non-None while the monitor has not been cancelled (engine looks dead while running)",
               construct=short(s_.ast) + " <- cancel event set")
        edges = [(n, "F") for n, _ in proc] + [(n, "T") for n, _ in kcomp]
        ok = bool(edges) and match.only_via_edges(c7, s_, edges)
        ctx.ob("C13.R6-exit-reason", s_.ast, ok, "exit reason only if no process ever ran or the kernel completed" if ok else
               "RepeatingEngine.exitReason can be non-None before the final kernel execution completed",
               construct=short(s_.ast) + " <- no process or kernelCompleted")
    rets = [n for n in c7.nodes if n.kind == "stmt" and isinstance(n.ast, ast.Return)]
    for r_ in rets:
        ok = isinstance(r_.ast.value, ast.Name) and r_.ast.value.id == REASON
        ctx.ob("C13.R6-exit-reason", r_.ast, ok, "returns the computed reason" if ok else "exitReason returns something else than the computed reason",
               trivial=True)
