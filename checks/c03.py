"""C03 - replication expands a workflow without changing its dataflow.  See DESIGN.md section C03."""
from __future__ import annotations

import ast
from typing import List, Optional, Set

from vlib import match, source, sub
from vlib.cfg import CFG, own_calls
from vlib.source import AnalysisError, call_name, dotted, last_attr, short

from checks.c10 import check_site

FLOWIR = "python/experiment/model/frontends/flowir.py"


def _fmt_assign(fn: ast.AST, target_pred) -> List[ast.Assign]:
    out = []
    for n in source.walk_own(fn):
        if isinstance(n, ast.Assign) and any(target_pred(t) for t in n.targets) and isinstance(n.value, ast.BinOp) \
                and isinstance(n.value.op, ast.Mod) and isinstance(n.value.left, ast.Constant):
            out.append(n)
    return out


def expanded_output(app: ast.AST):
    """(name of the collection apply_replicate returns, the item stores into it): `return X` or `return list(X.values())`.
    Shared with C11.R8: the duplicate-identifier check runs on what this function returns."""
    name = None
    for r in source.walk_own(app):
        if isinstance(r, ast.Return) and r.value is not None:
            v = r.value
            if isinstance(v, ast.Name):
                name = v.id
            else:
                names = [x.id for x in ast.walk(v) if isinstance(x, ast.Name) and x.id not in ("list", "sorted", "tuple")]
                if names:
                    name = names[0]
    name = name or "all_components"
    keyed = [n for n in source.walk_own(app) if isinstance(n, ast.Assign) and any(
        isinstance(t, ast.Subscript) and isinstance(t.value, ast.Name) and t.value.id == name for t in n.targets)]
    keyed += [c for c in source.walk_own(app) if isinstance(c, ast.Call) and last_attr(c) in ("setdefault", "update", "add")
              and isinstance(c.func.value, ast.Name) and c.func.value.id == name]
    return name, keyed


def run(ctx) -> None:
    ctx.explanation = (
        "SUB rule on the textual reference rewriting of FlowIR.compile_component_replica / compile_component_aggregate, "
        "agreement of the replica naming formats between component names and rewritten references, index ranges, the "
        "guard under which a reference counts as replicated, the three-way emission in apply_replicate and the "
        "topological propagation rule. Decides these structural necessary conditions; it does not compare the expanded "
        "dataflow with an independent expansion.")
    ctx.rule("C03.R1-anchored-rewrite", "reference rewriting during replication is escaped and boundary-anchored")
    ctx.rule("C03.R6-chain-safe-order", "references are rewritten one key after the other on the same string and the inserted text "
             "(<producer><index>) can be the spelling of another replicated producer (Run -> Run1): the loop over the keys must "
             "run longest-first, so that inserted text is never rewritten again")
    ctx.rule("C03.R7-fresh-variable-scope", "the variables that resolve a component's replicate/aggregate are layered on a scope created "
             "for that component: override_object merges IN PLACE into its first argument, so that argument must be a fresh copy "
             "made in the same loop iteration (never a cached or shared scope that would accumulate other components' variables)")
    ctx.rule("C03.R2-naming-agreement", "replica component names and replica references use the same format and index; "
                                        "indices run over range(count); variables['replica'] is the index")
    ctx.rule("C03.R11-memo-keys-cover-what-varies", "a local memo 'if K not in D: D[K] = f(args)' inside the replication functions mentions in K every "
             "argument of f that changes between the iterations: a reference parsed once per TEXT is wrong for a relative reference, which "
             "means another producer in another owner stage - propagate_replicate (who replicates) and apply_replicate (what is rewritten) "
             "then disagree")
    ctx.rule("C03.R10-replica-rewrite-covers-the-component", "compile_component_replica applies its reference translation to the whole component "
             "(replace_strings over the copy of the component itself), or - field by field - to at least references, command, variables, "
             "executors AND override: the per-platform override mirrors every other field and is layered back on top when the "
             "replicated description is queried, so a copy whose override was not rewritten consumes from the unreplicated producer")
    ctx.rule("C03.R9-aggregate-expands-every-occurrence", "in compile_component_aggregate each copy is listed once per reference (no duplicate "
             "in the translation lists), every occurrence of a reference is expanded with the path that follows THAT occurrence (the "
             "replacement is computed from the match it replaces), and the loop over the two spellings of a reference does not stop "
             "after the first one that matched")
    ctx.rule("C03.R8-every-replicated-reference-registered", "in apply_replicate every reference whose producer is a replicated, non-aggregating "
             "component is registered for rewriting: no other condition gates the registration")
    ctx.rule("C03.R3-apply-replicate", "a reference is treated as replicated only if its producer has a positive propagated count "
                                       "and is not aggregating; every component is emitted by one of the three branches")
    ctx.rule("C03.R5-relative-only-same-stage", "the relative spelling of a replicated producer is rewritten only for consumers in the producer's stage")
    ctx.rule("C03.R12-expansion-sees-process-constant-tables", "the expansion decides which references name components with FlowIR's class-level tables "
             "(SpecialFolders ..): no function mutates them in place - otherwise the folders and application dependencies of one workflow stay "
             "'reserved' for every workflow expanded later in the process (the C09 obligation re-used)")
    ctx.rule("C03.R4-propagation", "counts propagate in topological order and an aggregating predecessor contributes None")

    m = ctx.repo.module(FLOWIR)
    rep = m.func("FlowIR.compile_component_replica")
    agg = m.func("FlowIR.compile_component_aggregate")
    cref = m.func("FlowIR.compile_reference")
    app = m.func("FlowIR.apply_replicate")
    prop = m.func("FlowIR.propagate_replicate")
    for f in (rep, agg, cref, app, prop):
        ctx.analysed(f)

    # ---------------- R1 -------------------------------------------------------------------------------
    n_sites = 0
    n_chain = 0
    seen_loops = set()
    for fn, label in ((rep, "a replicated producer's reference"), (agg, "an aggregated producer's reference")):
        for s in sub.find_sites(fn, include_nested=True):
            if sub.is_literal_key(s):
                continue
            # str.split() results etc. are not substitutions; only sites whose subject is the string being rewritten
            n_sites += 1
            owner = source.enclosing_def(s.call) or fn
            check_site(ctx, "C03.R1-anchored-rewrite", owner, s, label)
            # R6: chained rewriting (the result is the subject of the next key's substitution)
            stmt = source.stmt_of(s.call)
            subj = s.subject
            chained = isinstance(stmt, ast.Assign) and isinstance(subj, ast.Name) and any(
                isinstance(t, ast.Name) and t.id == subj.id for t in stmt.targets)
            co = sub.chain_order(owner, s)
            if chained and co is not None:
                order, loop = co
                if id(loop) in seen_loops:
                    continue
                seen_loops.add(id(loop))
                n_chain += 1
                ctx.ob("C03.R6-chain-safe-order", loop, order == "longest-first",
                       "%s: the keys are rewritten longest-first (sorted by len, reverse)" % label if order == "longest-first" else
                       "%s: the keys are rewritten in the order of '%s' on one string: the text inserted for a shorter name "
                       "(Run:ref -> stage0.Run1:ref for replica 1) is the spelling of another replicated producer (Run1) and is "
                       "rewritten again (-> Run11 / Run10 Run11), so a copy consumes from the wrong producer"
                       % (label, short(loop.iter, 50)),
                       construct="for ... in %s: chained rewriting order" % short(loop.iter, 60))
    ctx.floor("C03.R1-anchored-rewrite", n_sites, 2, "reference rewriting sites in replica/aggregate compilation")
    ctx.floor("C03.R6-chain-safe-order", n_chain, 2, "loops that rewrite a string key after key")

    # ---------------- R7 -------------------------------------------------------------------------------
    from vlib import flow

    def innermost_loop(node: ast.AST, fn: ast.AST):
        for a in source.ancestors(node):
            if isinstance(a, (ast.For, ast.While)):
                return a
            if a is fn:
                return None
        return None

    def fresh_copy(e: ast.AST) -> bool:
        if isinstance(e, (ast.Dict, ast.DictComp)):
            return True
        if isinstance(e, ast.Call):
            nm = (call_name(e) or last_attr(e) or "").split(".")[-1]
            return nm in ("deep_copy", "deepcopy", "dict")
        return False
    n7 = 0
    for fn in (app, prop):
        c7 = CFG(fn)
        for call in [c for c in source.calls_in(fn) if last_attr(c) == "override_object" and len(c.args) == 2]:
            n7 += 1
            loop = innermost_loop(call, fn)
            cur_call, why, ok = call, "", None
            for _ in range(6):
                a = cur_call.args[0]
                if fresh_copy(a):
                    ok = True
                    break
                if not isinstance(a, ast.Name):
                    ok, why = False, "its first argument is %s, an object that outlives this iteration" % short(a, 50)
                    break
                st = source.stmt_of(cur_call)
                nodes = [n for n in c7.nodes if n.ast is st]
                rd = flow.reaching_defs(c7, a.id, ignore_labels=("exc",)).get(nodes[0].id, frozenset()) if nodes else frozenset()
                if len(rd) != 1 or -1 in rd:
                    ok, why = False, "'%s' has %d reaching definitions here (or is a parameter)" % (a.id, len(rd))
                    break
                dn = c7.nodes[next(iter(rd))]
                v = flow.def_value(c7, dn.id, a.id)
                if v is None:
                    ok, why = False, "'%s' is not defined by a plain assignment" % a.id
                    break
                if innermost_loop(dn.ast, fn) is not loop:
                    ok, why = False, "'%s' is created outside the loop iteration that merges into it (%s)" % (a.id, short(dn.ast, 60))
                    break
                if fresh_copy(v):
                    ok = True
                    break
                if isinstance(v, ast.Call) and last_attr(v) == "override_object" and len(v.args) == 2:
                    cur_call = v
                    continue
                ok, why = False, "'%s' is %s, not a fresh copy" % (a.id, short(v, 50))
                break
            if ok is None:
                ok, why = False, "the chain of merges is too long to follow"
            ctx.ob("C03.R7-fresh-variable-scope", call, ok,
                   "%s: the scope merged into is a fresh copy of this iteration" % source.qualname(fn).split(".")[-1] if ok else
                   "%s: override_object merges in place and %s: variables of one component leak into the scope of the components "
                   "processed later, e.g. a private 'numberPoints: 4' of an earlier component replaces the global value 2 that a "
                   "later component's 'replicate: %%(numberPoints)s' should resolve to - it is expanded 4 times"
                   % (source.qualname(fn).split(".")[-1], why),
                   construct="%s in %s" % (short(call, 70), source.qualname(fn).split(".")[-1]))
    ctx.floor("C03.R7-fresh-variable-scope", n7, 4, "override_object merges in apply_replicate / propagate_replicate")
    # ... and the layers go on in the order of their priority: global, then the stage's variables, then the component's own - the
    # component's `N: 3` beats the stage's `N: 2` when `replicate: %(N)s` is resolved (seed C03-15: the two merges swapped)
    for fn in (m.func("FlowIR.apply_replicate"), m.func("FlowIR.propagate_replicate")):
        merges = sorted([c for c in source.calls_in(fn, include_nested=False) if last_attr(c) == "override_object" and len(c.args) == 2
                         and isinstance(c.args[1], ast.Name)], key=lambda c: (c.lineno, c.col_offset))

        def layer_kind(name: str) -> str:
            vals = match.assigned_value(fn, name)
            txt = " ".join(source.src(v) for v in vals)
            if "LabelStages" in txt:
                return "stage"
            if "'variables'" in txt or '"variables"' in txt:
                return "component"
            return "?"
        by_loop: Dict[int, List] = {}
        for c in merges:
            by_loop.setdefault(id(innermost_loop(c, fn)), []).append(c)
        for group in by_loop.values():
            kinds = [layer_kind(c.args[1].id) for c in group]
            if "stage" not in kinds or "component" not in kinds:
                continue
            ok = kinds.index("component") > max(i for i, k in enumerate(kinds) if k == "stage") and "?" not in kinds
            ctx.ob("C03.R7-fresh-variable-scope", group[0], ok,
                   "%s: the scope is layered global, stage, component" % fn.name if ok else
                   "%s layers the scope that resolves replicate/aggregate as %s: the stage's variables are applied AFTER the component's own, so a "
                   "component that sets `N: 3` for its `replicate: %%(N)s` is expanded with the stage's `N: 2` - two copies instead of three, and the "
                   "aggregating consumer receives two" % (fn.name, ["global"] + kinds),
                   construct="%s: scope = global < stage < component" % fn.name)

    # ---------------- R5 -------------------------------------------------------------------------------
    # the relative spelling '<producer>:<method>' denotes a producer in the consumer's OWN stage; it may be registered
    # for rewriting only when the replicated producer is in that stage
    n_rel = 0
    for fn in (rep, agg):
        c_ = CFG(fn)
        rel_vars = set()
        for n in source.walk_own(fn, include_nested=True):
            if isinstance(n, ast.Assign) and isinstance(n.value, ast.Call) and last_attr(n.value) == "compile_reference":
                kws = {k.arg for k in n.value.keywords}
                has_stage = "stage_index" in kws or len(n.value.args) >= 4
                if not has_stage:
                    for t in n.targets:
                        if isinstance(t, ast.Name):
                            rel_vars.add(t.id)
        # roles: the producer's stage = first name unpacked from ParseDataReferenceFull(..); the consumer's own stage = a local
        # read from component.get('stage') (possibly 'x or 0')
        prod_stage = {n.targets[0].elts[0].id for n in source.walk_own(fn, include_nested=True)
                      if isinstance(n, ast.Assign) and isinstance(n.targets[0], ast.Tuple) and n.targets[0].elts
                      and isinstance(n.targets[0].elts[0], ast.Name) and isinstance(n.value, ast.Call) and last_attr(n.value) == "ParseDataReferenceFull"}
        own_stage = set(match.locals_where(fn, lambda v: "'stage'" in source.src(v) and "component" in source.src(v)))
        changed = True
        while changed:
            changed = False
            for nm in match.locals_where(fn, lambda v: any(isinstance(x, ast.Name) and x.id in own_stage for x in ast.walk(v))
                                         and not isinstance(v, (ast.Call, ast.Dict, ast.List, ast.ListComp))):
                if nm not in own_stage:
                    own_stage.add(nm)
                    changed = True
        stage_eq = match.test_nodes(c_, lambda t: "T" if (match.compare_parts(t) and isinstance(match.compare_parts(t)[1], ast.Eq)
                                                          and isinstance(match.compare_parts(t)[0], ast.Name) and isinstance(match.compare_parts(t)[2], ast.Name)
                                                          and ((match.compare_parts(t)[0].id in prod_stage and match.compare_parts(t)[2].id in own_stage)
                                                               or (match.compare_parts(t)[2].id in prod_stage and match.compare_parts(t)[0].id in own_stage))) else None)
        for node in c_.nodes:
            if node.ast is None or node.kind not in ("stmt", "for"):
                continue
            uses_rel = None
            a = node.ast
            if node.kind == "stmt" and isinstance(a, ast.Assign) and isinstance(a.targets[0], ast.Subscript) and isinstance(a.targets[0].slice, ast.Name) \
                    and a.targets[0].slice.id in rel_vars:
                uses_rel = a
            if node.kind == "stmt":
                for c in own_calls(a):
                    if last_attr(c) in ("append", "add") and c.args and isinstance(c.args[0], ast.Name) and c.args[0].id in rel_vars:
                        uses_rel = a
            if node.kind == "for" and isinstance(a.iter, (ast.List, ast.Tuple)) and any(isinstance(e, ast.Name) and e.id in rel_vars for e in a.iter.elts):
                uses_rel = a
            if uses_rel is None:
                continue
            n_rel += 1
            ok = bool(stage_eq) and match.only_via_edges(c_, node, stage_eq)
            ctx.ob("C03.R5-relative-only-same-stage", uses_rel, ok,
                   "the relative spelling is registered only when the replicated producer is in the consumer's own stage" if ok else
                   "the relative spelling '<producer>:<method>' of a replicated producer from ANOTHER stage is registered for rewriting: "
                   "a consumer in stage 1 that references stage0.A (replicated) and its own-stage A gets 'A:ref' rewritten to "
                   "stage0.A<i>:ref, i.e. it no longer consumes from the single instance of stage1.A",
                   construct="%s in %s" % (short(uses_rel, 80), source.qualname(fn)))
    ctx.floor("C03.R5-relative-only-same-stage", n_rel, 2, "registrations of the relative spelling")

    # ---------------- R2 -------------------------------------------------------------------------------
    params = [a.arg for a in rep.args.args]
    ctx.require(len(params) >= 4, "unexpected signature of compile_component_replica")
    # ---- R9 (path that follows an aggregated reference): its segments accept every character the left anchor treats as part of a
    # name (apart from the separators '/' and '#'): a file called my-file.txt is a file
    import re._parser as _sre
    agg_fn = m.func("FlowIR.compile_component_aggregate")
    n_sfx = 0
    for c in source.calls_in(agg_fn, include_nested=True):
        if call_name(c) == "re.compile" and c.args and isinstance(c.args[0], ast.BinOp) and isinstance(c.args[0].op, ast.Mod) \
                and isinstance(c.args[0].left, ast.Constant) and isinstance(c.args[0].left.value, str) and "(?:/" in c.args[0].left.value:
            text = c.args[0].left.value.replace("%s", "X")
            try:
                tree = _sre.parse(text)
            except Exception:
                continue
            behind: Set[str] = set()
            seg: Set[str] = set()

            def chars_of(items) -> Set[str]:
                out: Set[str] = set()
                for (op, av) in items:
                    if str(op) == "LITERAL":
                        out.add(chr(av))
                    elif str(op) == "CATEGORY" and "WORD" in str(av):
                        out.add("\\w")
                    elif str(op) == "RANGE":
                        out |= {chr(x) for x in range(av[0], av[1] + 1)}
                return out

            # segments: an IN class that follows a literal '/'
            def find_segments(items):
                prev_slash = False
                for (op, av) in items:
                    o = str(op)
                    if o == "LITERAL" and chr(av) == "/":
                        prev_slash = True
                        continue
                    if o in ("MAX_REPEAT", "MIN_REPEAT"):
                        inner = av[2]
                        if prev_slash and len(inner) == 1 and str(inner[0][0]) == "IN":
                            seg.update(chars_of(inner[0][1]))
                        else:
                            find_segments(inner)
                    elif o == "SUBPATTERN":
                        find_segments(av[3])
                    elif o == "BRANCH":
                        for b in av[1]:
                            find_segments(b)
                    elif o == "ASSERT_NOT" and av[0] == -1:
                        for (op2, av2) in av[1]:
                            if str(op2) == "IN":
                                behind.update(chars_of(av2))
                    prev_slash = False
            find_segments(tree)
            if not seg:
                continue
            n_sfx += 1
            needed = behind - {"/", "#"}
            missing = sorted(needed - seg)
            ctx.ob("C03.R9-aggregate-expands-every-occurrence", c, not missing,
                   "the path repeated with every copy accepts every character a name may contain (%s)" % "".join(sorted(seg)) if not missing else
                   "the path that follows an aggregated reference is matched with the class [%s] although the same pattern treats %s as part of a "
                   "name: 'A:ref/my-file.txt' is cut at the hyphen and expands to 'stage0.A0:ref/my stage0.A1:ref/my-file.txt' - only the last "
                   "copy gets the file the consumer asked for" % ("".join(sorted(seg)), ", ".join(repr(x) for x in missing)),
                   construct="compile_component_aggregate: path class after an aggregated reference")
    ctx.floor("C03.R9-aggregate-expands-every-occurrence", n_sfx, 1, "patterns that repeat the path following an aggregated reference")

    # ---- R11: memo keys
    from vlib import state as _state
    n11 = 0
    n11_fn = 0
    for q_ in ("FlowIR.propagate_replicate", "FlowIR.apply_replicate", "FlowIR.compile_component_replica", "FlowIR.compile_component_aggregate"):
        f_ = m.func(q_)
        n11_fn += 1
        for (st_, table_, key_, missing_) in _state.memo_key_gaps(f_):
            n11 += 1
            ctx.ob("C03.R11-memo-keys-cover-what-varies", st_, not missing_,
                   "%s: the memo %s[%s] is keyed by everything that varies" % (q_, table_, key_) if not missing_ else
                   "%s memoises %s under the key %s although the call also depends on %s, which changes from one component to the next: the first "
                   "owner of a reference text decides which stage every later identical text points to - with the same name in two stages and "
                   "the relative spelling 'Gen:ref' in both, the region that is replicated and the references that are rewritten disagree"
                   % (q_, short(st_.value, 50), key_, ", ".join(missing_)), construct="%s: %s[%s] <- key covers the varying arguments" % (q_, table_, key_))
    if n11 == 0:
        ctx.ob("C03.R11-memo-keys-cover-what-varies", m.func("FlowIR.propagate_replicate"), True,
               "the replication functions keep no local memo (%d functions inspected)" % n11_fn, construct="replication functions: no local memo", trivial=True)
    ctx.floor("C03.R11-memo-keys-cover-what-varies", n11_fn, 4, "replication functions inspected for local memos")

    # ---- R10: what the translation is applied to
    REQUIRED = {"references", "command", "variables", "executors", "override"}
    comp_param = [p_ for p_ in params if p_ not in ("cls", "self")][0]
    comp_names = {comp_param} | set(match.locals_where(rep, lambda v: isinstance(v, ast.Call) and (call_name(v) or "").split(".")[-1] in ("deep_copy", "deepcopy", "copy")
                                                       and v.args and isinstance(v.args[0], ast.Name) and v.args[0].id == comp_param))
    rs_calls = [c for c in source.calls_in(rep, include_nested=False) if last_attr(c) == "replace_strings" and c.args]
    ctx.floor("C03.R10-replica-rewrite-covers-the-component", len(rs_calls), 1, "replace_strings calls in compile_component_replica")
    whole = [c for c in rs_calls if isinstance(c.args[0], ast.Name) and c.args[0].id in comp_names]
    fields: Set[str] = set()
    for c in rs_calls:
        a0 = c.args[0]
        if isinstance(a0, ast.Subscript) and isinstance(a0.value, ast.Name) and a0.value.id in comp_names:
            if isinstance(a0.slice, ast.Constant):
                fields.add(a0.slice.value)
            elif isinstance(a0.slice, ast.Name):
                for lp in source.walk_own(rep):
                    if isinstance(lp, ast.For) and isinstance(lp.target, ast.Name) and lp.target.id == a0.slice.id and isinstance(lp.iter, (ast.Tuple, ast.List)):
                        fields |= {e.value for e in lp.iter.elts if isinstance(e, ast.Constant)}
    ok10 = bool(whole) or REQUIRED <= fields
    ctx.ob("C03.R10-replica-rewrite-covers-the-component", rs_calls[0] if rs_calls else rep, ok10,
           "the translation is applied to the whole component" if whole else
           ("the translation is applied to the fields %s, which include every field that can hold a reference" % sorted(fields)) if ok10 else
           "the reference translation of a copy is applied only to the fields %s, not to %s: the platform override of 'references' / "
           "'command.arguments' keeps naming the unreplicated producer, and get_component_configuration layers that override back on top - on "
           "that platform all N copies consume 'stage0.Simulate/..', a component that no longer exists" % (sorted(fields), sorted(REQUIRED - fields)),
           construct="compile_component_replica: replace_strings covers the component")
    # the in-place rewrite works on a DEEP copy: replace_strings(.., in_place=True) rewrites strings inside nested containers, so on a
    # shallow copy the first replica rewrites 'Gen/out.dat:copy' inside executors.pre[0] for all of them (and for the caller's component) -
    # every later replica finds nothing left to rewrite and stages in replica 0's data (seed C03-14)
    from vlib import flow as _flow10
    for fn10 in (rep, m.func("FlowIR.compile_component_aggregate")):
        cfg10 = CFG(fn10)
        for c in source.calls_in(fn10, include_nested=False):
            if last_attr(c) != "replace_strings" or not c.args or not isinstance(c.args[0], ast.Name):
                continue
            if not any(k.arg == "in_place" and isinstance(k.value, ast.Constant) and k.value.value is True for k in c.keywords):
                continue
            at = [n for n in cfg10.nodes if n.ast is not None and n.kind == "stmt" and any(c is x for x in ast.walk(n.ast))]
            ctx.require(bool(at), "cannot locate the CFG node of %s" % short(c, 60))
            nm = c.args[0].id
            shallow = []
            for d in _flow10.reaching_defs(cfg10, nm).get(at[0].id, frozenset()):
                v = _flow10.def_value(cfg10, d, nm) if d >= 0 else None
                deep = isinstance(v, ast.Call) and (call_name(v) or "").split(".")[-1] in ("deep_copy", "deepcopy")
                again = isinstance(v, ast.Call) and last_attr(v) == "replace_strings"      # the result of an earlier rewrite of the same object
                if not (deep or again):
                    shallow.append(v)
            ctx.ob("C03.R10-replica-rewrite-covers-the-component", c, not shallow,
                   "%s rewrites in place a deep copy of the component" % fn10.name if not shallow else
                   "%s rewrites strings in place (replace_strings(.., in_place=True)) in an object that is not a deep copy of the component (%s): "
                   "nested containers (executors.pre[..], resourceManager.<backend>) are shared by all N copies and by the caller's description, the "
                   "first copy rewrites 'Gen/out.dat:copy' to 'stage0.Gen0/..' for every copy - copy i no longer consumes from copy i"
                   % (fn10.name, short(shallow[0], 60) if shallow[0] is not None else "the parameter itself"),
                   construct="%s: in-place rewrite <- deep copy" % fn10.name)
    p_replica = params[2]
    names = _fmt_assign(rep, lambda t: isinstance(t, ast.Subscript) and isinstance(t.slice, ast.Constant) and t.slice.value == "name")
    prods = _fmt_assign(cref, lambda t: isinstance(t, ast.Name) and t.id == "producer")
    ctx.require(bool(names), "anchor missing: component['name'] = fmt % (...) in compile_component_replica")
    ctx.require(bool(prods), "anchor missing: producer = fmt % (...) in compile_reference")
    f1, f2 = names[0].value.left.value, prods[0].value.left.value
    ok = f1 == f2
    ctx.ob("C03.R2-naming-agreement", names[0], ok,
           "replica component names and replica references share the format %r" % f1 if ok else
           "replica component names use %r but rewritten references use %r: consumers point to components that do not exist"
           % (f1, f2), construct="name format %r vs reference format %r" % (f1, f2))
    r = names[0].value.right
    ok = isinstance(r, ast.Tuple) and len(r.elts) == 2 and "name" in source.src(r.elts[0]) and isinstance(r.elts[1], ast.Name) \
        and r.elts[1].id == p_replica
    ctx.ob("C03.R2-naming-agreement", names[0], ok, "the name suffix is the replica index" if ok else
           "the replica name is not built from (original name, replica index)", construct=short(names[0]))
    r = prods[0].value.right
    ok = isinstance(r, ast.Tuple) and len(r.elts) == 2 and isinstance(r.elts[0], ast.Name) and r.elts[0].id == "producer" \
        and isinstance(r.elts[1], ast.Name) and r.elts[1].id == "replica_id"
    ctx.ob("C03.R2-naming-agreement", prods[0], ok, "the reference suffix is replica_id" if ok else
           "compile_reference does not append replica_id to the producer", construct=short(prods[0]))
    # the printer prints the parts it is given: replication finds the references of a component by PARSING them but rewrites them as
    # text, searching for the spelling that compile_reference() builds from the parsed parts - a part that the printer normalises
    # (os.path.normpath on the file, a case change ..) gives a key that is not in the component's text, and the reference keeps naming
    # the unreplicated producer.  Only the producer may be rebound, by the two documented formats (replica suffix, stage prefix)
    part_params = [a.arg for a in cref.args.args if a.arg in ("producer", "filename", "method")]
    for st in source.walk_own(cref):
        if isinstance(st, (ast.Assign, ast.AugAssign)):
            tg = st.targets if isinstance(st, ast.Assign) else [st.target]
            for t in tg:
                if isinstance(t, ast.Name) and t.id in part_params:
                    v = st.value
                    documented = t.id == "producer" and isinstance(v, ast.BinOp) and isinstance(v.op, ast.Mod) and isinstance(v.left, ast.Constant) \
                        and v.left.value in ("%s%d", "stage%d.%s")
                    ctx.ob("C03.R2-naming-agreement", st, documented,
                           "compile_reference rebinds the producer with the documented format %r" % v.left.value if documented else
                           "compile_reference rewrites the %s part before printing (%s): the text that replication searches for is no longer the "
                           "text of the component ('Gen/outputs/:ref' vs 'Gen/outputs:ref'), the consumer is replicated but every copy keeps its "
                           "reference to the unreplicated producer" % (t.id, short(st, 60)),
                           construct="compile_reference prints %s as given" % t.id)
    # variables['replica'] = replica
    vr = [n for n in source.walk_own(rep) if isinstance(n, ast.Assign) and any(
        isinstance(t, ast.Subscript) and isinstance(t.slice, ast.Constant) and t.slice.value == "replica" for t in n.targets)]
    ok = bool(vr) and isinstance(vr[0].value, ast.Name) and vr[0].value.id == p_replica
    ctx.ob("C03.R2-naming-agreement", vr[0] if vr else rep, ok, "each copy knows its own replica index" if ok else
           "variables['replica'] is not set to the replica index", construct="variables['replica'] = %s" % p_replica)
    # replica_id passed to compile_reference is the same index
    for fn, idxname in ((rep, p_replica),):
        calls = [c for c in source.calls_in(fn) if last_attr(c) == "compile_reference" and any(k.arg == "replica_id" for k in c.keywords)]
        ctx.require(bool(calls), "anchor missing: compile_reference(..., replica_id=...) in %s" % source.qualname(fn))
        for c in calls:
            kw = [k for k in c.keywords if k.arg == "replica_id"][0]
            ok = isinstance(kw.value, ast.Name) and kw.value.id == idxname
            ctx.ob("C03.R2-naming-agreement", c, ok, "copy i consumes from copy i of each replicated producer" if ok else
                   "the rewritten reference does not use the consumer's own replica index")
    # loops over range(count)
    loops_app = [n for n in source.walk_own(app) if isinstance(n, ast.For) and isinstance(n.iter, ast.Call)
                 and call_name(n.iter) == "range" and any(last_attr(c) == "compile_component_replica" for c in source.calls_in(n))]
    ctx.require(bool(loops_app), "anchor missing: for replica in range(replicate) in apply_replicate")
    for lp in loops_app:
        call = [c for c in source.calls_in(lp) if last_attr(c) == "compile_component_replica"][0]
        ok = len(lp.iter.args) == 1 and isinstance(lp.iter.args[0], ast.Name) and isinstance(lp.target, ast.Name) \
            and len(call.args) >= 3 and isinstance(call.args[1], ast.Name) and call.args[1].id == lp.target.id \
            and isinstance(call.args[2], ast.Name) and call.args[2].id == lp.iter.args[0].id
        ctx.ob("C03.R2-naming-agreement", lp, ok, "exactly N copies with indices 0..N-1 are generated" if ok else
               "the replica loop does not generate indices range(N) / passes the wrong index or total",
               construct="for %s in %s: compile_component_replica" % (source.src(lp.target), source.src(lp.iter)))
    loops_agg = [n for n in source.walk_own(agg) if isinstance(n, ast.For) and isinstance(n.iter, ast.Call) and call_name(n.iter) == "range"]
    ctx.require(bool(loops_agg), "anchor missing: for replica in range(count) in compile_component_aggregate")
    for lp in loops_agg:
        calls = [c for c in source.calls_in(lp) if last_attr(c) == "compile_reference" and any(k.arg == "replica_id" for k in c.keywords)]
        ok = len(lp.iter.args) == 1 and isinstance(lp.iter.args[0], ast.Name) and lp.iter.args[0].id == agg.args.args[2].arg \
            and bool(calls) and all(isinstance([k for k in c.keywords if k.arg == "replica_id"][0].value, ast.Name) and
                                    [k for k in c.keywords if k.arg == "replica_id"][0].value.id == lp.target.id for c in calls)
        apps = [c for c in source.calls_in(lp) if last_attr(c) == "append"]
        ok = ok and bool(apps)
        ctx.ob("C03.R2-naming-agreement", lp, ok, "the aggregating component consumes all N copies in index order" if ok else
               "the aggregate expansion does not list copies 0..N-1 in order", construct="for %s in %s (aggregate)" % (source.src(lp.target), source.src(lp.iter)))

    # ---------------- R9 -------------------------------------------------------------------------------
    cfg_agg = CFG(agg)
    for lp in loops_agg:
        for ap in [c for c in source.calls_in(lp) if last_attr(c) == "append" and isinstance(c.func.value, ast.Subscript)]:
            nodes = [n for n in cfg_agg.nodes if n.kind == "stmt" and n.ast is not None and any(c is ap for c in own_calls(n.ast))]
            lst = source.src(ap.func.value)
            arg = source.src(ap.args[0]) if ap.args else "?"
            guards = match.test_nodes(cfg_agg, lambda t, lst=lst, arg=arg: (
                ("T" if isinstance(match.compare_parts(t)[1], ast.NotIn) else "F")
                if (match.compare_parts(t) and isinstance(match.compare_parts(t)[1], (ast.In, ast.NotIn))
                    and source.src(match.compare_parts(t)[0]) == arg and source.src(match.compare_parts(t)[2]) == lst) else None))
            ok = bool(nodes) and bool(guards) and all(match.only_via_edges(cfg_agg, n, guards) for n in nodes)
            ctx.ob("C03.R9-aggregate-expands-every-occurrence", ap, ok,
                   "a copy is added to the translation of a spelling only once" if ok else
                   "the rewritten reference of a replica is appended to the translation of a spelling without testing that it is already there: "
                   "a component that lists one reference in both spellings ('A:ref', 'stage0.A:ref') registers both, each registration appends "
                   "to both spellings, and the aggregator consumes every copy twice", construct="%s.append(%s) <- not already listed" % (lst, arg))
    aggf = m.functions.get("FlowIR.compile_component_aggregate.aggregate")
    ctx.require(aggf is not None, "anchor missing: the nested aggregate() of compile_component_aggregate")
    spell_loops = [n for n in source.walk_own(aggf) if isinstance(n, ast.For) and any(
        isinstance(c, ast.Call) and last_attr(c) == "sub" for c in ast.walk(n)) and not any(
        isinstance(x, ast.For) and x is not n and any(isinstance(c, ast.Call) and last_attr(c) == "sub" for c in ast.walk(x)) for x in ast.walk(n))]
    ctx.floor("C03.R9-aggregate-expands-every-occurrence", len(spell_loops), 1, "loops over the spellings of a reference in aggregate()")
    for lp in spell_loops:
        brk = [b for b in ast.walk(lp) if isinstance(b, ast.Break)]
        ctx.ob("C03.R9-aggregate-expands-every-occurrence", brk[0] if brk else lp, not brk,
               "both spellings of a reference are tried on every string" if not brk else
               "the loop over the spellings of a reference stops after the first spelling that changed the string: in 'cat A:ref stage0.A:ref' "
               "the relative occurrence is left in place and names a component that does not exist after the expansion",
               construct="aggregate(): no break between the spellings")
        for c in [c for c in ast.walk(lp) if isinstance(c, ast.Call) and last_attr(c) == "sub" and c.args]:
            repl = c.args[0]
            fn_ = None
            if isinstance(repl, ast.Lambda):
                fn_ = repl
            elif isinstance(repl, ast.Name):
                fn_ = next((d for d in ast.walk(aggf) if isinstance(d, ast.FunctionDef) and d.name == repl.id), None)
            prm = fn_.args.args[0].arg if fn_ is not None and fn_.args.args else None
            body = fn_.body if isinstance(fn_, ast.Lambda) else fn_
            reads_own_match = fn_ is not None and any(isinstance(x, ast.Call) and last_attr(x) in ("group", "groups", "groupdict")
                                                      and isinstance(x.func.value, ast.Name) and x.func.value.id == prm for x in ast.walk(body))
            # a pattern without a capture for the path needs nothing from the match
            pat = c.func.value
            has_capture = True
            if isinstance(pat, ast.Call) and last_attr(pat) == "pattern_whole_reference":
                has_capture = False
            ok = reads_own_match or not has_capture
            ctx.ob("C03.R9-aggregate-expands-every-occurrence", c, ok,
                   "the replacement of an occurrence is computed from that occurrence's own match" if ok else
                   "the replacement passed to sub() does not read the match it replaces: the path that follows the FIRST occurrence of a reference "
                   "('A:ref/x.txt') is attached to every occurrence ('-d A:ref' becomes 'A0:ref/x.txt A1:ref/x.txt' too)",
                   construct="aggregate(): %s <- per-occurrence replacement" % short(c, 50))

    # index order must survive: the lists of rewritten replica references are only appended to in range(count) order
    derived = {"translation_map"}
    changed = True
    while changed:
        changed = False
        for n in ast.walk(agg):
            targets = []
            it = None
            if isinstance(n, ast.For):
                targets, it = [n.target], n.iter
            elif isinstance(n, ast.comprehension):
                targets, it = [n.target], n.iter
            elif isinstance(n, ast.Assign) and len(n.targets) == 1:
                targets, it = [n.targets[0]], n.value
            if it is not None and set(source.names_in(it)) & derived:
                for t in targets:
                    for nm in ast.walk(t):
                        if isinstance(nm, ast.Name) and nm.id not in derived and nm.id not in ("string", "ref", "m", "path", "separator", "orig_string", "replacement", "expression"):
                            derived.add(nm.id)
                            changed = True
    bad_order = []
    for n in ast.walk(agg):
        if isinstance(n, ast.Call):
            cn = call_name(n) or ""
            la = last_attr(n)
            args_names = set()
            for a in list(n.args) + [k.value for k in n.keywords]:
                args_names |= set(source.names_in(a))
            recv_names = set(source.names_in(n.func.value)) if isinstance(n.func, ast.Attribute) else set()
            if cn in ("sorted", "set", "frozenset", "reversed", "random.shuffle", "random.sample") and args_names & derived:
                bad_order.append(n)
            if la in ("sort", "reverse", "add", "discard") and recv_names & derived:
                bad_order.append(n)
            if la == "setdefault" and recv_names & derived and len(n.args) > 1 and not isinstance(n.args[1], ast.List):
                bad_order.append(n)
        if isinstance(n, (ast.Set, ast.SetComp)) and set(source.names_in(n)) & derived:
            bad_order.append(n)
    for b_ in bad_order:
        ctx.ob("C03.R2-naming-agreement", b_, False,
               "the rewritten replica references collected for the aggregating component are re-ordered / de-duplicated through %s: "
               "replica names sort as strings ('X10' before 'X2'), so with 11 or more replicas the copies are no longer consumed in "
               "index order" % short(b_, 60))
    ctx.ob("C03.R2-naming-agreement", agg, not bad_order, "the per-reference lists of replica references keep their range(count) order (no sort/set applied)",
           construct="translation_map keeps index order", trivial=bool(bad_order))

    # ---------------- R3 -------------------------------------------------------------------------------
    cfg = CFG(app)
    ctx.paths += cfg.paths_count()
    # roles in apply_replicate: the list handed to compile_component_replica/aggregate as their last argument; the pair
    # unpacked from replicate_instructions[<reference id>]; the output list; the component's own (replicate, aggregate) pair
    cc = [c for c in source.calls_in(app) if last_attr(c) in ("compile_component_replica", "compile_component_aggregate") and c.args
          and isinstance(c.args[-1], ast.Name)]
    REFS = cc[0].args[-1].id if cc else "replicated_refs"
    pairs = [n for n in source.walk_own(app) if isinstance(n, ast.Assign) and isinstance(n.targets[0], ast.Tuple) and len(n.targets[0].elts) == 2
             and all(isinstance(e, ast.Name) for e in n.targets[0].elts) and isinstance(n.value, ast.Subscript)
             and "replicate_instructions" in source.src(n.value)]
    # the pair looked up for a *reference* is assigned inside the loop over the references (deeper), the component's own pair first
    pairs.sort(key=lambda n: n.col_offset)
    OWN_AGG = pairs[0].targets[0].elts[1].id if pairs else "aggregate"
    REF_REPL, REF_AGG = (pairs[-1].targets[0].elts[0].id, pairs[-1].targets[0].elts[1].id) if len(pairs) >= 2 else ("ref_replicate", "is_aggregate")
    OUT, keyed = expanded_output(app)
    for kn in keyed:
        ctx.ob("C03.R3-apply-replicate", kn, False,
               "apply_replicate collects the expanded components in a mapping keyed by their id (%s): a component whose id equals that of a "
               "generated copy silently replaces it - fewer than N copies come out and the consumers of the lost copy are wired to an "
               "unrelated component" % short(kn, 60), construct="expanded components are appended to a list")
    outer_loops = [n for n in source.walk_own(app) if isinstance(n, ast.For) and any(
        (isinstance(c, ast.Call) and last_attr(c) == "append" and dotted(c.func.value) == OUT) or
        (isinstance(c, ast.Assign) and any(isinstance(t, ast.Subscript) and dotted(t.value) == OUT for t in c.targets)) for c in ast.walk(n))]
    COMPS = outer_loops[0].iter.id if outer_loops and isinstance(outer_loops[0].iter, ast.Name) else "flowir_components"
    adds = match.nodes_calling(cfg, lambda c: last_attr(c) == "append" and dotted(c.func.value) == REFS)
    ctx.require(bool(adds), "anchor missing: replicated_refs.append in apply_replicate")
    t_notnone = match.test_nodes(cfg, lambda t: "T" if (match.compare_parts(t) and isinstance(match.compare_parts(t)[0], ast.Name)
                                                        and match.compare_parts(t)[0].id == REF_REPL
                                                        and isinstance(match.compare_parts(t)[1], ast.IsNot)) else None)
    t_pos = match.test_nodes(cfg, lambda t: "T" if (match.compare_parts(t) and isinstance(match.compare_parts(t)[0], ast.Name)
                                                    and match.compare_parts(t)[0].id == REF_REPL
                                                    and isinstance(match.compare_parts(t)[1], ast.Gt)
                                                    and isinstance(match.compare_parts(t)[2], ast.Constant)
                                                    and match.compare_parts(t)[2].value == 0) else None)
    t_notagg = match.test_nodes(cfg, lambda t: match.polarity(t, lambda e: isinstance(e, ast.Name) and e.id == REF_AGG))
    for a in adds:
        ok = bool(t_pos) and match.only_via_edges(cfg, a, t_pos)
        ctx.ob("C03.R3-apply-replicate", a.ast, ok, "a reference is replicated only if its producer's propagated count is > 0" if ok else
               "a reference can be treated as replicated although its producer is not replicated", construct="replicated_refs.append <- ref_replicate > 0")
        ok = bool(t_notagg) and match.only_via_edges(cfg, a, [(n, match.other(l)) for n, l in t_notagg])
        ctx.ob("C03.R3-apply-replicate", a.ast, ok, "references to aggregating producers are not replicated" if ok else
               "a reference to an aggregating producer can be treated as replicated (the consumer would be copied past the aggregation point)",
               construct="replicated_refs.append <- is_aggregate is False")
    # R8: the converse - nothing but "is this a reference to a replicated, non-aggregating component" decides whether a reference is
    # registered: the tests that gate the registration are exactly those (plus "is it a component reference at all")
    ref_loops = [n for n in source.walk_own(app) if isinstance(n, ast.For) and any(a.ast is x or any(a.ast is y for y in ast.walk(x))
                                                                                  for a in adds for x in n.body)]
    inner = ref_loops[-1] if ref_loops else None
    allowed_ids = {n.id for (n, _) in t_notnone + t_pos + t_notagg}
    # ... and the loop that registers them walks the component's OWN reference list on every path: a list that is emptied or filtered for
    # some components (seed C03-13: for a component that declares `replicate` itself) leaves their references to replicated producers
    # un-suffixed in every copy
    if inner is not None:
        def own_refs(e: ast.AST) -> bool:
            if isinstance(e, ast.Call) and call_name(e) in ("list", "tuple", "sorted") and len(e.args) == 1:
                return own_refs(e.args[0])
            if isinstance(e, ast.BoolOp) and isinstance(e.op, ast.Or):
                return own_refs(e.values[0]) and all(isinstance(v, (ast.List, ast.Tuple)) and not v.elts for v in e.values[1:])
            if isinstance(e, ast.Call) and last_attr(e) == "get" and e.args and isinstance(e.args[0], ast.Constant) and e.args[0].value == "references":
                return True
            return isinstance(e, ast.Subscript) and isinstance(e.slice, ast.Constant) and e.slice.value == "references"
        bad = []
        if isinstance(inner.iter, ast.Name):
            at = [n for n in cfg.nodes if n.kind == "for" and n.ast is inner]
            ctx.require(bool(at), "anchor missing: the CFG node of the reference loop of apply_replicate")
            for d in flow.reaching_defs(cfg, inner.iter.id).get(at[0].id, frozenset()):
                v = flow.def_value(cfg, d, inner.iter.id) if d >= 0 else None
                if v is None or not own_refs(v):
                    bad.append(v if v is not None else inner.iter)
        elif not own_refs(inner.iter):
            bad.append(inner.iter)
        ctx.ob("C03.R8-every-replicated-reference-registered", bad[0] if bad else inner, not bad,
               "the registration loop walks the component's own 'references' on every path" if not bad else
               "the references that apply_replicate examines can be %s instead of the component's own list: for those components no reference to a "
               "replicated producer is registered, so each copy keeps the un-suffixed name - copy i of a component that both consumes from "
               "replicas and declares `replicate` no longer consumes from copy i, and the leftover reference names a component that does not "
               "exist after expansion" % short(bad[0], 70), construct="for ref in <the component's own references>")
    for a in adds:
        extra = []
        for tn in cfg.nodes:
            if tn.kind != "test" or tn.ast is None or tn.id in allowed_ids:
                continue
            if inner is not None and not any(tn.ast is x for x in ast.walk(inner)):
                continue
            for lab in ("T", "F"):
                if match.only_via_edges(cfg, a, [(tn, lab)]):
                    # "stage index is None => not a component reference" is the one other legitimate gate
                    cp = match.compare_parts(tn.ast)
                    if cp and isinstance(cp[2], ast.Constant) and cp[2].value is None and isinstance(cp[1], (ast.Is, ast.IsNot)):
                        continue
                    extra.append(tn)
        ok = not extra
        ctx.ob("C03.R8-every-replicated-reference-registered", a.ast, ok,
               "whether a reference is registered for rewriting depends only on its producer being a replicated, non-aggregating component" if ok else
               "a reference to a replicated producer is registered for rewriting only when additionally %s: the other references to that "
               "producer (another file or method, e.g. 'Simulate/energies.csv:copy' next to 'Simulate:ref') keep the un-suffixed name - "
               "copy i no longer consumes from copy i, an aggregator gets the copies for one reference only, and the leftover reference "
               "names a component that does not exist after expansion" % short(extra[0].ast, 60),
               construct="replicated_refs.append is gated by the replication tests only")
    # ref_replicate / is_aggregate come from replicate_instructions[(stage, producer)]
    emits = match.nodes_calling(cfg, lambda c: last_attr(c) == "append" and dotted(c.func.value) == OUT)
    emits += [n for n in cfg.nodes if n.kind == "stmt" and isinstance(n.ast, ast.Assign) and any(
        isinstance(t, ast.Subscript) and dotted(t.value) == OUT for t in n.ast.targets)]
    outer = [n for n in cfg.nodes if n.kind == "for" and isinstance(n.ast.iter, ast.Name) and n.ast.iter.id == COMPS
             and any(e.ast is not None and any(e.ast is x for x in ast.walk(n.ast)) for e in emits)]
    ctx.require(bool(outer) and bool(emits), "anchor missing: emission loop of apply_replicate")
    head = outer[0]
    inner = [n for n in cfg.nodes if n.kind == "for" and isinstance(n.ast.iter, ast.Call) and call_name(n.ast.iter) == "range"
             and any(e.ast is not None and any(e.ast is x for x in ast.walk(n.ast)) for e in emits)]
    start = [mm for (mm, lab) in head.succ if lab == "iter"]
    r = cfg.reach(start, blocked=emits + inner, ignore_labels=("exc",))
    ok = head.id not in r
    ctx.ob("C03.R3-apply-replicate", head.ast, ok, "every component is emitted (aggregate / replicas / unchanged)" if ok else
           "a component can be dropped from the expanded workflow (no branch emits it)", construct="emission: aggregate | replicate | unchanged")
    agg_tests = match.test_nodes(cfg, lambda t: "T" if isinstance(t, ast.Name) and t.id == OWN_AGG else None)
    for e in emits:
        calls_ = [c for c in own_calls(e.ast) if last_attr(c) == "append"]
        if calls_:
            arg = source.src(calls_[0].args[0]) if calls_[0].args else ""
        else:
            arg = source.src(e.ast.value) if isinstance(e.ast, ast.Assign) else ""
        if arg == (outer_loops[0].target.id if outer_loops and isinstance(outer_loops[0].target, ast.Name) else "comp"):
            ok = bool(agg_tests) and match.only_via_edges(cfg, e, [(n, "F") for n, _ in agg_tests])
            ctx.ob("C03.R3-apply-replicate", e.ast, ok, "a component is left unchanged only if it neither aggregates nor replicates" if ok else
                   "the unchanged branch is reachable for an aggregating component")

    # ---------------- R4 -------------------------------------------------------------------------------
    loops = [n for n in source.walk_own(prop) if isinstance(n, ast.For) and isinstance(n.iter, ast.Call)
             and (call_name(n.iter) or "").endswith("topological_sort")]
    ok = bool(loops)
    ctx.ob("C03.R4-propagation", loops[0] if loops else prop, ok, "replica counts are propagated in topological order" if ok else
           "propagate_replicate no longer visits nodes in topological order", construct="for node in networkx.topological_sort(g)")
    pr = [v for nm in match.locals_where(prop, lambda v: isinstance(v, ast.ListComp) and isinstance(v.elt, ast.IfExp))
          for v in match.assigned_value(prop, nm)]
    ok = False
    if pr and isinstance(pr[0], ast.ListComp) and isinstance(pr[0].elt, ast.IfExp):
        ie = pr[0].elt
        t = ie.test
        lst = t.comparators[0] if isinstance(t, ast.Compare) and isinstance(t.ops[0], ast.In) else None
        vals = {e.value for e in lst.elts if isinstance(e, ast.Constant)} if isinstance(lst, (ast.List, ast.Tuple, ast.Set)) else set()
        ok = vals == {"false", "none"} and isinstance(ie.orelse, ast.Constant) and ie.orelse.value is None \
            and isinstance(ie.body, ast.Subscript) and isinstance(ie.body.slice, ast.Constant) and ie.body.slice.value == 0 \
            and "[1]" in source.src(t.left)
    ctx.ob("C03.R4-propagation", pr[0] if pr else prop, ok, "an aggregating predecessor contributes None (replication stops at aggregation)" if ok else
           "an aggregating predecessor still propagates its replica count downstream",
           construct="predecessor_replicate = [count if not aggregating else None]")

    # ---------------- R12: the reserved tables are process constants (C09.R6 re-used) ------------------------
    from checks.c09 import check_reserved_constants
    check_reserved_constants(ctx, ctx.repo.module(FLOWIR), "C03.R12-expansion-sees-process-constant-tables",
                             "a later workflow whose replicated component is named like an application dependency of an earlier one ('simulate' after "
                             "'Simulate.application') has its relative reference 'simulate:ref' classified as a folder: no edge, no rewrite - the consumer "
                             "is not replicated and keeps a reference to a component that no longer exists")
