"""C05 - DoWhile unrolling is wired correctly for any number of iterations.  See DESIGN.md section C05."""
from __future__ import annotations

import ast
import re
from typing import List, Optional, Tuple

from vlib import match, source, sub
from vlib.cfg import CFG, own_calls
from vlib.source import AnalysisError, call_name, dotted, last_attr, short

from checks.c10 import check_site

FLOWIR = "python/experiment/model/frontends/flowir.py"
GRAPH = "python/experiment/model/graph.py"
CONTROL = "python/experiment/runtime/control.py"
SCOPE = (FLOWIR, GRAPH, CONTROL)


def is_hash_split(e: ast.AST) -> bool:
    return isinstance(e, ast.Call) and isinstance(e.func, ast.Attribute) and e.func.attr in ("split", "rsplit") \
        and e.args and isinstance(e.args[0], ast.Constant) and e.args[0].value == "#"


def is_iteration_prefix(e: ast.AST) -> bool:
    """<x>.split('#', ...)[0]"""
    return isinstance(e, ast.Subscript) and is_hash_split(e.value) and isinstance(e.slice, ast.Constant) and e.slice.value == 0


def wrapped_in_int(e: ast.AST, stop: ast.AST) -> bool:
    for a in source.ancestors(e):
        if isinstance(a, ast.Call) and call_name(a) in ("int", "float") and a.args and any(x is e or any(y is e for y in ast.walk(x)) for x in a.args):
            return True
        if a is stop:
            break
    return False


LIST_MUTATORS = {"append", "extend", "insert", "remove", "pop", "clear", "sort", "reverse", "__setitem__", "__iadd__"}
PROTECTED_KEYS = {"represents"}


def placeholder_mutations(fn: ast.AST) -> Tuple[int, List[Tuple[ast.AST, str]]]:
    """(number of placeholder-table reads, [(offending node, why)]) for one function outside the owner module.
    Flow-sensitive: the status of a local at a program point is that of its reaching definitions, so
    ``data = table[k]; data = deep_copy(data)`` is a private copy afterwards."""
    from vlib import flow
    reads = sum(1 for n in source.walk_own(fn) if isinstance(n, ast.Attribute) and n.attr == "_placeholders")
    if not reads:
        return 0, []
    cfg = CFG(fn)
    rd_cache = {}

    def rdefs(name: str):
        if name not in rd_cache:
            rd_cache[name] = flow.reaching_defs(cfg, name, ignore_labels=())
        return rd_cache[name]

    def node_of(x: ast.AST):
        st = source.stmt_of(x)
        ns = [n for n in cfg.nodes if n.ast is st or (n.ast is not None and n.kind in ("test", "for", "with") and any(y is x for y in ast.walk(n.ast)))]
        return ns[0] if ns else None
    RANK = {"safe": 0, None: 0, "table": 1, "shallow": 2, "entry": 3, "inner": 4}

    def worst(kinds):
        kinds = list(kinds)
        return max(kinds, key=lambda k: RANK.get(k, 0)) if kinds else None

    def origin(e: ast.AST, at, depth: int = 0):
        """'table' | 'entry' | 'shallow' | 'inner' | 'safe' | None for expression e evaluated at CFG node `at`."""
        if depth > 8 or e is None:
            return None
        if isinstance(e, ast.Attribute) and e.attr == "_placeholders":
            return "table"
        if isinstance(e, ast.Name):
            if at is None:
                return None
            ds = rdefs(e.id).get(at.id, frozenset())
            kinds = []
            for d in ds:
                if d < 0:
                    continue
                dn = cfg.nodes[d]
                v = flow.def_value(cfg, d, e.id)
                if v is not None:
                    kinds.append(origin(v, dn, depth + 1))
                elif dn.kind == "for" and isinstance(dn.ast, ast.For):
                    it = dn.ast.iter
                    if isinstance(it, ast.Call) and isinstance(it.func, ast.Attribute) and it.func.attr in ("values", "items") \
                            and origin(it.func.value, dn, depth + 1) == "table":
                        kinds.append("entry")
            return worst(kinds)
        if isinstance(e, ast.Subscript):
            base = origin(e.value, at, depth + 1)
            if base == "table":
                return "entry"
            if base in ("entry", "shallow") and isinstance(e.slice, ast.Constant) and e.slice.value in PROTECTED_KEYS:
                return "inner"
            return None
        if isinstance(e, ast.Call):
            cn = call_name(e) or ""
            if cn.split(".")[-1] in ("deep_copy", "deepcopy"):
                return "safe"
            if isinstance(e.func, ast.Attribute) and e.func.attr == "get" and e.args:
                base = origin(e.func.value, at, depth + 1)
                if base == "table":
                    return "entry"
                if base in ("entry", "shallow") and isinstance(e.args[0], ast.Constant) and e.args[0].value in PROTECTED_KEYS:
                    return "inner"
                return None
            if cn in ("dict", "copy.copy") and e.args:
                return "shallow" if origin(e.args[0], at, depth + 1) in ("entry", "shallow") else None
            if isinstance(e.func, ast.Attribute) and e.func.attr == "copy" and not e.args:
                return "shallow" if origin(e.func.value, at, depth + 1) in ("entry", "shallow") else None
            if cn in ("list", "tuple", "sorted", "set") and e.args:
                return "safe"
            return None
        if isinstance(e, ast.Dict):
            if any(k is None and origin(v, at, depth + 1) in ("entry", "shallow") for k, v in zip(e.keys, e.values)):
                return "shallow"
        return None
    bad: List[Tuple[ast.AST, str]] = []
    for n in source.walk_own(fn):
        at = node_of(n) if isinstance(n, (ast.Call, ast.Assign, ast.AugAssign, ast.AnnAssign)) else None
        if isinstance(n, ast.Call) and isinstance(n.func, ast.Attribute) and n.func.attr in LIST_MUTATORS and origin(n.func.value, at) == "inner":
            bad.append((n, "%s() on the shared 'represents' list" % n.func.attr))
        tg = n.targets if isinstance(n, ast.Assign) else [n.target] if isinstance(n, (ast.AugAssign, ast.AnnAssign)) else []
        for t in tg:
            if isinstance(t, ast.Subscript) and isinstance(t.slice, ast.Constant) and t.slice.value in PROTECTED_KEYS \
                    and origin(t.value, at) == "entry":
                bad.append((n, "the 'represents' entry of the stored placeholder is replaced"))
            elif isinstance(t, ast.Subscript) and origin(t.value, at) == "inner":
                bad.append((n, "an element of the shared 'represents' list is overwritten"))
            elif isinstance(n, ast.AugAssign) and origin(t, at) == "inner":
                bad.append((n, "the shared 'represents' list is extended in place"))
    return reads, bad


def run(ctx) -> None:
    ctx.explanation = (
        "Sibling cross-check of every ordering construct keyed on the iteration prefix of a looped component name (must "
        "convert with int()), agreement of the '<iteration>#<name>' constructor format and the split('#', 1) parsers, "
        "CFG guards of the loop-carried rewrite (iteration-1, only for i>0, not for loopref/loopoutput), absence of "
        "stage-offset drift in the stored loop bindings, anchored rewriting, and the derivation of the loop state from the "
        "numeric maximum. Decides these structural necessary conditions for every iteration count; the full instance "
        "set after k iterations needs execution and is not claimed.")
    ctx.rule("C05.R1-numeric-iteration-order", "every sorted/sort/min/max whose key is the iteration prefix of a looped name converts it with int()")
    ctx.rule("C05.R2-name-format", "looped names are built with '%d#%s' and parsed with split('#', 1)")
    ctx.rule("C05.R3-loop-carried-from-previous", "loop bindings are rewritten to iteration_no-1, only when iteration_no > 0 and not for loopref/loopoutput")
    ctx.rule("C05.R4-no-stage-offset-drift", "rewritten loop bindings are not stored back; next-iteration works on a deep copy and persists the result")
    ctx.rule("C05.R5-anchored-rewrite", "rewrite_all_references substitutes through an escaped, boundary-anchored pattern")
    ctx.rule("C05.R7-instance-set-owned-by-graph", "the 'represents' list of a placeholder (the instances 0..k of a looped component) is "
             "modified only inside graph.py: code elsewhere that obtains a placeholder entry works on a deep copy before it "
             "appends to / rewrites that list (a shallow copy shares the list)")
    ctx.rule("C05.R8-instances-matched-by-full-id", "the instances collected for a placeholder (its 'represents' list and 'latest') are selected "
             "by the placeholder's stage AND blueprint name: both components of the placeholder id flow into the selection")
    ctx.rule("C05.R9-only-earlier-stages-are-frozen", "the controller marks a placeholder as FINISHED without observing it (restart) only for stages "
             "STRICTLY before the stage the run starts from: a placeholder that is not RUNNING is skipped by the graph when further "
             "iterations are instantiated, so freezing the placeholder of a loop that still iterates leaves 'latest' and 'represents' at the "
             "instance of the restart")
    ctx.rule("C05.R12-memo-keys-cover-what-varies", "a local memo 'if K not in D: D[K] = f(args)' inside the unrolling functions (or a helper they define "
             "and call once per string) mentions in K every argument of f that changes from one component to the next")
    ctx.rule("C05.R11-per-loop-state-is-keyed-by-the-loop", "a table that instantiate_dowhile_next_iteration keeps on the graph between calls is "
             "keyed by every field of the DoWhile document that the function's own labels use to name the loop (stage AND name): component names are "
             "unique within a stage only")
    ctx.rule("C05.R10-iteration-numbers-are-whole", "a regular expression of graph.py / flowir.py that matches the '<iteration>#' prefix of an instance name "
             "repeats the digit class without an upper bound (decided on the parsed pattern); the tree recognises instances with '#' "
             "membership and split('#', 1), which need no pattern")
    ctx.rule("C05.R6-state-from-latest", "currentCondition/currentIteration derive from the instance with the numerically highest iteration")

    mods = [ctx.repo.module(r) for r in SCOPE]

    # ---------------- R1 -------------------------------------------------------------------------------
    n_sites = 0
    for m in mods:
        for q, fn in m.functions.items():
            for c in source.calls_in(fn, include_nested=False):
                cn = call_name(c) or ""
                if not (cn in ("sorted", "min", "max") or last_attr(c) == "sort"):
                    continue
                keys = [k.value for k in c.keywords if k.arg == "key"]
                for key in keys:
                    bodies: List[ast.AST] = []
                    if isinstance(key, ast.Lambda):
                        bodies = [key.body]
                    elif isinstance(key, ast.Name):
                        tgt = m.functions.get(q + "." + key.id)
                        if tgt is not None:
                            bodies = [r.value for r in source.walk_own(tgt) if isinstance(r, ast.Return) and r.value is not None]
                    for b in bodies:
                        prefixes = [n for n in ast.walk(b) if is_iteration_prefix(n)]
                        if not prefixes:
                            continue
                        n_sites += 1
                        ctx.analysed(fn)
                        ok = all(wrapped_in_int(p, b) or b is p and False for p in prefixes)
                        ctx.ob("C05.R1-numeric-iteration-order", c, ok,
                               "iteration numbers are compared numerically (int(...) around the '#' prefix)" if ok else
                               "iteration numbers are compared as strings: with 10 or more iterations '9' sorts after '10' "
                               "and '11', so the 'latest' / ordered instances are wrong (sibling sites use int())",
                               construct="%s key=%s" % (cn or "sort", short(b, 100)))
    ctx.floor("C05.R1-numeric-iteration-order", n_sites, 2, "ordering constructs keyed on the iteration prefix")

    # R1c: the printed reference of an instance ('stage%d.%s' % id, a placeholder's 'latest') is never ORDERED against another one: as
    # text 'stage1.9#add' > 'stage1.10#add', so a "never move backwards" guard on 'latest' pins it to iteration 9 (seed C05-13)
    def is_printed_ref(v: ast.AST) -> bool:
        if isinstance(v, ast.BinOp) and isinstance(v.op, ast.Mod) and isinstance(v.left, ast.Constant) and isinstance(v.left.value, str) \
                and v.left.value.startswith("stage%d."):
            return True
        if isinstance(v, ast.Call) and last_attr(v) == "get" and v.args and isinstance(v.args[0], ast.Constant) and v.args[0].value == "latest":
            return True
        return isinstance(v, ast.Subscript) and isinstance(v.slice, ast.Constant) and v.slice.value == "latest"
    n_cmp = 0
    for m in mods:
        for q, fn in m.functions.items():
            printed = set(match.locals_where(fn, is_printed_ref))
            for cmp_ in [x for x in source.walk_own(fn, include_nested=False) if isinstance(x, ast.Compare)]:
                n_cmp += 1
                if not any(isinstance(o, (ast.Lt, ast.Gt, ast.LtE, ast.GtE)) for o in cmp_.ops):
                    continue
                sides = [cmp_.left] + list(cmp_.comparators)
                hit = [e for e in sides if is_printed_ref(e) or (isinstance(e, ast.Name) and e.id in printed)]
                if hit:
                    ctx.analysed(fn)
                    ctx.ob("C05.R1-numeric-iteration-order", cmp_, False,
                           "%s orders the printed reference %s as text (%s): 'stage1.9#x' sorts after 'stage1.10#x', so from the tenth iteration on "
                           "the comparison picks the wrong instance - a placeholder's 'latest' stays on iteration 9 and references from outside the "
                           "loop resolve to it" % (q, short(hit[0], 30), short(cmp_, 60)),
                           construct="%s: %s" % (q, short(cmp_, 80)))
    ctx.ob("C05.R1-numeric-iteration-order", mods[0].tree, True, "%d comparisons scanned: no printed instance reference is ordered as text" % n_cmp,
           trivial=True, construct="printed references are not ordered")

    # R1b: collections of looped instances must not be ordered as plain strings (keyless sorted/sort)
    LOOPED_COLLECTIONS = {"matched_components", "matched_refs", "represents", "condition_instances", "all_looped_ids", "loop_ids",
                          "looped_ids", "remaining_looped_ids"}
    for m in mods:
        for q, fn in m.functions.items():
            for c in source.calls_in(fn, include_nested=False):
                cn = call_name(c) or ""
                keyless = not any(k.arg == "key" for k in c.keywords)
                target = None
                if cn == "sorted" and c.args and keyless:
                    target = c.args[0]
                elif last_attr(c) == "sort" and isinstance(c.func, ast.Attribute) and keyless and cn != "sorted":
                    target = c.func.value
                if target is None:
                    continue
                if set(source.names_in(target)) & LOOPED_COLLECTIONS:
                    ctx.ob("C05.R1-numeric-iteration-order", c, False,
                           "a collection of looped component instances is ordered as plain strings (%s): '10#x' sorts before '2#x', so "
                           "with 10 or more iterations the instances are not in iteration order" % short(c, 70))
    # R1c: the aggregate loop reference expands its instances in numeric iteration order - ordered by the consumer
    # (looped_reference_to_paths) or, failing that, by the producer of placeholder['represents']
    g0 = ctx.repo.module(GRAPH)
    lrp = g0.functions.get("DataReference.resolve.looped_reference_to_paths")
    ctx.require(lrp is not None, "anchor missing: DataReference.resolve.looped_reference_to_paths")
    ctx.analysed(lrp)

    def numeric_sorted(e: ast.AST) -> bool:
        if isinstance(e, (ast.ListComp, ast.GeneratorExp)) and len(e.generators) == 1 and not e.generators[0].ifs:
            return numeric_sorted(e.generators[0].iter)
        if isinstance(e, ast.Call) and call_name(e) in ("list", "tuple") and e.args:
            return numeric_sorted(e.args[0])
        if isinstance(e, ast.Call) and call_name(e) == "sorted":
            keys = [k.value for k in e.keywords if k.arg == "key"]
            for key in keys:
                body = key.body if isinstance(key, ast.Lambda) else key
                pref = [n for n in ast.walk(body) if is_iteration_prefix(n)]
                if pref and all(wrapped_in_int(p_, body) for p_ in pref):
                    return True
        return False
    loops = [n for n in source.walk_own(lrp) if isinstance(n, ast.For) and isinstance(n.iter, ast.Name)
             and any(last_attr(c) == "append" and isinstance(c.func.value, ast.Name)
                     and any(isinstance(v, ast.List) and not v.elts for v in match.assigned_value(lrp, c.func.value.id))
                     for c in source.calls_in(n))
             # the loop over the instances a placeholder represents (directly or through a sorted copy)
             and any("represents" in source.src(v) or any(isinstance(x, ast.Name) and any("represents" in source.src(w)
                     for w in match.assigned_value(lrp, x.id)) for x in ast.walk(v))
                     for v in match.assigned_value(lrp, n.iter.id))]
    ctx.require(bool(loops), "anchor missing: loop building agg_references in looped_reference_to_paths")
    itname = loops[0].iter.id
    consumer_sorts = any(numeric_sorted(v) for v in match.assigned_value(lrp, itname))
    producer_sorts = False
    ddp = g0.func("WorkflowGraph._discover_dowhile_placeholders")
    for n in source.walk_own(ddp):
        if isinstance(n, ast.Dict):
            for k, v in zip(n.keys, n.values):
                if isinstance(k, ast.Constant) and k.value == "represents":
                    vals = [v] + (match.assigned_value(ddp, v.id) if isinstance(v, ast.Name) else [])
                    producer_sorts = any(numeric_sorted(x) for x in vals)
    ok = consumer_sorts or producer_sorts
    ctx.ob("C05.R1-numeric-iteration-order", loops[0], ok,
           "aggregate loop references expand their instances in numeric iteration order (sorted by %s)" % ("the consumer" if consumer_sorts else "the producer of 'represents'")
           if ok else
           "neither looped_reference_to_paths nor the producer of placeholder['represents'] orders the instances numerically: an "
           "aggregate loop reference (:loopref/:loopoutput) lists iterations as 0,1,10,11,2,... once there are 10 or more",
           construct="agg_references iterate %s in numeric iteration order" % itname)

    # ---------------- R2 -------------------------------------------------------------------------------
    n_fmt = 0
    for m in mods:
        for n in ast.walk(m.tree):
            if isinstance(n, ast.BinOp) and isinstance(n.op, ast.Mod) and isinstance(n.left, ast.Constant) \
                    and isinstance(n.left.value, str) and re.fullmatch(r"%[a-z]#%[a-z]", n.left.value):
                n_fmt += 1
                ok = n.left.value == "%d#%s"
                ctx.ob("C05.R2-name-format", n, ok, "looped name built as '<iteration:%d>#<name:%s>'" if ok else
                       "looped name built with format %r instead of '%%d#%%s'" % n.left.value)
            if isinstance(n, ast.JoinedStr) and len(n.values) == 3 and isinstance(n.values[1], ast.Constant) and n.values[1].value == "#":
                n_fmt += 1
                ctx.ob("C05.R2-name-format", n, True, "looped name built with an f-string '<iteration>#<name>'", trivial=True)
    ctx.floor("C05.R2-name-format", n_fmt, 3, "constructors of looped names")
    n_split = 0
    for m in mods:
        for n in ast.walk(m.tree):
            if is_hash_split(n):
                n_split += 1
                ok = len(n.args) == 2 and isinstance(n.args[1], ast.Constant) and n.args[1].value == 1 and n.func.attr == "split"
                ctx.ob("C05.R2-name-format", n, ok, "looped names are parsed with split('#', 1)" if ok else
                       "a looped name is parsed with %s instead of split('#', 1): names containing '#' split differently "
                       "from how they were built" % short(n, 60))
                p = source.parent(n)
                if isinstance(p, ast.Subscript) and p.value is n and isinstance(p.slice, ast.Constant):
                    ok = p.slice.value in (0, 1)
                    ctx.ob("C05.R2-name-format", p, ok, "element %s of the split is the %s" % (p.slice.value, "iteration" if p.slice.value == 0 else "blueprint name")
                           if ok else "unexpected element %r of split('#', 1)" % (p.slice.value,), trivial=True)
    ctx.floor("C05.R2-name-format", n_split, 8, "parsers of looped names")

    # ---------------- R3 -------------------------------------------------------------------------------
    fl = ctx.repo.module(FLOWIR)
    idw = fl.func("instantiate_dowhile")
    ctx.analysed(idw)
    cfg = CFG(idw)
    ctx.paths += cfg.paths_count()
    import re as _re

    def hash_format(e: ast.AST):
        """(BinOp, index of the argument that fills the '%d' in front of '#', index of the one behind it) for '<..>%d#%s<..>' % (..)"""
        if isinstance(e, ast.BinOp) and isinstance(e.op, ast.Mod) and isinstance(e.left, ast.Constant) and isinstance(e.left.value, str) \
                and "%d#%s" in e.left.value:
            specs = [m_.start() for m_ in _re.finditer(r"%[sdrif]", e.left.value)]
            at = e.left.value.index("%d#%s")
            return e, specs.index(at), specs.index(at) + 1
        return None
    rew = [n for n in cfg.nodes if n.kind == "stmt" and isinstance(n.ast, ast.Assign) and hash_format(n.ast.value) is not None]
    # the previous instance is NAMED from the iteration number alone.  An assignment that merely contains the format (as the fallback of a
    # lookup in state the caller keeps, say) takes the name from somewhere else whenever that lookup answers
    wrapped = [n for n in cfg.nodes if n.kind == "stmt" and isinstance(n.ast, ast.Assign) and hash_format(n.ast.value) is None
               and any(hash_format(x) is not None for x in ast.walk(n.ast.value))]
    for n in wrapped:
        ctx.ob("C05.R3-loop-carried-from-previous", n.ast, False,
               "the producer of a loop-carried binding is '<iteration-1>#<name>' only as a fallback (%s): when the other source answers - e.g. the "
               "'latest' instance recorded in a placeholder, which a restart from a later stage freezes for the loop's earlier-stage components - "
               "instance i takes its loop-carried input from an OLDER instance than i-1 (stage1.3#work reads stage1.1#work:output), silently"
               % short(n.ast.value, 70), construct="instantiate_dowhile: loop-carried producer named from the iteration number alone")
    rew = rew + wrapped
    ctx.require(bool(rew), "anchor missing: '%d#%s' rewrite of the loop-binding producer in instantiate_dowhile")

    def inner_format(e: ast.AST):
        return next((hash_format(x) for x in ast.walk(e) if hash_format(x) is not None), None)
    # roles: (stage, producer, file, method) unpacked from ParseDataReferenceFull of a loop-binding value
    unp = [n.targets[0] for n in source.walk_own(idw) if isinstance(n, ast.Assign) and isinstance(n.targets[0], ast.Tuple)
           and len(n.targets[0].elts) == 4 and all(isinstance(e, ast.Name) for e in n.targets[0].elts)
           and isinstance(n.value, ast.Call) and last_attr(n.value) == "ParseDataReferenceFull"]
    def fmt_args(r_):
        b, i_it, i_nm = inner_format(r_.ast.value)
        elts = list(b.right.elts) if isinstance(b.right, ast.Tuple) else [b.right]
        return (elts[i_it] if i_it < len(elts) else None), (elts[i_nm] if i_nm < len(elts) else None)
    _prod_arg = fmt_args(rew[0])[1]
    PRODUCER = _prod_arg.id if isinstance(_prod_arg, ast.Name) else "producer"
    mine = [t for t in unp if t.elts[1].id == PRODUCER]
    METHOD = mine[0].elts[3].id if mine else "method"
    gt0 = match.test_nodes(cfg, lambda t: "T" if (match.compare_parts(t) and isinstance(match.compare_parts(t)[0], ast.Name)
                                                  and match.compare_parts(t)[0].id == "iteration_no"
                                                  and isinstance(match.compare_parts(t)[1], ast.Gt)
                                                  and isinstance(match.compare_parts(t)[2], ast.Constant)
                                                  and match.compare_parts(t)[2].value == 0) else None)
    notloop = []
    for n in cfg.nodes:
        if n.kind == "test" and isinstance(n.ast, ast.Compare) and isinstance(n.ast.ops[0], (ast.NotIn, ast.In)) \
                and isinstance(n.ast.left, ast.Name) and n.ast.left.id == METHOD \
                and isinstance(n.ast.comparators[0], (ast.List, ast.Tuple, ast.Set)):
            vals = {e.value for e in n.ast.comparators[0].elts if isinstance(e, ast.Constant)}
            if vals == {"loopref", "loopoutput"}:
                notloop.append((n, "T" if isinstance(n.ast.ops[0], ast.NotIn) else "F"))
    for r_ in rew:
        it_arg, nm_arg = fmt_args(r_)
        it_arg = match.resolve_local(idw, it_arg) if it_arg is not None else None
        ok = isinstance(it_arg, ast.BinOp) \
            and isinstance(it_arg.op, ast.Sub) and isinstance(it_arg.left, ast.Name) \
            and it_arg.left.id == "iteration_no" and isinstance(it_arg.right, ast.Constant) \
            and it_arg.right.value == 1 and isinstance(nm_arg, ast.Name) and nm_arg.id == PRODUCER
        ctx.ob("C05.R3-loop-carried-from-previous", r_.ast, ok, "loop-carried inputs come from iteration_no - 1" if ok else
               "the loop-binding producer is not prefixed with iteration_no - 1: instance i reads from the wrong iteration")
        ok = bool(gt0) and match.only_via_edges(cfg, r_, gt0)
        ctx.ob("C05.R3-loop-carried-from-previous", r_.ast, ok, "the rewrite applies only to iterations > 0" if ok else
               "the loop-binding rewrite can apply to iteration 0 (which has no previous iteration)",
               construct=short(r_.ast) + " <- iteration_no > 0")
        ok = bool(notloop) and match.only_via_edges(cfg, r_, notloop)
        ctx.ob("C05.R3-loop-carried-from-previous", r_.ast, ok, "aggregate loop references (loopref/loopoutput) keep the placeholder" if ok else
               "loopref/loopoutput bindings are pinned to a single iteration", construct=short(r_.ast) + " <- method not in [loopref, loopoutput]")
    LOOPB = match.role(idw, lambda v: isinstance(v, ast.Call) and last_attr(v) == "rewrite_loopbindings_for_stage_offset", "loop_bindings")
    # the rewritten binding is re-assembled from ALL parts of the parsed reference: stage, producer, file and method
    if mine:
        parts = {"stage": mine[0].elts[0].id, "producer": mine[0].elts[1].id, "file": mine[0].elts[2].id, "method": mine[0].elts[3].id}
        lb_stores = [n for n in source.walk_own(idw) if isinstance(n, ast.Assign) and any(
            isinstance(t, ast.Subscript) and isinstance(t.value, ast.Name) and t.value.id == LOOPB for t in n.targets)]
        ctx.floor("C05.R3-loop-carried-from-previous", len(lb_stores), 1, "stores of a rewritten loop binding")
        for st_ in lb_stores:
            seen_names: Set[str] = set()
            todo = list(source.names_in(st_.value))
            while todo:
                nm_ = todo.pop()
                if nm_ in seen_names:
                    continue
                seen_names.add(nm_)
                if nm_ in parts.values():
                    continue
                for v_ in match.assigned_value(idw, nm_):
                    todo.extend(source.names_in(v_))
            missing = [k for k, v_ in parts.items() if v_ not in seen_names]
            ok = not missing
            ctx.ob("C05.R3-loop-carried-from-previous", st_, ok,
                   "the rewritten binding is re-assembled from stage, producer, file and method of the original one" if ok else
                   "the rewritten loop binding is re-assembled without the %s of the original binding: a binding such as "
                   "'optimise/final.xyz:ref' becomes 'stage1.0#optimise:ref' at iteration 1 - the consumer receives the producer's whole "
                   "working directory (or its stdout for :output) instead of the file" % " and the ".join(missing),
                   construct="%s <- stage, producer, file, method" % short(st_, 60))
    upd = match.nodes_calling(cfg, lambda c: last_attr(c) == "update" and dotted(c.func.value) == "bindings")
    for u in upd:
        ok = bool(gt0) and match.only_via_edges(cfg, u, gt0)
        ctx.ob("C05.R3-loop-carried-from-previous", u.ast, ok, "loop bindings replace input bindings only for iterations > 0" if ok else
               "loop bindings override the original bindings also for iteration 0")
    # the rewritten value is what ends up in the bindings: loop_bindings[key] = value after compile_reference(producer,...)
    # other bindings are untouched: bindings filtered by 'key not in loop_bindings'
    bvals = match.assigned_value(idw, "bindings")
    ok = any(isinstance(v, ast.DictComp) and len(v.generators) == 1 and len(v.generators[0].ifs) == 1
             and isinstance(v.generators[0].ifs[0], ast.Compare) and isinstance(v.generators[0].ifs[0].ops[0], ast.NotIn)
             and dotted(v.generators[0].ifs[0].comparators[0]) == LOOPB for v in bvals)
    ctx.ob("C05.R3-loop-carried-from-previous", bvals[0] if bvals else idw, ok, "only loop-bound inputs are replaced; other inputs keep the original bindings" if ok else
           "the original bindings are not preserved for inputs that are not loop-bound",
           construct="bindings = {k: v for k in bindings if k not in loop_bindings}")

    # ---------------- R4 -------------------------------------------------------------------------------
    stores = [n for n in source.walk_own(idw) if isinstance(n, ast.Assign) and any(
        isinstance(t, ast.Subscript) and isinstance(t.slice, ast.Constant) and t.slice.value == "loopBindings"
        and dotted(t.value) == "new_dw_template" for t in n.targets)]
    for s_ in stores:
        names = set(source.names_in(s_.value))
        ok = LOOPB not in names and not any(isinstance(x, ast.Call) and last_attr(x) == "rewrite_loopbindings_for_stage_offset"
                                                      for x in ast.walk(s_.value))
        ctx.ob("C05.R4-no-stage-offset-drift", s_, ok, "the stored loopBindings are not the stage-offset-rewritten ones" if ok else
               "the stage-offset-rewritten loop bindings are stored back into the document: the offset is added again at "
               "every iteration (stage indices drift)")
    ctx.ob("C05.R4-no-stage-offset-drift", idw, True, "%d stores to new_dw_template['loopBindings'] inspected" % len(stores),
           construct="stores to new_dw_template['loopBindings']", trivial=True)
    g = ctx.repo.module(GRAPH)
    nxt = g.func("WorkflowGraph.instantiate_dowhile_next_iteration")
    ctx.analysed(nxt)
    c2 = CFG(nxt)
    ctx.paths += c2.paths_count()
    copies = [n for n in c2.nodes if n.kind == "stmt" and isinstance(n.ast, ast.Assign)
              and any(isinstance(t, ast.Name) and t.id == "do_while" for t in n.ast.targets)
              and isinstance(n.ast.value, ast.Call) and last_attr(n.ast.value) in ("deep_copy", "deepcopy")
              and n.ast.value.args and isinstance(n.ast.value.args[0], ast.Name) and n.ast.value.args[0].id == "do_while"]
    inst = match.nodes_calling(c2, lambda c: last_attr(c) == "instantiate_dowhile")
    ctx.require(bool(inst), "anchor missing: instantiate_dowhile call in instantiate_dowhile_next_iteration")
    for i_ in inst:
        ok = bool(copies) and c2.every_path_to_passes(i_, gates=copies)
        ctx.ob("C05.R4-no-stage-offset-drift", i_.ast, ok, "the next iteration is generated from a deep copy of the stored document" if ok else
               "the stored DoWhile document is passed to instantiate_dowhile without a deep copy (later iterations see mutations)")
        call = [c for c in own_calls(i_.ast) if last_attr(c) == "instantiate_dowhile"][0]
        kw = {k.arg: k.value for k in call.keywords}
        ok = "iteration_no" in kw and isinstance(kw["iteration_no"], ast.Name) and kw["iteration_no"].id == nxt.args.args[2].arg
        ctx.ob("C05.R4-no-stage-offset-drift", call, ok, "the requested iteration number is passed through" if ok else
               "instantiate_dowhile is not called with the requested iteration number", construct="instantiate_dowhile(..., iteration_no=next)")
    stores2 = match.nodes_calling(c2, lambda c: last_attr(c) == "store_unreplicated_flowir_to_disk")
    flag = nxt.args.args[3].arg if len(nxt.args.args) > 3 else None
    ft = match.test_nodes(c2, lambda t: "T" if isinstance(t, ast.Name) and t.id == flag else None)
    ok = bool(stores2) and bool(ft)
    if ok:
        for (tn, _) in ft:
            succ = [mm for (mm, l2) in tn.succ if l2 == "T"]
            r = c2.reach(succ, blocked=stores2, ignore_labels=("exc",))
            ok = ok and c2.exit.id not in r
    ctx.ob("C05.R4-no-stage-offset-drift", nxt, ok, "when asked, the new iteration is persisted before returning" if ok else
           "instantiate_dowhile_next_iteration can return without persisting the new iteration when store_flowir_to_disk is set",
           construct="if store_flowir_to_disk: store_unreplicated_flowir_to_disk()")

    # ---------------- R11: state kept between calls is keyed by the identity of the loop ---------------------------------
    # "instance i>0 takes its other inputs from the original bindings" of ITS loop: whatever the function remembers on the graph object
    # (self.<table>[key] = ...) serves the later iterations of the loop named by the key.  The function itself names a loop with labels
    # built from fields of the document ('stage%s.%s' % (stage, name)); a key that uses fewer of those fields lets two loops whose
    # importing components have the same name in different stages share one entry - the second loop is wired to the first loop's inputs
    dw_param = nxt.args.args[1].arg if len(nxt.args.args) > 1 else None
    ctx.require(dw_param is not None, "anchor missing: the DoWhile document parameter of instantiate_dowhile_next_iteration")

    def doc_fields(e: ast.AST, depth: int = 0) -> Set[str]:
        out: Set[str] = set()
        for x in ast.walk(e):
            if isinstance(x, ast.Subscript) and isinstance(x.value, ast.Name) and x.value.id == dw_param and isinstance(x.slice, ast.Constant):
                out.add(str(x.slice.value))
            elif isinstance(x, ast.Call) and last_attr(x) == "get" and isinstance(x.func.value, ast.Name) and x.func.value.id == dw_param \
                    and x.args and isinstance(x.args[0], ast.Constant):
                out.add(str(x.args[0].value))
            elif isinstance(x, ast.Name) and x.id != dw_param and depth < 3:
                for v in match.assigned_value(nxt, x.id):
                    if v is not e:
                        out |= doc_fields(v, depth + 1)
        return out
    identity: Set[str] = set()
    for x in source.walk_own(nxt):
        if (isinstance(x, ast.BinOp) and isinstance(x.op, ast.Mod) and isinstance(x.left, ast.Constant) and isinstance(x.left.value, str)) or isinstance(x, ast.JoinedStr):
            st_ = source.stmt_of(x)
            if isinstance(st_, ast.Assign):
                identity |= doc_fields(x)
    tables = [(st_, t) for st_ in source.walk_own(nxt) if isinstance(st_, ast.Assign) for t in st_.targets
              if isinstance(t, ast.Subscript) and isinstance(t.value, ast.Attribute) and isinstance(t.value.value, ast.Name) and t.value.value.id == "self"]
    for (st_, t) in tables:
        kf = doc_fields(t.slice)
        if not kf:
            continue            # not keyed by the document at all (e.g. keyed by a component reference): another rule's business
        ok = identity <= kf
        ctx.ob("C05.R11-per-loop-state-is-keyed-by-the-loop", st_, ok,
               "self.%s is keyed by %s, the fields the function names a loop with" % (t.value.attr, sorted(kf)) if ok else
               "instantiate_dowhile_next_iteration keeps self.%s between calls under a key made of the document's %s only, while it names a loop by %s: "
               "two DoWhile imports called alike in different stages (stage1.refine, stage2.refine) share one entry, so every iteration i>0 of the "
               "loop unrolled second takes its non-loop-carried inputs from the FIRST loop's original bindings (stage2.1#add0 reads stage0.seedA:ref "
               "instead of stage0.seedB:ref) - silently, the other loop's producers exist" % (t.value.attr, sorted(kf), sorted(identity)),
               construct="instantiate_dowhile_next_iteration: self.%s keyed by the loop's identity" % t.value.attr)
    ctx.ob("C05.R11-per-loop-state-is-keyed-by-the-loop", nxt, True, "%d tables kept on the graph by instantiate_dowhile_next_iteration inspected; loop identity fields %s"
           % (len(tables), sorted(identity)), construct="tables kept by instantiate_dowhile_next_iteration", trivial=True)

    # ---------------- R12: local memos of the unrolling functions are keyed by everything that varies (seed C05-14) ----------------------
    # "rewrite each distinct string just once": what a relative reference is rewritten to depends on the stage of the component that owns
    # it, so a memo keyed by the string alone lets the component that comes first decide for every stage of the iteration
    from vlib import state as _state12
    n12_fn = n12 = 0
    for q12, f12 in fl.functions.items():
        if "." in q12 or not any(w in q12 for w in ("rewrite", "dowhile", "loop")):
            continue
        n12_fn += 1
        units = [(f12, False)] + [(g, True) for g in ast.walk(f12) if isinstance(g, ast.FunctionDef) and g is not f12]
        for (u, per_call) in units:
            for (st_, table_, key_, missing_) in _state12.memo_key_gaps(u, params_vary=per_call):
                if per_call and any(isinstance(a, ast.Assign) and any(isinstance(t, ast.Name) and t.id == table_ for t in a.targets) for a in source.walk_own(u)):
                    continue        # the table is created inside the helper itself: it lives for one call
                n12 += 1
                ctx.analysed(f12)
                ctx.ob("C05.R12-memo-keys-cover-what-varies", st_, not missing_,
                       "%s: the memo %s[%s] is keyed by everything that varies" % (q12, table_, key_) if not missing_ else
                       "%s remembers %s under the key %s although the call also depends on %s, which changes from one component to the next: the "
                       "first owner of a reference text decides what every later identical text is rewritten to - with looped components of the same "
                       "name in two stages of the loop, 'work:output' in the stage-1 consumer is wired to the stage-0 instance, silently"
                       % (q12, short(st_.value, 50), key_, ", ".join(missing_)),
                       construct="%s: %s[%s] <- key covers the varying arguments" % (q12, table_, key_))
    ctx.ob("C05.R12-memo-keys-cover-what-varies", fl.func("rewrite_components"), True,
           "%d unrolling functions inspected for local memos, %d found" % (n12_fn, n12), trivial=True, construct="unrolling functions: local memos")
    ctx.require(n12_fn >= 3, "anchor missing: the module-level unrolling functions of flowir.py (found %d)" % n12_fn)

    # ---------------- R5 -------------------------------------------------------------------------------
    rar = fl.func("rewrite_all_references")
    ctx.analysed(rar)
    sites = [s for s in sub.find_sites(rar) if not sub.is_literal_key(s)]
    ctx.floor("C05.R5-anchored-rewrite", len(sites), 1, "substitution sites in rewrite_all_references")
    # one pass: the string that is searched is not the result of an earlier substitution - an assignment of the searched string from a
    # substitution of itself does not sit inside a loop (the text inserted for a binding would be rewritten again on behalf of the
    # references processed after it, depending on which comes first in the text)
    for a in source.walk_own(rar):
        if isinstance(a, ast.Assign) and len(a.targets) == 1 and isinstance(a.targets[0], ast.Name) and isinstance(a.value, ast.Call) \
                and last_attr(a.value) in ("sub", "subn", "replace") and any(isinstance(x, ast.Name) and x.id == a.targets[0].id for x in ast.walk(a.value)):
            loops_ = [x for x in source.ancestors(a) if isinstance(x, (ast.For, ast.While)) and any(x is y for y in ast.walk(rar))]
            ctx.ob("C05.R5-anchored-rewrite", a, not loops_,
                   "the references of a string are substituted in one pass" if not loops_ else
                   "rewrite_all_references rewrites %s inside the loop over its references: text inserted for a binding is rewritten a second time "
                   "when it is spelled like a reference processed later - '--outer inp:ref --inner stage0.B:ref' (inp bound to the package's "
                   "stage0.B, the document has its own B) becomes '--outer stage1.B:ref --inner stage1.B:ref', with the two in the other order "
                   "the result is right" % a.targets[0].id, construct="rewrite_all_references: one substitution pass")
    for s in sites:
        check_site(ctx, "C05.R5-anchored-rewrite", rar, s, "a reference found in a looped component")

    # ---------------- R7 -------------------------------------------------------------------------------
    n_reads = 0
    for mod in ctx.repo.modules():
        if not mod.rel.startswith("python/experiment/") or mod.rel.endswith("model/graph.py"):
            continue
        if "_placeholders" not in mod.text:
            continue
        for q, f in mod.functions.items():
            reads, bad = placeholder_mutations(f)
            if not reads:
                continue
            n_reads += reads
            ctx.analysed(f)
            for (node, why) in bad:
                ctx.ob("C05.R7-instance-set-owned-by-graph", node, False,
                       "%s modifies the instance list of a placeholder outside graph.py (%s): the list is shared with "
                       "WorkflowGraph._placeholders, so after it a :loopref/:loopoutput reference resolves to 'instances 0..k' plus "
                       "whatever was added (e.g. the loop's condition component)" % (q, why),
                       construct="%s: %s" % (q, short(node, 70)))
            if not bad:
                ctx.ob("C05.R7-instance-set-owned-by-graph", f, True,
                       "%s reads placeholder entries without modifying their instance list (or works on a deep copy)" % q,
                       construct="%s reads _placeholders" % q)
    ctx.floor("C05.R7-instance-set-owned-by-graph", n_reads, 5, "reads of WorkflowGraph._placeholders outside graph.py")

    # ---------------- R6 -------------------------------------------------------------------------------
    cds = g.func("WorkflowGraph.compute_dowhile_state")
    ctx.analysed(cds)
    # roles: the descending list of condition instances (a sorted(.., reverse=True) of a filter over the looped ids) and
    # its first element
    CINST = match.role(cds, lambda v: isinstance(v, ast.Call) and call_name(v) == "sorted" and any(
        k.arg == "reverse" for k in v.keywords), "condition_instances")
    LATEST = match.role(cds, lambda v: isinstance(v, ast.Subscript) and isinstance(v.slice, ast.Constant) and v.slice.value == 0
                        and dotted(v.value) == CINST, "latest")
    lat = match.assigned_value(cds, LATEST)
    ok = any(isinstance(v, ast.Subscript) and isinstance(v.slice, ast.Constant) and v.slice.value == 0
             and dotted(v.value) == CINST for v in lat)
    ci = match.assigned_value(cds, CINST)
    ok2 = any(isinstance(v, ast.Call) and call_name(v) == "sorted" and any(
        k.arg == "reverse" and isinstance(k.value, ast.Constant) and k.value.value is True for k in v.keywords) for v in ci)
    ctx.ob("C05.R6-state-from-latest", lat[0] if lat else cds, ok and ok2,
           "the loop state is taken from the first element of the descending (numeric, see R1) order" if ok and ok2 else
           "the loop state is not taken from the numerically highest iteration", construct="latest = sorted(..., reverse=True)[0]")
    # the instances considered are those of THIS loop's condition: both the stage and the name parsed from the document's
    # condition reference take part in the selection (two loops may use the same component names in different stages)
    parsed = [n for n in source.walk_own(cds) if isinstance(n, ast.Assign) and isinstance(n.value, ast.Call)
              and last_attr(n.value) == "ParseDataReferenceFull" and isinstance(n.targets[0], ast.Tuple) and len(n.targets[0].elts) >= 2
              and all(isinstance(e, ast.Name) for e in n.targets[0].elts[:2])]
    ctx.require(bool(parsed), "anchor missing: stage, name, .. = ParseDataReferenceFull(condition, ..) in compute_dowhile_state")
    st_name, nm_name = parsed[0].targets[0].elts[0].id, parsed[0].targets[0].elts[1].id
    filt_names = set()
    for v in ci:
        for c in ast.walk(v):
            if isinstance(c, (ast.ListComp, ast.GeneratorExp)):
                for gen in c.generators:
                    for cond in gen.ifs:
                        filt_names |= set(source.names_in(cond))
    # a pre-filter on the candidates (e.g. a local list built from all_looped_ids) counts too
    for n_ in source.walk_own(cds):
        if isinstance(n_, ast.Assign) and isinstance(n_.value, (ast.ListComp, ast.GeneratorExp)):
            if any(isinstance(t, ast.Name) and any(t.id in source.names_in(v) for v in ci) for t in n_.targets):
                for gen in n_.value.generators:
                    for cond in gen.ifs:
                        filt_names |= set(source.names_in(cond))
    def derived(seed: str) -> set:
        out = {seed}
        changed = True
        while changed:
            changed = False
            for n_ in source.walk_own(cds):
                if isinstance(n_, ast.Assign) and len(n_.targets) == 1 and isinstance(n_.targets[0], ast.Name) \
                        and n_.targets[0].id not in out and out & set(source.names_in(n_.value)):
                    out.add(n_.targets[0].id)
                    changed = True
        return out
    st_names, nm_names = derived(st_name), derived(nm_name)
    okf = bool(st_names & filt_names) and bool(nm_names & filt_names)
    ctx.ob("C05.R6-state-from-latest", ci[0] if ci else cds, okf,
           "the condition instances are selected by stage and name of the loop's own condition reference" if okf else
           "the condition instances are selected without the %s of the loop's condition reference (%s is parsed but not used): "
           "with two DoWhile loops whose condition components share a name (the same document imported in two stages) every "
           "loop reports the condition / iteration of whichever loop has the highest iteration"
           % ("stage" if not (st_names & filt_names) else "name", st_name if not (st_names & filt_names) else nm_name),
           construct="condition_instances filter uses %s and %s" % (st_name, nm_name))
    st = [n for n in source.walk_own(cds) if isinstance(n, ast.Assign) and any(
        isinstance(t, ast.Subscript) and isinstance(t.slice, ast.Constant) and t.slice.value == "state" for t in n.targets)]
    ok = bool(st) and isinstance(st[0].value, ast.Dict) and {k.value for k in st[0].value.keys if isinstance(k, ast.Constant)} == {"currentCondition", "currentIteration"}
    if ok:
        d = dict(zip([k.value for k in st[0].value.keys], st[0].value.values))
        cc = match.assigned_value(cds, d["currentCondition"].id) if isinstance(d["currentCondition"], ast.Name) else []
        ci2 = match.assigned_value(cds, d["currentIteration"].id) if isinstance(d["currentIteration"], ast.Name) else []
        # everything must derive (transitively) from LATEST
        from_latest = {LATEST}
        grow = True
        while grow:
            grow = False
            for n_ in source.walk_own(cds):
                if isinstance(n_, ast.Assign):
                    tnames = [x.id for t in n_.targets for x in ast.walk(t) if isinstance(x, ast.Name)]
                    if from_latest & set(source.names_in(n_.value)):
                        for tn_ in tnames:
                            if tn_ not in from_latest:
                                from_latest.add(tn_)
                                grow = True
        ok = any(from_latest & set(source.names_in(v)) for v in cc) and any(
            from_latest & set(source.names_in(v)) and isinstance(v, ast.Call) and call_name(v) == "int" for v in ci2)
    ctx.ob("C05.R6-state-from-latest", st[0] if st else cds, ok,
           "currentCondition and currentIteration are computed from the latest instance" if ok else
           "currentCondition/currentIteration are not both derived from the latest instance",
           construct="dw['state'] = {currentCondition, currentIteration} from latest")

    check_placeholder_match(ctx, g)
    check_placeholders_accumulate(ctx, g)
    check_iteration_patterns(ctx, [g, ctx.repo.module("python/experiment/model/frontends/flowir.py")])
    check_frozen_placeholders(ctx, ctx.repo.module(CONTROL))


def bounded_iteration_number(pattern: str) -> Optional[str]:
    """For a regular expression that matches '<digits>#' (the prefix of an instance name '<iteration>#<component>'): the reason why it
    does not admit EVERY decimal iteration number, or None.  Decided on the parsed pattern."""
    import re as _re
    try:
        parsed = _re._parser.parse(pattern)
    except Exception:
        return None

    def is_digit(item) -> bool:
        op, av = item
        name = str(op)
        if name == "IN":
            return any(str(o) == "CATEGORY" and "DIGIT" in str(a) and "NOT" not in str(a) for o, a in av) or any(
                str(o) == "RANGE" and a == (48, 57) for o, a in av)
        return False

    def walk(seq) -> Optional[str]:
        items = list(seq)
        for i, (op, av) in enumerate(items):
            name = str(op)
            if name == "LITERAL" and av == ord("#") and i > 0:
                def tail(item) -> Optional[str]:
                    pop, pav = item
                    pname = str(pop)
                    if is_digit(item):
                        return "a single digit before '#'"
                    if pname in ("MAX_REPEAT", "MIN_REPEAT", "POSSESSIVE_REPEAT"):
                        lo, hi, sub = pav
                        sub = list(sub)
                        if len(sub) == 1 and is_digit(sub[0]) and str(hi) != "MAXREPEAT":
                            return "at most %s digits before '#'" % hi
                        if len(sub) == 1 and str(sub[0][0]) == "SUBPATTERN" and str(hi) != "MAXREPEAT":
                            return tail(sub[0])
                    if pname == "SUBPATTERN" and list(pav[3]):
                        return tail(list(pav[3])[-1])
                    return None
                r0 = tail(items[i - 1])
                if r0:
                    return r0
            if name == "SUBPATTERN":
                r = walk(av[3])
                if r:
                    return r
            elif name in ("MAX_REPEAT", "MIN_REPEAT", "POSSESSIVE_REPEAT"):
                r = walk(av[2])
                if r:
                    return r
            elif name == "BRANCH":
                for alt in av[1]:
                    r = walk(alt)
                    if r:
                        return r
        return None
    return walk(parsed)


def check_iteration_patterns(ctx, mods) -> None:
    RID = "C05.R10-iteration-numbers-are-whole"
    # the rule has no instance on a tree that recognises instances with '#' in / split('#'): keep it honest with a positive example
    ctx.require(bounded_iteration_number(r"\d#") is not None and bounded_iteration_number(r"(\d{1,2})#(.*)") is not None
                and bounded_iteration_number(r"\d+#") is None and bounded_iteration_number(r"^([0-9]+)#") is None,
                "self-test of the iteration-number pattern analysis failed")
    n_rec = 0
    for m in mods:
        for q, f in sorted(m.functions.items()):
            for x in source.walk_own(f):
                # recognisers of instance names that do not use a pattern: '#' in name / name.split('#', 1)
                if (isinstance(x, ast.Compare) and isinstance(x.ops[0], (ast.In, ast.NotIn)) and isinstance(x.left, ast.Constant) and x.left.value == "#") or (
                        isinstance(x, ast.Call) and last_attr(x) == "split" and x.args and isinstance(x.args[0], ast.Constant) and x.args[0].value == "#"):
                    n_rec += 1
                if isinstance(x, ast.Call) and isinstance(x.func, ast.Attribute) and isinstance(x.func.value, ast.Name) and x.func.value.id == "re" and x.args:
                    pats = [c.value for c in ast.walk(x.args[0]) if isinstance(c, ast.Constant) and isinstance(c.value, str) and "#" in c.value]
                    if isinstance(x.args[0], ast.Name):
                        pats += [c.value for v in match.assigned_value(f, x.args[0].id) for c in ast.walk(v)
                                 if isinstance(c, ast.Constant) and isinstance(c.value, str) and "#" in c.value]
                    for pt in pats:
                        why = bounded_iteration_number(pt)
                        ctx.analysed(f)
                        ctx.ob(RID, x, why is None,
                               "the pattern %r admits every iteration number" % pt if why is None else
                               "%s recognises instance names with %r: %s - '0#work' .. '9#work' match, '10#work' does not: from the eleventh "
                               "iteration on the instances are no longer seen as looped components, placeholder['latest'], the :loopref list and "
                               "the loop's current condition stay at iteration 9 and no error is raised" % (q, pt, why),
                               construct="%s: pattern for '<iteration>#<name>'" % q.split(".")[-1])
    ctx.floor(RID, n_rec, 8, "recognisers of '<iteration>#<name>' instance names ('#' in .. / split('#')) in graph.py and flowir.py")
    ctx.ob(RID, mods[0].tree, True, "instance names are recognised by '#' membership / split in %d places; every regular expression for them is checked" % n_rec,
           construct="recognisers of looped instance names")


def check_placeholders_accumulate(ctx, g) -> None:
    """WorkflowGraph._placeholders accumulates: the discovery deliberately leaves some placeholders out of what it returns (a placeholder
    the controller froze on a restart is skipped), so the table is UPDATED with what was discovered, never replaced by it.  Outside
    __init__ the attribute is not rebound."""
    rule = "C05.R7-instance-set-owned-by-graph"
    n = 0
    for q, f in sorted(g.functions.items()):
        if not q.startswith("WorkflowGraph."):
            continue
        for a in source.walk_own(f):
            if isinstance(a, (ast.Assign, ast.AugAssign)):
                for t in (a.targets if isinstance(a, ast.Assign) else [a.target]):
                    if isinstance(t, ast.Attribute) and t.attr == "_placeholders" and isinstance(t.value, ast.Name) and t.value.id == "self":
                        n += 1
                        ok = q.endswith(".__init__")
                        ctx.ob(rule, a, ok, "the placeholder table is created in __init__" if ok else
                               "%s REPLACES self._placeholders (%s) instead of updating it: the placeholders that the discovery leaves out on purpose "
                               "(frozen on a restart, or of a document that is not visited in this call) vanish from the table - references to "
                               "them from outside the loop no longer resolve to the latest instance" % (q, short(a, 60)),
                               construct="self._placeholders is only updated outside __init__", trivial=ok)
    ctx.floor(rule, n, 1, "bindings of WorkflowGraph._placeholders")


def check_frozen_placeholders(ctx, ctl) -> None:
    rule = "C05.R9-only-earlier-stages-are-frozen"
    n = 0
    for q, f in ctl.functions.items():
        if q.count(".") > 1 and not any(isinstance(x, ast.Subscript) and "_placeholders" in source.src(x) for x in ast.walk(f)):
            continue
        stores = [a for a in source.walk_own(f) if isinstance(a, ast.Assign) and len(a.targets) == 1 and isinstance(a.targets[0], ast.Subscript)
                  and "_placeholders" in source.src(a.targets[0]) and isinstance(a.targets[0].slice, ast.Constant) and a.targets[0].slice.value == "state"
                  and (dotted(a.value) or "").split(".")[-1] in ("FINISHED_STATE", "SHUTDOWN_STATE", "FAILED_STATE")]
        if not stores:
            continue
        cfg = CFG(f)
        ctx.analysed(f)

        def earlier_label(t: ast.AST) -> Optional[str]:
            """edge label on which <x>.stageIndex is strictly below the starting stage"""
            cp = match.compare_parts(t)
            if not cp:
                return None
            l, op, r = cp
            is_stage = lambda e: isinstance(e, ast.Attribute) and e.attr in ("stageIndex", "index") or (isinstance(e, ast.Name) and "stage" in e.id.lower())
            is_start = lambda e: "starting" in source.src(e).lower() or "initial_stage" in source.src(e).lower()
            if is_stage(l) and is_start(r):
                return {ast.Lt: "T", ast.GtE: "F"}.get(type(op))
            if is_start(l) and is_stage(r):
                return {ast.Gt: "T", ast.LtE: "F"}.get(type(op))
            return None
        tests = match.test_nodes(cfg, earlier_label)
        for st in stores:
            n += 1
            nodes = [nd for nd in cfg.nodes if nd.kind == "stmt" and nd.ast is st]
            ok = bool(tests) and bool(nodes) and all(match.only_via_edges(cfg, nd, tests) for nd in nodes)
            ctx.ob(rule, st, ok,
                   "%s freezes a placeholder only for stages strictly before the starting stage" % q if ok else
                   "%s marks a placeholder as finished without a strict 'stage < starting stage' test on the way: on a restart AT the stage of a "
                   "loop that still iterates, the placeholder is frozen, _discover_dowhile_placeholders skips it from then on, and a reference "
                   "from outside the loop resolves to the instance that was latest at the restart - ':loopref' omits every later instance" % q,
                   construct="%s: _placeholders[..]['state'] = <final> <- stage < starting stage" % q)
    ctx.floor(rule, n, 1, "direct final-state marks of DoWhile placeholders in the controller")


def check_placeholder_match(ctx, g) -> None:
    """R8: component-wise flow of the placeholder id (stage, name) into the expression that selects its instances."""
    rule = "C05.R8-instances-matched-by-full-id"
    fn = g.func("WorkflowGraph._discover_dowhile_placeholders")
    ctx.analysed(fn)
    FULL = frozenset({0, 1})
    helpers = {n.name: n for n in source.walk_own(fn) if isinstance(n, ast.FunctionDef)}

    # the loop over the placeholder ids: its target is formatted with a two-slot pattern ('stage%d.%s' % <target>) or iterates a
    # list of 2-tuples
    def two_tuple_list(name: str) -> bool:
        return any(isinstance(v, (ast.ListComp, ast.GeneratorExp)) and isinstance(v.elt, ast.Tuple) and len(v.elt.elts) == 2
                   for v in match.assigned_value(fn, name))
    loops = [n for n in source.walk_own(fn) if isinstance(n, ast.For) and isinstance(n.target, ast.Name)
             and isinstance(n.iter, ast.Name) and two_tuple_list(n.iter.id)]
    ctx.require(bool(loops), "anchor missing: the loop over the (stage, name) placeholder ids in _discover_dowhile_placeholders")
    loop = loops[0]
    idvar = loop.target.id

    def ev(e: ast.AST, env: dict, ids: set, depth: int = 0) -> frozenset:
        """components of the placeholder id that the value of e depends on"""
        if e is None or depth > 6:
            return frozenset()
        if isinstance(e, ast.Name):
            return FULL if e.id in ids else env.get(e.id, frozenset())
        if isinstance(e, ast.Subscript) and isinstance(e.value, ast.Name) and e.value.id in ids:
            if isinstance(e.slice, ast.Constant) and e.slice.value in (0, 1):
                return frozenset({e.slice.value})
            if isinstance(e.slice, ast.Constant) and e.slice.value in (-1, -2):
                return frozenset({2 + e.slice.value})
            return FULL
        if isinstance(e, ast.Call) and isinstance(e.func, ast.Name) and e.func.id in helpers:
            h = helpers[e.func.id]
            params = [a.arg for a in h.args.args]
            henv, hids = {}, set()
            for prm, arg in zip(params, e.args):
                if isinstance(arg, ast.Name) and arg.id in ids:
                    hids.add(prm)
                else:
                    henv[prm] = ev(arg, env, ids, depth + 1)
            for kw in e.keywords:
                if kw.arg in params:
                    if isinstance(kw.value, ast.Name) and kw.value.id in ids:
                        hids.add(kw.arg)
                    else:
                        henv[kw.arg] = ev(kw.value, env, ids, depth + 1)
            propagate(h, henv, hids, depth + 1)
            out = frozenset()
            for r in source.walk_own(h):
                if isinstance(r, ast.Return) and r.value is not None:
                    out |= ev(r.value, henv, hids, depth + 1)
            return out
        if isinstance(e, (ast.ListComp, ast.SetComp, ast.GeneratorExp, ast.DictComp)):
            bound = {x.id for gen in e.generators for x in ast.walk(gen.target) if isinstance(x, ast.Name)}
            env2 = {k: v for k, v in env.items() if k not in bound}
            ids2 = ids - bound
            out = frozenset()
            for gen in e.generators:
                out |= ev(gen.iter, env2, ids2, depth + 1)
                for c in gen.ifs:
                    out |= ev(c, env2, ids2, depth + 1)
            # the element decides *what* is collected, the conditions and sources decide *which*; both count as flow
            elts = [e.key, e.value] if isinstance(e, ast.DictComp) else [e.elt]
            for x in elts:
                out |= ev(x, env2, ids2, depth + 1)
            return out
        if isinstance(e, ast.Lambda):
            bound = {a.arg for a in e.args.args}
            return ev(e.body, {k: v for k, v in env.items() if k not in bound}, ids - bound, depth + 1)
        out = frozenset()
        for ch in ast.iter_child_nodes(e):
            if isinstance(ch, (ast.expr_context, ast.operator, ast.cmpop, ast.boolop, ast.unaryop)):
                continue
            if isinstance(ch, ast.keyword):
                out |= ev(ch.value, env, ids, depth + 1)
            elif isinstance(ch, ast.expr):
                out |= ev(ch, env, ids, depth + 1)
        return out

    def propagate(scope: ast.AST, env: dict, ids: set, depth: int = 0) -> None:
        changed = True
        rounds = 0
        while changed and rounds < 10:
            changed = False
            rounds += 1
            for n in source.walk_own(scope):
                if not isinstance(n, ast.Assign) or len(n.targets) != 1:
                    continue
                t = n.targets[0]
                if isinstance(t, ast.Name):
                    if isinstance(n.value, ast.Name) and n.value.id in ids:
                        if t.id not in ids:
                            ids.add(t.id)
                            changed = True
                        continue
                    v = ev(n.value, env, ids, depth)
                    if v - env.get(t.id, frozenset()):
                        env[t.id] = env.get(t.id, frozenset()) | v
                        changed = True
                elif isinstance(t, ast.Tuple) and isinstance(n.value, ast.Name) and n.value.id in ids and len(t.elts) == 2:
                    for i, x in enumerate(t.elts):
                        if isinstance(x, ast.Name) and i not in env.get(x.id, frozenset()):
                            env[x.id] = env.get(x.id, frozenset()) | {i}
                            changed = True

    env: dict = {}
    ids = {idvar}
    propagate(loop, env, ids)

    # the selected set: what is sorted (descending) to find the latest instance, and what is removed from the remaining ids
    selected: List[ast.AST] = []
    for n in source.walk_own(loop):
        if isinstance(n, ast.Call) and call_name(n) == "sorted" and n.args and any(k.arg == "reverse" for k in n.keywords):
            selected.append(n.args[0])
        if isinstance(n, ast.Call) and last_attr(n) == "difference_update" and n.args:
            selected.append(n.args[0])
        if isinstance(n, ast.Assign) and any(isinstance(t, ast.Subscript) and isinstance(t.slice, ast.Constant) and t.slice.value == "represents"
                                             for t in n.targets):
            selected.append(n.value)
        if isinstance(n, ast.Dict):
            for k, v in zip(n.keys, n.values):
                if isinstance(k, ast.Constant) and k.value == "represents":
                    selected.append(v)
    ctx.floor(rule, len(selected), 2, "uses of the set of instances matched to a placeholder (latest, represents, removal)")
    for e in selected:
        got = ev(e, env, ids)
        ok = got == FULL
        missing = "stage" if 0 not in got else "blueprint name" if 1 not in got else ""
        ctx.ob(rule, e, ok,
               "the instances of a placeholder are selected by its stage and its name" if ok else
               "the instances collected for a placeholder do not depend on the placeholder's %s: a DoWhile document that uses the same "
               "component name in two of its stages (ids are (stage, name) pairs, so this is legal) gets the instances of both "
               "components in 'represents' (':loopref' lists 2(k+1) paths) and 'latest' may point into the other stage" % missing,
               construct="%s <- depends on the placeholder's stage and name" % short(e, 60))

    # every placeholder consumes its instances, also one that is skipped (already FINISHED/FAILED/SHUTDOWN): the caller treats the ids
    # that are left over as "matched by no placeholder" and refuses to advance ANY loop
    cfg = CFG(fn)
    heads = [n for n in cfg.nodes if n.kind == "for" and n.ast is loop]
    removals = [n for n in cfg.nodes if n.kind == "stmt" and n.ast is not None
                and any(last_attr(c) in ("difference_update", "discard", "remove") for c in own_calls(n.ast))
                and any(n.ast is x for st in loop.body for x in ast.walk(st))]
    skips = [n for n in cfg.nodes if n.kind == "stmt" and isinstance(n.ast, ast.Continue) and any(n.ast is x for st in loop.body for x in ast.walk(st))]
    if heads:
        body_starts = [m for (m, lab) in heads[0].succ if lab == "iter"]
        for sk in skips:
            r = cfg.reach(body_starts, blocked=removals + heads)
            ok = bool(removals) and sk.id not in r
            ctx.ob(rule, sk.ast, ok,
                   "a placeholder that is skipped has already taken its instances out of the remaining ids" if ok else
                   "a placeholder is skipped (it is no longer RUNNING) before its instances are removed from the remaining looped ids: "
                   "map_placeholders_to_looped_instances_of_components then finds ids that 'match no placeholder' and raises - after a "
                   "restart has marked the placeholders of earlier stages FINISHED no other loop can be advanced",
                   construct="continue <- instances removed first")

