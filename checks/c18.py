"""C18 - staging and deployment never write outside their target directory (CONF engine).  DESIGN.md section C18."""
from __future__ import annotations

import ast
from typing import Dict, List, Optional, Set, Tuple

from vlib import match, source
from vlib.cfg import CFG, own_calls
from vlib.source import AnalysisError, call_name, dotted, last_attr, short

DATA = "python/experiment/model/data.py"
STORAGE = "python/experiment/model/storage.py"
FLOWIR = "python/experiment/model/frontends/flowir.py"

NORMALISERS = {"os.path.normpath", "os.path.realpath", "os.path.abspath"}
CONTAIN_FUNCS = {"os.path.commonpath", "os.path.commonprefix"}


def local_defs(fn: ast.AST, name: str) -> List[ast.AST]:
    out = []
    for n in source.walk_own(fn):
        if isinstance(n, ast.Assign):
            for t in n.targets:
                if isinstance(t, ast.Name) and t.id == name:
                    out.append(n.value)
    return out


def is_normalised(fn: ast.AST, e: ast.AST, depth: int = 0) -> bool:
    """Is the path expression passed through normpath/realpath/abspath (possibly re-joined with '' afterwards)?"""
    if depth > 4:
        return False
    if isinstance(e, ast.Call):
        cn = call_name(e) or ""
        if cn in NORMALISERS:
            return True
        if cn == "os.path.join" and e.args and all(isinstance(a, ast.Constant) and a.value == "" for a in e.args[1:]):
            return is_normalised(fn, e.args[0], depth + 1)
    if isinstance(e, ast.Name):
        defs = local_defs(fn, e.id)
        return bool(defs) and all(is_normalised(fn, d, depth + 1) for d in defs)
    return False


def resolves_links(fn: ast.AST, e: ast.AST, depth: int = 0) -> bool:
    """Is the path expression passed through os.path.realpath (the only normaliser that follows links on disk)?"""
    if depth > 4:
        return False
    if isinstance(e, ast.Call):
        cn = call_name(e) or ""
        if cn == "os.path.realpath":
            return True
        if cn == "os.path.join" and e.args and all(isinstance(a, ast.Constant) and a.value == "" for a in e.args[1:]):
            return resolves_links(fn, e.args[0], depth + 1)
        if cn in ("os.path.normpath", "os.path.abspath") and e.args:
            return resolves_links(fn, e.args[0], depth + 1)
    if isinstance(e, ast.Name):
        defs = local_defs(fn, e.id)
        return bool(defs) and all(resolves_links(fn, d, depth + 1) for d in defs)
    return False


def mentions_source(fn: ast.AST, e: ast.AST, src_pred, depth: int = 0) -> bool:
    if depth > 4:
        return False
    for n in ast.walk(e):
        if src_pred(n):
            return True
        if isinstance(n, ast.Name):
            for d in local_defs(fn, n.id):
                if d is not e and mentions_source(fn, d, src_pred, depth + 1):
                    return True
    return False


class Containment:
    def __init__(self, compare: ast.Compare, call: ast.Call, guarded_raise: Optional[ast.Raise]):
        self.compare = compare
        self.call = call
        self.raise_ = guarded_raise


def containment_tests(fn: ast.AST) -> List[Containment]:
    out = []
    for n in source.walk_own(fn, include_nested=False):
        if isinstance(n, ast.Compare):
            calls = [c for c in ast.walk(n) if isinstance(c, ast.Call) and call_name(c) in CONTAIN_FUNCS]
            if not calls:
                continue
            # the if statement guarding a raise
            ifn = None
            for a in source.ancestors(n):
                if isinstance(a, ast.If) and any(n is x for x in ast.walk(a.test)):
                    ifn = a
                    break
            r = None
            if ifn is not None:
                for s in ifn.body + ifn.orelse:
                    for x in ast.walk(s):
                        if isinstance(x, ast.Raise):
                            r = x
            out.append(Containment(n, calls[0], r))
    return out


def live(cfg: CFG, tests: List[Containment]) -> List[Containment]:
    """Only the containment tests whose comparison is reachable in the function's CFG (not under 'if False')."""
    reach = cfg.reachable_from_entry()
    out = []
    for t in tests:
        nodes = [n for n in cfg.nodes if n.ast is not None and n.id in reach and (n.ast is t.compare or any(t.compare is x for x in ast.walk(n.ast))
                                                                              if n.kind in ("test", "stmt") else False)]
        if nodes:
            out.append(t)
    return out


def live_node(cfg: CFG, node: ast.AST) -> bool:
    """Is the expression/statement part of a CFG node that is reachable from the entry (not under 'if False')?"""
    reach = cfg.reachable_from_entry()
    for n in cfg.nodes:
        if n.ast is None or n.id not in reach or n.kind not in ("test", "stmt", "for", "with"):
            continue
        if isinstance(n.ast, (ast.FunctionDef, ast.ClassDef)):
            continue
        if isinstance(n.ast, (ast.If, ast.While, ast.Try)):
            continue
        hays = [n.ast.iter] if n.kind == "for" else [it.context_expr for it in n.ast.items] if n.kind == "with" else [n.ast]
        if any(node is x for h in hays for x in ast.walk(h)):
            return True
    return False


def containment_quality(fn: ast.AST, c: Containment, src_pred) -> Tuple[bool, str]:
    """(ok, why) : candidate path normalised; commonprefix only with separator-terminated operands."""
    args = c.call.args[0].elts if c.call.args and isinstance(c.call.args[0], (ast.List, ast.Tuple)) else list(c.call.args)
    cand = [a for a in args if mentions_source(fn, a, src_pred)]
    if not cand:
        return False, "the containment test does not involve the untrusted name"
    for a in cand:
        if not is_normalised(fn, a):
            return False, ("the path built from the untrusted name (%s) is compared without normalisation "
                           "(normpath/realpath/abspath): '..' segments pass the test" % short(a, 60))
    for a in cand:
        if not resolves_links(fn, a):
            return False, ("the path built from the untrusted name (%s) is only normalised lexically (normpath/abspath): a name "
                           "routed through a link that staging/deployment itself created in the destination (a ':link' "
                           "reference, an earlier manifest entry) resolves outside and passes the test" % short(a, 60))
    if call_name(c.call) == "os.path.commonprefix":
        # character-wise: acceptable only if the base ends with a separator (join(x, ''))
        others = [a for a in args if a not in cand]
        def sep_terminated(e, depth=0):
            if isinstance(e, ast.Call) and call_name(e) == "os.path.join" and e.args and isinstance(e.args[-1], ast.Constant) and e.args[-1].value == "":
                return True
            if isinstance(e, ast.Name) and depth < 3:
                d = local_defs(fn, e.id)
                return bool(d) and all(sep_terminated(x, depth + 1) for x in d)
            return False
        if not all(sep_terminated(o) for o in others):
            return False, "commonprefix is character-wise: '/a/b' is a prefix of '/a/b2' unless the base ends with a separator"
    if c.raise_ is None:
        return False, "a failed containment test does not raise"
    return True, "normalised containment test that raises"


def run(ctx) -> None:
    ctx.explanation = (
        "Confinement (CONF) rule over the staging and deployment sinks: every path built by joining a base directory with "
        "an untrusted name (archive member name / link target, manifest key) must pass a normalising containment test "
        "that raises before it reaches extractall/copytree/copy/symlink; link members of archives must be examined (or a "
        "safe extraction filter passed); copy/link staging destinations must be built from a basename only; rejections "
        "must surface as the staging/packaging error. Decides this for every archive and manifest; the file-system "
        "effect of a concrete archive is not executed.")
    ctx.rule("C18.R1-archive-members", "archive member paths are normalised before the containment test and link members are checked (or filter='data')")
    ctx.rule("C18.R2-basename-destinations", "copy/link staging destinations are <working dir>/<basename of the source>")
    ctx.rule("C18.R3-manifest-keys", "os.path.join(target, <manifest key>) passes a normalising containment test before copytree/symlink")
    ctx.rule("C18.R5-archive-own-links", "the member check does not trust realpath() for links that the archive itself creates (they are not "
             "on disk when the check runs): extraction uses a safe filter, or each member is extracted inside the checking loop, or "
             "member names and link targets that pass through a symbolic-link member of the archive are rejected")
    ctx.rule("C18.R6-writes-after-the-manifest", "a file written into <instance>/<folder> after the manifest was applied goes into a directory "
             "that this deployment created itself (os.makedirs without exist_ok) or whose real path was tested to be beneath the "
             "instance directory: the manifest may have made that folder a link")
    ctx.rule("C18.R7-link-roots-mirror-tarfile", "the containment test of a link member resolves its linkname against the directory tarfile will "
             "resolve it against: the member's own directory for a symbolic link, the EXTRACTION ROOT for a hard link - a hard link 'd/h' -> "
             "'../victim.txt' vetted against d/ looks harmless while tarfile links to <root>/../victim.txt")
    ctx.rule("C18.R4-error-type", "offending inputs are rejected with DataReferenceCouldNotStageError / PackageCreateError (or a manifest syntax error)")
    ctx.assume("tarfile/shutil/os semantics are as documented; links inside the destination are in scope only as far as the "
               "containment test must resolve them (realpath) - who created them is not analysed")

    d = ctx.repo.module(DATA)
    sr = d.func("StageReference")
    ctx.analysed(sr)
    cfg = CFG(sr)
    ctx.paths += cfg.paths_count()

    # ---------------- R1 -------------------------------------------------------------------------------
    extracts = match.nodes_calling(cfg, lambda c: last_attr(c) in ("extractall", "extract") and isinstance(c.func, ast.Attribute))
    ctx.floor("C18.R1-archive-members", len(extracts), 1, "archive extraction sites in StageReference")
    member_pred = lambda n: isinstance(n, ast.Attribute) and n.attr in ("name", "linkname", "path", "linkpath") and isinstance(n.value, ast.Name)
    for en in extracts:
        call = [c for c in own_calls(en.ast) if last_attr(c) in ("extractall", "extract")][0]
        flt = [k for k in call.keywords if k.arg == "filter"]
        if flt and isinstance(flt[0].value, ast.Constant) and flt[0].value.value in ("data", "tar"):
            ctx.ob("C18.R1-archive-members", call, True, "extraction uses the safe filter %r" % flt[0].value.value)
            continue
        loops = [n for n in cfg.nodes if n.kind == "for" and isinstance(n.ast.iter, ast.Call) and last_attr(n.ast.iter) == "getmembers"]
        loops += [n for n in cfg.nodes if n.kind == "for" and isinstance(n.ast.iter, ast.Name) and (n.ast.iter.id in ("tar", "archive_file") or any(
            isinstance(v, ast.Call) and last_attr(v) == "getmembers" for v in local_defs(sr, n.ast.iter.id)))]
        dom = [lp for lp in loops if cfg.every_path_to_passes(en, gates=[lp])]
        ok = bool(dom)
        ctx.ob("C18.R1-archive-members", call, ok, "every member is inspected before extraction" if ok else
               "the archive is extracted without inspecting its members (names like '../x' or absolute names escape the "
               "component directory)", construct=short(call, 60) + " <- member loop")
        if not dom:
            continue
        lp = dom[0].ast
        # what is extracted is what was vetted: the handle extractall() is called on is the very handle (same name, same reaching
        # definition) whose getmembers() produced the vetted list - not a second open of the archive path
        from vlib import flow
        recv = call.func.value
        vetted_calls = [c for n in cfg.nodes if n.ast is not None and n.kind in ("stmt", "for", "test") for c in own_calls(n.ast)
                        if last_attr(c) == "getmembers" and isinstance(c.func.value, ast.Name)]
        same = False
        why_h = "the vetted member list does not come from <handle>.getmembers()"
        if isinstance(recv, ast.Name) and vetted_calls:
            rd = flow.reaching_defs(cfg, recv.id, ignore_labels=("exc",))
            at_extract = rd.get(en.id, frozenset())
            for vc in vetted_calls:
                vn = [n for n in cfg.nodes if n.ast is not None and n.kind in ("stmt", "for", "test") and any(vc is x for x in own_calls(n.ast))]
                if vc.func.value.id == recv.id and vn and rd.get(vn[0].id, frozenset()) == at_extract and len(at_extract) == 1:
                    same = True
            why_h = "%s is (re)bound between the vetting and the extraction" % recv.id
        ctx.ob("C18.R1-archive-members", call, same,
               "the handle that is extracted is the handle whose members were vetted" if same else
               "what is extracted is not what was vetted (%s): the archive path is opened a second time, a producer that replaces the archive "
               "(write to a temporary file, rename) between the two opens gets unvetted members such as '../escaped.txt' written outside the "
               "working directory" % why_h, construct=short(call, 40) + " <- same handle as getmembers()")
        tests = live(cfg, [c for c in containment_tests(sr) if any(c.compare is x for x in ast.walk(lp))])
        name_tests = [c for c in tests if mentions_source(sr, c.call, lambda n: isinstance(n, ast.Attribute) and n.attr in ("name", "path") and isinstance(n.value, ast.Name) and n.value.id == getattr(lp.target, "id", None))]
        if not name_tests:
            ctx.ob("C18.R1-archive-members", lp, False, "no containment test on the member names inside the member loop",
                   construct="containment test on member.name")
        # EVERY member reaches the test of its name: extractall() writes whatever the archive holds - a FIFO, a device node, a member of
        # unknown type is created (the latter as a regular file with its payload) - so a `continue` for "special" members in front of the
        # test lets '../escaped' through (seed C18-14)
        if name_tests:
            lp_nodes = [n for n in cfg.nodes if n.kind == "for" and n.ast is lp]
            t_nodes = [n for n in cfg.nodes if n.kind == "test" and n.ast is not None and any(
                c.compare is x or n.ast is c.compare for c in name_tests for x in ast.walk(n.ast))]
            if lp_nodes and t_nodes:
                body_entry = [m_ for (m_, lab) in lp_nodes[0].succ if lab not in ("F", "exit", "else")]
                back = cfg.reach(body_entry, blocked=t_nodes, ignore_labels=("exc", "except", "raise", "uncaught"))
                skipped = lp_nodes[0].id in back
                ctx.ob("C18.R1-archive-members", lp, not skipped,
                       "every member of the archive reaches the containment test of its name" if not skipped else
                       "an iteration of the member loop can go on to the next member without testing this one's name (a `continue` ahead of the "
                       "containment test): the members it skips are still written by extractall() - a FIFO or a member of unknown type named "
                       "'../escaped.txt' is created outside the working directory and staging reports success",
                       construct="member loop: every member reaches the containment test")
        # the name that is vetted is the name extractall() will use: the member's name as stored.  A vetting that first strips a leading
        # '/' ("tar extracts /a/b as a/b") accepts '<dest>/abs/x' while tarfile (fully_trusted default) writes '/abs/x' (seed C18-15)
        lvar = lp.target.id if isinstance(lp.target, ast.Name) else None
        rewrites = [x for x in ast.walk(lp) if isinstance(x, ast.Call) and (
            (isinstance(x.func, ast.Attribute) and x.func.attr in ("lstrip", "strip", "replace", "removeprefix", "split", "partition", "lower", "upper")
             and isinstance(x.func.value, ast.Attribute) and x.func.value.attr in ("name", "path") and isinstance(x.func.value.value, ast.Name)
             and x.func.value.value.id == lvar)
            or ((call_name(x) or "").endswith(("path.basename", "path.relpath")) and x.args and isinstance(x.args[0], ast.Attribute)
                and x.args[0].attr in ("name", "path") and isinstance(x.args[0].value, ast.Name) and x.args[0].value.id == lvar))]
        if name_tests:
            ctx.ob("C18.R1-archive-members", rewrites[0] if rewrites else lp, not rewrites,
                   "the member names are vetted as they are stored in the archive" if not rewrites else
                   "the member loop vets a REWRITTEN name (%s) while extractall() writes the member under the name stored in the archive: a member "
                   "named '/abs/x' is vetted as '<dest>/abs/x', accepted, and written at /abs/x outside the working directory" % short(rewrites[0], 50),
                   construct="member loop: the stored name is what is vetted")
        for c in name_tests:
            ok, why = containment_quality(sr, c, lambda n: isinstance(n, ast.Attribute) and n.attr in ("name", "path") and isinstance(n.value, ast.Name))
            ctx.ob("C18.R1-archive-members", c.compare, ok,
                   "member names: " + why if ok else
                   "member names: %s - an archive member such as '../escaped.txt' is written outside the working directory" % why)
        # link members
        link_checks = [n for n in ast.walk(lp) if isinstance(n, ast.Call) and last_attr(n) in ("issym", "islnk") and live_node(cfg, n)]
        link_tests = [c for c in tests if mentions_source(sr, c.call, lambda n: isinstance(n, ast.Attribute) and n.attr in ("linkname", "linkpath"))]
        reject_links = False
        for lc in link_checks:
            for a in source.ancestors(lc):
                if isinstance(a, ast.If) and any(lc is x for x in ast.walk(a.test)):
                    if any(isinstance(x, ast.Raise) for s in a.body for x in ast.walk(s)) and not link_tests:
                        reject_links = True
        ok = reject_links
        why = "link members are rejected"
        if link_tests:
            res = [containment_quality(sr, c, lambda n: isinstance(n, ast.Attribute) and n.attr in ("linkname", "linkpath")) for c in link_tests]
            ok = all(r[0] for r in res)
            why = "link targets: " + "; ".join(r[1] for r in res)
        ctx.ob("C18.R1-archive-members", lp, ok,
               why if ok else
               ("symlink/hardlink members are not examined: a link member pointing outside the working directory (followed "
                "by a member written through it) escapes the component directory" if not link_tests and not link_checks else why),
               construct="link members (issym/islnk) checked")

    # ---------------- R5 -------------------------------------------------------------------------------
    for en in extracts:
        call = [c for c in own_calls(en.ast) if last_attr(c) in ("extractall", "extract")][0]
        flt = [k for k in call.keywords if k.arg == "filter"]
        if flt and ((isinstance(flt[0].value, ast.Constant) and flt[0].value.value in ("data", "tar"))
                    or (dotted(flt[0].value) or "").split(".")[-1] in ("data_filter", "tar_filter")):
            ctx.ob("C18.R5-archive-own-links", call, True, "extraction re-checks every member at extraction time (safe filter)")
            continue
        loops = [n for n in source.walk_own(sr) if isinstance(n, ast.For) and (
            (isinstance(n.iter, ast.Call) and last_attr(n.iter) == "getmembers") or
            (isinstance(n.iter, ast.Name) and any(isinstance(v, ast.Call) and last_attr(v) == "getmembers" for v in local_defs(sr, n.iter.id))) or
            (isinstance(n.iter, ast.Name) and n.iter.id in ("tar", "archive_file")))
            and any(isinstance(x, ast.Raise) for x in ast.walk(n))]
        # (B) extraction member by member inside the checking loop
        if any(any(call is x for x in ast.walk(lp)) for lp in loops):
            ctx.ob("C18.R5-archive-own-links", call, True, "each member is extracted right after it was checked, so earlier links are on disk")
            continue
        # (C) the names of the archive's symbolic links are collected and consulted
        link_sets = [nm for nm in match.locals_where(sr, lambda v: isinstance(v, (ast.Call, ast.SetComp, ast.ListComp)) and any(
            isinstance(g, ast.comprehension) and any(isinstance(c, ast.Call) and last_attr(c) == "issym" for t in g.ifs for c in ast.walk(t))
            for g in ast.walk(v)))]
        helpers = {f.name for f in source.walk_own(sr) if isinstance(f, ast.FunctionDef) and set(source.names_in(f)) & set(link_sets)}

        def consults_links(test: ast.AST) -> bool:
            return any((isinstance(x, ast.Name) and x.id in link_sets) or
                       (isinstance(x, ast.Call) and isinstance(x.func, ast.Name) and x.func.id in helpers) for x in ast.walk(test))
        name_ok = link_ok = False
        link_tests_seen: List[ast.AST] = []
        for lp in loops:
            mvar = lp.target.id if isinstance(lp.target, ast.Name) else None
            for iff in [x for x in ast.walk(lp) if isinstance(x, ast.If) and any(live_node(cfg, a) for a in ast.walk(x.test) if isinstance(a, (ast.Call, ast.Compare, ast.Name)))]:
                if not consults_links(iff.test) or not any(isinstance(x, ast.Raise) for st_ in iff.body for x in ast.walk(st_)):
                    continue
                about_link = mentions_source(sr, iff.test, lambda n_: isinstance(n_, ast.Attribute) and n_.attr in ("linkname", "linkpath"))
                if about_link:
                    link_ok = True
                    link_tests_seen.append(iff.test)
                elif mentions_source(sr, iff.test, lambda n_: isinstance(n_, ast.Attribute) and n_.attr in ("name", "path")
                                     and isinstance(n_.value, ast.Name) and n_.value.id == mvar):
                    name_ok = True
        ok = bool(link_sets) and name_ok and link_ok
        ctx.ob("C18.R5-archive-own-links", call, ok,
               "member names and link targets that pass through a symbolic link of the archive are rejected before extraction" if ok else
               "all members are validated with realpath() before anything is extracted, and %s: the archive's own links are not on "
               "disk yet, so members 'b -> .' and 'b/b/../../x' (or 'b -> .', 'a -> b/b/b/../../..', 'a/x') pass the check and are "
               "written above the working directory" % (
                   "the archive's symbolic-link members are not collected" if not link_sets else
                   "member names are not tested against the archive's own links" if not name_ok else
                   "link targets are not tested against the archive's own links"),
               construct=short(call, 40) + " <- archive's own links")
        if ok:
            # the names collected in the link set are NORMALISED like the paths that are looked up in it (relpath(realpath(..)) / normpath(..)): a link
            # member spelled './b' (what 'tar -cf a.tar .' produces), './/b' or 'a/../b' must be found under 'b'
            for nm in link_sets:
                for v in local_defs(sr, nm):
                    elts = [v.elt] if isinstance(v, (ast.SetComp, ast.ListComp, ast.GeneratorExp)) else [
                        g_.elt for g_ in ast.walk(v) if isinstance(g_, (ast.SetComp, ast.ListComp, ast.GeneratorExp))]
                    for e_ in elts:
                        normalised = isinstance(e_, ast.Call) and call_name(e_) in ("os.path.normpath", "os.path.relpath", "os.path.realpath", "os.path.abspath")
                        ctx.ob("C18.R5-archive-own-links", e_, normalised,
                               "the names of the archive's links are collected in normalised form" if normalised else
                               "the set of the archive's own links stores the names as spelled in the archive (%s) while the look-ups use normalised paths: a "
                               "link member './b -> .' is never found under 'b', so 'b/b/../../x' passes (b is not on disk while the members are vetted) "
                               "and is written two levels above the working directory" % short(e_, 30),
                               construct="archive link names are normalised")
            # a link target may be ABSOLUTE and spell the destination itself ('<dest>/b/../victim' with 'b -> .' in the archive): a test that
            # compares lexical relative prefixes with the (relative) names of the archive's links never matches it.  The path that is looked up
            # among the archive's links is therefore expressed relative to the destination (it depends on the extraction root), or absolute
            # link targets are refused outright
            dest_names = {x.id for a_ in call.args[:1] for x in ast.walk(a_) if isinstance(x, ast.Name)}

            def is_dest(n_: ast.AST) -> bool:
                return isinstance(n_, ast.Name) and n_.id in dest_names

            def anchored(e_: ast.AST, fn_: ast.AST) -> bool:
                return mentions_source(fn_, e_, lambda n_: is_dest(n_) or (isinstance(n_, ast.Name) and any(
                    mentions_source(sr, d_, is_dest) for d_ in local_defs(sr, n_.id))))
            helper_defs = {f.name: f for f in source.walk_own(sr) if isinstance(f, ast.FunctionDef) and f.name in helpers}
            abs_refused = any(isinstance(x, ast.If) and any(isinstance(r_, ast.Raise) for st_ in x.body for r_ in ast.walk(st_)) and any(
                isinstance(c, ast.Call) and call_name(c) == "os.path.isabs" and mentions_source(sr, c, lambda n_: isinstance(n_, ast.Attribute) and n_.attr in ("linkname", "linkpath"))
                for c in ast.walk(x.test)) for lp in loops for x in ast.walk(lp))
            for t_ in link_tests_seen:
                good = abs_refused or anchored(t_, sr)
                if not good:
                    for c in [x for x in ast.walk(t_) if isinstance(x, ast.Call) and isinstance(x.func, ast.Name) and x.func.id in helper_defs]:
                        hf = helper_defs[c.func.id]
                        cmps = [x for x in ast.walk(hf) if isinstance(x, ast.Compare) and any(isinstance(o, (ast.In, ast.NotIn)) for o in x.ops)
                                and any(isinstance(y, ast.Name) and y.id in link_sets for cmp_ in x.comparators for y in ast.walk(cmp_))]
                        if cmps and all(anchored(x.left, hf) for x in cmps):
                            good = True
                ctx.ob("C18.R5-archive-own-links", t_, good,
                       "the path looked up among the archive's own links is expressed relative to the destination (an absolute link target that spells "
                       "the destination is covered)" if good else
                       "link targets are compared with the archive's own links as lexical RELATIVE prefixes only: an absolute target that spells the "
                       "destination - 'b -> .', 'e -> <workdir>/b/../victim.txt', then a regular member 'e' - never matches, realpath() collapses 'b/..' "
                       "(b is not on disk yet) and the member is written through the link into the parent of the working directory",
                       construct="link targets looked up among the archive's links relative to the destination")

    # ---------------- R7: what the linkname is joined to ---------------------------------------------
    def kind_of_test(t: ast.AST) -> Optional[str]:
        return "sym" if isinstance(t, ast.Call) and last_attr(t) == "issym" else "lnk" if isinstance(t, ast.Call) and last_attr(t) == "islnk" else None

    def strip_realpath(e: ast.AST) -> ast.AST:
        while isinstance(e, ast.Call) and call_name(e) in ("os.path.realpath", "os.path.abspath", "os.path.normpath") and e.args:
            e = e.args[0]
        return e

    def is_member_dir(e: ast.AST) -> bool:
        e = strip_realpath(e)
        return isinstance(e, ast.Call) and call_name(e) == "os.path.dirname"

    def resolves_member_itself(e: ast.AST, depth: int = 0) -> bool:
        """dirname(<X>) where X is (derived from) realpath(<full member path>): the member's own last component is followed when an
        entry of that name already exists and is a link - tarfile replaces that entry, it does not create the link where it points"""
        e = strip_realpath(e)
        if not (isinstance(e, ast.Call) and call_name(e) == "os.path.dirname" and e.args):
            return False

        member_vars = {lp_.target.id for lp_ in source.walk_own(sr) if isinstance(lp_, ast.For) and isinstance(lp_.target, ast.Name) and any(
            isinstance(x, ast.Call) and last_attr(x) in ("issym", "islnk") and isinstance(x.func.value, ast.Name) and x.func.value.id == lp_.target.id
            for x in ast.walk(lp_))}

        def mentions_member(x: ast.AST, d: int = 0) -> bool:
            for y in ast.walk(x):
                if isinstance(y, ast.Name):
                    if y.id in member_vars:
                        return True
                    if d < 4 and any(mentions_member(v, d + 1) for v in local_defs(sr, y.id) if not (isinstance(v, ast.Name) and v.id == y.id)):
                        return True
            return False

        def has_realpath(x: ast.AST, d: int) -> bool:
            # a realpath() applied to something that depends on the member (its full path), reached directly or through locals
            for c in ast.walk(x):
                if isinstance(c, ast.Call) and call_name(c) == "os.path.realpath" and c.args and mentions_member(c.args[0]):
                    return True
            if d < 4:
                for nm in [y for y in ast.walk(x) if isinstance(y, ast.Name)]:
                    if any(has_realpath(v, d + 1) for v in local_defs(sr, nm.id) if not (isinstance(v, ast.Name) and v.id == nm.id)):
                        return True
            return False
        return has_realpath(e.args[0], 0)

    def base_for(e: ast.AST, kind: str, depth: int = 0) -> Optional[str]:
        """'dir' (the member's directory) / 'root' (anything else: the extraction root) that e denotes for a link of this kind"""
        if isinstance(e, ast.IfExp):
            k = kind_of_test(e.test)
            if k is not None:
                return base_for(e.body if k == kind else e.orelse, kind, depth + 1)
            return None
        e = strip_realpath(e)
        if isinstance(e, ast.Name) and depth < 4:
            vals = local_defs(sr, e.id)
            got = {base_for(v, kind, depth + 1) for v in vals}
            return got.pop() if len(got) == 1 else None
        return "dir" if is_member_dir(e) else "root"
    joins = [c for c in source.calls_in(sr, include_nested=False) if call_name(c) == "os.path.join" and len(c.args) == 2
             and isinstance(c.args[1], ast.Attribute) and c.args[1].attr == "linkname"
             and any(isinstance(p_, ast.Call) and call_name(p_) == "os.path.realpath" for p_ in source.ancestors(c))]
    ctx.floor("C18.R7-link-roots-mirror-tarfile", len(joins), 1, "containment tests of link targets in StageReference (join(<base>, <member>.linkname))")
    for jn in joins:
        # which kinds of link reach this statement: the tests of the enclosing ifs
        kinds: Set[str] = set()
        for anc in source.ancestors(jn):
            if isinstance(anc, ast.If):
                for x in ast.walk(anc.test):
                    k = kind_of_test(x)
                    if k:
                        kinds.add(k)
        kinds = kinds or {"sym", "lnk"}
        for k in sorted(kinds):
            want = "dir" if k == "sym" else "root"
            got = base_for(jn.args[0], k)
            ok = got == want
            if ok and k == "sym":
                # which expression is the base for a symbolic link
                def sym_expr(e: ast.AST, depth: int = 0) -> ast.AST:
                    if isinstance(e, ast.IfExp) and kind_of_test(e.test) is not None:
                        return sym_expr(e.body if kind_of_test(e.test) == "sym" else e.orelse, depth + 1)
                    inner = strip_realpath(e)
                    if isinstance(inner, ast.Name) and depth < 4:
                        vals = local_defs(sr, inner.id)
                        if len(vals) == 1:
                            return sym_expr(vals[0], depth + 1)
                    return e
                follows = resolves_member_itself(sym_expr(jn.args[0]))
                ctx.ob("C18.R7-link-roots-mirror-tarfile", jn, not follows,
                       "the member's directory is taken from the member's path as written (only its parent directories are resolved)" if not follows else
                       "the directory of a symbolic-link member is taken from the fully RESOLVED path of the member: when an entry of that name "
                       "already exists and is a link to somewhere deeper (l -> sub/deep/x from an earlier archive), 'l -> ../../victim.txt' is "
                       "vetted against <workdir>/sub/deep while tarfile replaces l in <workdir> - the new link points outside, and a regular "
                       "member 'l' of the same archive is written through it",
                       construct="join(<base>, linkname) <- base is the directory the member is created in")
            ctx.ob("C18.R7-link-roots-mirror-tarfile", jn, ok,
                   "the target of a %s is resolved against %s, as tarfile does" % ("symbolic link" if k == "sym" else "hard link",
                                                                                  "the member's directory" if want == "dir" else "the extraction root") if ok else
                   "the containment test resolves the target of a %s against %s, tarfile resolves it against %s: a member 'd/h' with linkname "
                   "'../victim.txt' passes the test as <workdir>/victim.txt while extraction links <workdir>/../victim.txt - a later regular "
                   "member of the same name is then written through the shared inode, outside the working directory" % (
                       "hard link" if k == "lnk" else "symbolic link", "the member's directory" if got == "dir" else "the extraction root" if got == "root" else "an undetermined base",
                       "the extraction root" if k == "lnk" else "the member's directory"),
                   construct="join(<base>, linkname) <- base for a %s" % ("hard link" if k == "lnk" else "symbolic link"))

    # ---------------- R2 -------------------------------------------------------------------------------
    sinks = match.nodes_calling(cfg, lambda c: call_name(c) in ("shutil.copytree", "shutil.copy", "shutil.copy2", "shutil.copyfile", "os.symlink", "os.link"))
    ctx.floor("C18.R2-basename-destinations", len(sinks), 3, "copy/link sinks in StageReference")

    visiting: Set[str] = set()

    def is_basename(x: ast.AST, dd: int = 0) -> bool:
        if isinstance(x, ast.Call) and call_name(x) == "os.path.basename":
            return True
        if isinstance(x, ast.Subscript) and isinstance(x.value, ast.Call) and call_name(x.value) == "os.path.split" \
                and isinstance(x.slice, ast.Constant) and x.slice.value == 1:
            return True
        if isinstance(x, ast.Name) and dd < 3:
            dfs = local_defs(sr, x.id)
            return bool(dfs) and all(is_basename(y, dd + 1) for y in dfs)
        return False

    def dest_ok(e: ast.AST) -> bool:
        """Co-inductive: a name is confined if every definition is the working directory or join(<confined>, <basename>)."""
        if source.src(e) == "location.path":
            return True
        if isinstance(e, ast.Name):
            if e.id in visiting:
                return True
            defs = local_defs(sr, e.id)
            if not defs:
                return False
            visiting.add(e.id)
            try:
                return all(dest_ok(x) for x in defs)
            finally:
                visiting.discard(e.id)
        if isinstance(e, ast.Call) and call_name(e) == "os.path.join" and len(e.args) == 2:
            return dest_ok(e.args[0]) and is_basename(e.args[1])
        return False
    for sn in sinks:
        call = [c for c in own_calls(sn.ast) if call_name(c) in ("shutil.copytree", "shutil.copy", "shutil.copy2", "shutil.copyfile", "os.symlink", "os.link")][0]
        if len(call.args) < 2:
            continue
        ok = dest_ok(call.args[1])
        ctx.ob("C18.R2-basename-destinations", call, ok,
               "the destination is the working directory or <working directory>/<basename of the source>" if ok else
               "the staging destination %s is not confined to <working directory>/<basename>: a crafted reference path can "
               "place data outside the component's working directory" % short(call.args[1], 60))

    # R2c: a folder copy creates its destination.  copytree() refuses an existing destination, so everything it writes is freshly created;
    # with dirs_exist_ok it MERGES into the tree that an earlier reference of the same base name populated - with symlinks=True that tree
    # holds the producer's links as they were, and the second copy writes regular files THROUGH them (shutil.copy2 follows a link at its
    # destination).  A test of the top-level entry cannot see links deeper in the tree.
    for sn in sinks:
        for call in [c for c in own_calls(sn.ast) if call_name(c) in ("shutil.copytree", "distutils.dir_util.copy_tree", "dir_util.copy_tree", "copy_tree")]:
            merge = [k for k in call.keywords if k.arg == "dirs_exist_ok" and not (isinstance(k.value, ast.Constant) and not k.value.value)]
            always = call_name(call).endswith("copy_tree")
            ok = not merge and not always
            ctx.ob("C18.R2-basename-destinations", call, ok,
                   "the folder copy creates its destination (it never merges into an existing tree)" if ok else
                   "the folder copy merges into an existing destination (%s): staging 'stage0.Foo:copy' and then 'stage1.Foo:copy' descends into the tree "
                   "the first copy filled with the producer's links (result.dat -> <stage0>/Bar/result.dat) and writes stage1's regular result.dat "
                   "through the link - a file outside the working directory is overwritten and staging reports success"
                   % (short(merge[0].value, 20) if merge else "copy_tree always merges"),
                   construct="%s creates its destination" % short(call, 40))

    # R2b: a content copy follows a link that already sits at its destination (an earlier ':link' reference with the same
    # file name): the file that will be written is tested not to be a link, and the copy is not reached when it is one
    WRITE_THROUGH = ("shutil.copy", "shutil.copy2", "shutil.copyfile")

    def staged_file_of(x: ast.AST, call: ast.Call, dd: int = 0) -> bool:
        """x is the path the copy writes: the destination itself when that is <dir>/<basename>, else join(<destination>, <basename>)"""
        dst = call.args[1]
        if source.src(x) == source.src(dst):
            # the destination argument is the written file only when it cannot be the bare working directory
            bare = source.src(dst) == "location.path" or (isinstance(dst, ast.Name) and any(source.src(v) == "location.path" for v in local_defs(sr, dst.id)))
            if call_name(call) == "shutil.copyfile" or not bare:
                return True
            return False
        if isinstance(x, ast.Name) and dd < 3:
            dfs = local_defs(sr, x.id)
            return bool(dfs) and all(staged_file_of(y, call, dd + 1) for y in dfs)
        if isinstance(x, ast.Call) and call_name(x) == "os.path.join" and len(x.args) == 2:
            return (source.src(x.args[0]) == source.src(dst) or dest_ok(x.args[0])) and is_basename(x.args[1])
        return False
    n2b = 0
    for sn in sinks:
        for call in [c for c in own_calls(sn.ast) if call_name(c) in WRITE_THROUGH and len(c.args) >= 2]:
            n2b += 1

            def link_label(t: ast.AST) -> Optional[str]:
                flip = False
                while isinstance(t, ast.UnaryOp) and isinstance(t.op, ast.Not):
                    t, flip = t.operand, not flip
                lab = match.polarity(t, lambda e: isinstance(e, ast.Call) and call_name(e) in ("os.path.islink", "os.path.lexists")
                                     and e.args and staged_file_of(e.args[0], call))
                if lab is None:
                    return None
                return match.other(lab) if flip else lab
            edges = match.test_nodes(cfg, link_label)
            # the copy may only be reached on the side where the staged path is NOT a link
            ok = bool(edges) and match.only_via_edges(cfg, sn, [(n, match.other(lab)) for (n, lab) in edges])
            ctx.ob("C18.R2-basename-destinations", call, ok,
                   "the file the copy writes is tested with islink() and the copy is only reached when it is not a link" if ok else
                   "%s follows a symbolic link that already sits at the destination: ':link' then ':copy' of two references with the same "
                   "file name writes the copied contents through the link into the producer's file, outside the working directory; no "
                   "islink()/lexists() test of the staged path guards the copy" % call_name(call),
                   construct="%s <- destination is not a link" % call_name(call))
    ctx.floor("C18.R2-basename-destinations", n2b, 1, "content copies in StageReference that follow destination links")

    # ---------------- R3 -------------------------------------------------------------------------------
    st = ctx.repo.module(STORAGE)
    ep = st.func("ExperimentPackage.expandPackageToDirectory")
    ctx.analysed(ep)
    c2 = CFG(ep)
    ctx.paths += c2.paths_count()
    # the deployment loop: the for loop over a mapping (a plain name) that creates the entries
    key_loops = [n for n in source.walk_own(ep) if isinstance(n, ast.For) and isinstance(n.iter, ast.Name) and isinstance(n.target, ast.Name)
                 and any(call_name(c) in ("shutil.copytree", "os.symlink") for c in source.calls_in(n))]
    ctx.require(bool(key_loops), "anchor missing: deployment loop over the manifest in expandPackageToDirectory")
    lp = key_loops[0]
    keyvar = lp.target.id if isinstance(lp.target, ast.Name) else None
    key_pred = lambda n: isinstance(n, ast.Name) and n.id == keyvar
    msinks = [c for c in source.calls_in(lp) if call_name(c) in ("shutil.copytree", "os.symlink", "shutil.copy", "os.makedirs")]
    tests = live(c2, [c for c in containment_tests(ep) if any(c.compare is x for x in ast.walk(lp)) and mentions_source(ep, c.call, key_pred)])
    fl = ctx.repo.module(FLOWIR)
    mv = fl.func("Manifest.validate")
    ctx.analysed(mv)
    vtests = [c for c in containment_tests(mv)]
    dotdot = [n for n in source.walk_own(mv) if isinstance(n, ast.Compare) and any(isinstance(x, ast.Constant) and x.value in ("..", "../") for x in ast.walk(n))
              and any(isinstance(c, ast.Call) and call_name(c) in NORMALISERS for c in ast.walk(n))]
    for c in msinks:
        tgt = c.args[1] if len(c.args) > 1 else (c.args[0] if c.args else None)
        if tgt is None or not mentions_source(ep, tgt, key_pred):
            continue
        good = [t for t in tests if containment_quality(ep, t, key_pred)[0]]
        cn = c2.nodes_of(source.stmt_of(c))
        dominated = False
        for t in good:
            ifn = [a for a in source.ancestors(t.compare) if isinstance(a, ast.If)][0]
            tn = [n for n in c2.nodes if n.kind == "test" and n.ast is not None and any(n.ast is x or t.compare is n.ast for x in [t.compare])]
            tn = [n for n in c2.nodes if n.kind == "test" and n.ast is t.compare]
            if tn and cn and all(c2.every_path_to_passes(x, gates=tn) for x in cn):
                dominated = True
        in_validate = any(containment_quality(mv, t, lambda n: isinstance(n, ast.Name) and n.id == "target")[0] for t in vtests) or bool(dotdot)
        # a test at validation time (Manifest.validate) cannot see the links that deployment itself creates for earlier
        # entries (seed C18-1), so only a test that dominates the write inside the creation loop counts
        ok = dominated
        elsewhere = [t for t in containment_tests(ep) if mentions_source(ep, t.call, lambda n: isinstance(n, ast.Name))
                     and not any(t.compare is x for x in ast.walk(lp))]
        why_bad = "; ".join(containment_quality(ep, t, key_pred)[1] for t in tests) or (
            "the only containment test of a manifest key is elsewhere (not on every path to this write, in the loop that "
            "creates the entries: links created by earlier entries are not seen)" if elsewhere else "only os.path.isabs is tested")
        ctx.ob("C18.R3-manifest-keys", c, ok,
               "the joined manifest target passes a normalising containment test%s" % (" (in Manifest.validate)" if in_validate and not dominated else "") if ok else
               "%s writes to os.path.join(targetPath, <manifest key>) and %s: a key such as '../x' creates entries outside the "
               "new instance directory" % (call_name(c), why_bad), construct=short(c, 80) + " <- containment of the manifest key")

    # ---------------- R6 -------------------------------------------------------------------------------
    WRITES = ("shutil.copyfile", "shutil.copy", "shutil.copy2", "shutil.move", "open")
    late = [n for n in c2.nodes if n.kind in ("stmt", "with") and n.ast is not None and not any(n.ast is x for x in ast.walk(lp))
            and any(call_name(c) in WRITES for c in own_calls(n.ast))]
    n6 = 0
    for wn in late:
        for c in [c for c in own_calls(wn.ast) if call_name(c) in WRITES]:
            dst = c.args[1] if call_name(c) != "open" and len(c.args) > 1 else (c.args[0] if c.args else None)
            if dst is None:
                continue
            if call_name(c) == "open" and not any(isinstance(a, ast.Constant) and isinstance(a.value, str) and any(ch in a.value for ch in "wax+")
                                                  for a in c.args[1:] + [k.value for k in c.keywords if k.arg == "mode"]):
                continue
            # the file that is written, and the directories it is joined from: X = os.path.join(<dir>, ...)
            file_names = [x.id for x in ast.walk(dst) if isinstance(x, ast.Name)] if not isinstance(dst, ast.Name) else [dst.id]
            dir_names: List[str] = []
            todo = list(file_names) + [x.id for x in ast.walk(dst) if isinstance(x, ast.Name)]
            seen_n: Set[str] = set()
            while todo:
                nm = todo.pop()
                if nm in seen_n:
                    continue
                seen_n.add(nm)
                for v in local_defs(ep, nm):
                    if isinstance(v, ast.Call) and call_name(v) == "os.path.join" and v.args and isinstance(v.args[0], ast.Name):
                        dir_names.append(v.args[0].id)
                        todo.append(v.args[0].id)
            under_instance = any(isinstance(v, ast.Call) and call_name(v) == "os.path.join" and v.args and "targetPath" in source.src(v.args[0])
                                 for nm in seen_n for v in local_defs(ep, nm))
            if not under_instance:
                continue
            n6 += 1
            fresh = [n for n in c2.nodes if n.kind == "stmt" and n.ast is not None and any(
                call_name(k) in ("os.makedirs", "os.mkdir") and k.args and isinstance(k.args[0], ast.Name) and k.args[0].id in dir_names
                and not any(kw.arg == "exist_ok" and not (isinstance(kw.value, ast.Constant) and kw.value.value is False) for kw in k.keywords)
                for k in own_calls(n.ast))]
            # a containment test of the FILE itself (a test of its directory does not see a link placed at the file's own path)
            fpred = lambda n_, names=tuple(file_names): isinstance(n_, ast.Name) and n_.id in names
            conts = [t for t in live(c2, containment_tests(ep)) if mentions_source(ep, t.call, fpred) and containment_quality(ep, t, fpred)[0]
                     and any(isinstance(x, ast.Name) and x.id in file_names for x in ast.walk(t.call))]
            tnodes = [n for n in c2.nodes if n.kind == "test" and any(n.ast is t.compare for t in conts)]
            ok = c2.every_path_to_passes(wn, gates=fresh + tnodes)
            what = short(dst, 40)
            ctx.ob("C18.R6-writes-after-the-manifest", c, ok,
                   "%s is written into a folder created by this deployment, or its own real path was tested to be beneath the instance directory" % what if ok else
                   "%s writes %s after the manifest was applied, on a path where neither its folder was created by this deployment nor the real "
                   "path of the file itself was tested to be beneath the instance directory: the manifest can make the folder ('conf: <dir>:link') "
                   "or the file itself ('conf/flowir_package.yaml: <file>:link') a link, and the write lands outside" % (call_name(c), what),
                   construct="%s -> %s <- created here or contained" % (call_name(c), what))
    ctx.floor("C18.R6-writes-after-the-manifest", n6, 1, "file writes after the manifest loop of expandPackageToDirectory")

    # ---------------- R4 -------------------------------------------------------------------------------
    # StageReference: raises in the extract branch are of a class caught by the converting handler
    tries = [n for n in source.walk_own(sr) if isinstance(n, ast.Try)]
    conv = None
    for t in tries:
        for h in t.handlers:
            if any(isinstance(x, ast.Raise) and x.exc is not None and "DataReferenceCouldNotStageError" in source.src(x.exc) for x in ast.walk(h)):
                conv = (t, h)
    ctx.require(conv is not None, "anchor missing: handler converting to DataReferenceCouldNotStageError in StageReference")
    caught = {(dotted(e) or "").split(".")[-1] for e in (conv[1].type.elts if isinstance(conv[1].type, ast.Tuple) else [conv[1].type])}
    raises = [x for s in conv[0].body for x in ast.walk(s) if isinstance(x, ast.Raise) and x.exc is not None]
    for r in raises:
        cls = (dotted(r.exc.func) if isinstance(r.exc, ast.Call) else dotted(r.exc)) or ""
        ok = cls.split(".")[-1] in caught or "Exception" in caught
        ctx.ob("C18.R4-error-type", r, ok, "rejection raises %s, converted to DataReferenceCouldNotStageError" % cls if ok else
               "rejection raises %s, which the staging handler (%s) does not convert: the caller sees another exception type" % (cls, sorted(caught)))
    for sn in extracts + sinks:
        ok = any(sn.ast is x for s in conv[0].body for x in ast.walk(s))
        ctx.ob("C18.R4-error-type", sn.ast, ok, "the sink runs inside the converting try block" if ok else
               "the sink runs outside the try block that converts errors to DataReferenceCouldNotStageError", trivial=ok)
    # deployment: rejections of manifest keys are PackageCreateError / manifest syntax errors / caught by the converting handler
    ptries = [n for n in source.walk_own(ep) if isinstance(n, ast.Try) and any(
        isinstance(x, ast.Call) and "PackageCreateError" in source.src(x) for h in n.handlers for x in ast.walk(h))]
    pc = set()
    for t in ptries:
        for h in t.handlers:
            pc |= {(dotted(e) or "").split(".")[-1] for e in (h.type.elts if isinstance(h.type, ast.Tuple) else [h.type])}
    for t in tests:
        if t.raise_ is None or t.raise_.exc is None:
            continue
        cls = (dotted(t.raise_.exc.func) if isinstance(t.raise_.exc, ast.Call) else dotted(t.raise_.exc)) or ""
        ok = cls.endswith("PackageCreateError") or cls.split(".")[-1] in pc or "FlowIRManifest" in cls
        ctx.ob("C18.R4-error-type", t.raise_, ok, "an escaping manifest key is rejected with a packaging error" if ok else
               "an escaping manifest key raises %s, which is neither a packaging error nor converted into one" % cls)
