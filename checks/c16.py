"""C16 - memoization hashes identify equivalent work and nothing else.  See DESIGN.md section C16."""
from __future__ import annotations

import ast
from typing import Dict, List, Optional, Set, Tuple

from vlib import boolx, dslice, flow, match, source, sub
from vlib.cfg import CFG, own_calls
from vlib.source import AnalysisError, call_name, dotted, last_attr, short

from checks.c10 import check_site

GRAPH = "python/experiment/model/graph.py"

DENY = [
    ("location", "a path inside the instance"), (".directory", "a working directory"), ("rootStorage", "the instance root"),
    ("instanceDirectory", "the instance directory"), ("getcwd", "the current directory"), ("instancePath", "the instance path"),
    ("identification", "the component's identity (stage/name)"), ("componentName", "the component name"),
    ("stageIndex", "the stage index"), (".reference", "the component reference"), (".name", "a name"),
    ("absoluteReference", "a reference spelling (contains producer names)"), ("relativeReference", "a reference spelling"),
    ("stringRepresentation", "a reference spelling"), ("producerIdentifier", "a producer name"),
    ("time", "the clock"), ("datetime", "the clock"), ("uuid", "a random id"), ("random", "randomness"),
    ("environ", "the launch environment"), ("getpid", "the process id"), ("hostname", "the host"),
]
ALLOW_EXACT = {"self.dataReferences", "self.producers", "self.commandDetails", "self.resourceManager", "self", "fuzzy", "custom_js"}


def denied(leaf: str) -> Optional[str]:
    if leaf in ALLOW_EXACT or leaf.startswith("<"):
        return None
    base = leaf[5:] if leaf.startswith("call:") else leaf
    for pat, what in DENY:
        if pat.startswith("."):
            if base.endswith(pat) or (pat + ".") in base:
                return what
        elif pat in base.split(".") or any(seg == pat for seg in base.replace("(", ".").split(".")):
            return what
    return None


def check_own_executable(ctx, fn: ast.AST) -> None:
    rule = "C16.R9-own-executable"
    cfg = CFG(fn)
    # the configuration whose 'executable' is hashed: <x>.get_component_configuration(...) assigned to a local that is read with
    # .get('command') / ['command']
    fetches = [n for n in cfg.nodes if n.kind == "stmt" and isinstance(n.ast, ast.Assign) and isinstance(n.ast.value, ast.Call)
               and last_attr(n.ast.value) in ("get_component_configuration", "configurationForNode")
               and len(n.ast.targets) == 1 and isinstance(n.ast.targets[0], ast.Name)]
    used = []
    for n in fetches:
        var = n.ast.targets[0].id
        if any(isinstance(x, ast.Constant) and x.value == "executable" for d in source.walk_own(fn) if isinstance(d, ast.Dict)
               for k, v in zip(d.keys, d.values) if isinstance(k, ast.Constant) and k.value == "executable" and var in source.names_in(v)
               for x in [k]):
            used.append(n)
    if not used:
        ctx.ob(rule, fn, False, "the hashed executable is not read from a configuration fetched with get_component_configuration(..): it "
               "cannot be shown to be the component's own, variable-substituted, pre-resolution executable",
               construct="executable <- get_component_configuration(own blueprint, raw=False)")
        return
    for n in used:
        call = n.ast.value
        kw = {k.arg: k.value for k in call.keywords}
        # (a) variables substituted
        raw = kw.get("raw")
        if last_attr(call) == "get_component_configuration":
            ok = raw is None or (isinstance(raw, ast.Constant) and raw.value is False)
        else:
            ok = isinstance(raw, ast.Constant) and raw.value is False
        ctx.ob(rule, call, ok, "the executable is read from the configuration with variables substituted (raw=False)" if ok else
               "the executable is read with raw=%s: '%%(tool)s' is hashed as written, so two components whose variable selects different "
               "programs get the same hash and the same program spelled through different variables (or literally) gets different ones"
               % (short(raw, 20) if raw is not None else "<default of configurationForNode>"), construct="get_component_configuration(raw=False) for the executable")
        # (b) the name under which the configuration is looked up
        ident = kw.get("comp_id") or (call.args[0] if call.args else None)
        name_expr = None
        here = n.id
        for _ in range(4):
            if isinstance(ident, ast.Tuple) and len(ident.elts) == 2:
                name_expr = ident.elts[1]
                break
            if isinstance(ident, ast.Name):
                rd = flow.reaching_defs(cfg, ident.id).get(here, frozenset())
                vals = [(d, flow.def_value(cfg, d, ident.id)) for d in rd if d >= 0]
                if len(vals) == 1 and vals[0][1] is not None:
                    here, ident = vals[0]
                    continue
            break
        ctx.require(name_expr is not None, "cannot find the (stage, name) identifier passed to get_component_configuration")

        def is_own_name(e: ast.AST) -> bool:
            return isinstance(e, ast.Attribute) and e.attr == "componentName"

        # membership tests of the own (stage, name) in the identifiers of the unreplicated description: label on which it is ABSENT
        def absent_label(t: ast.AST) -> Optional[str]:
            cp = match.compare_parts(t)
            if cp and isinstance(cp[1], (ast.In, ast.NotIn)) and any(isinstance(c, ast.Call) and last_attr(c) in (
                    "get_component_identifiers", "_get_real_component_identifiers") for c in ast.walk(match.resolve_local(fn, cp[2]))):
                return "T" if isinstance(cp[1], ast.NotIn) else "F"
            return None
        absent = match.test_nodes(cfg, absent_label)
        bad: List[str] = []
        n_defs = 0
        seen = set()
        work = [(here, name_expr)]
        while work:
            at, e = work.pop()
            if (at, id(e)) in seen:
                continue
            seen.add((at, id(e)))
            if is_own_name(e):
                continue
            if isinstance(e, ast.Name):
                rd = flow.reaching_defs(cfg, e.id).get(at, frozenset())
                for d in rd:
                    v = flow.def_value(cfg, d, e.id) if d >= 0 else None
                    if v is None:
                        bad.append("'%s' is not defined by a plain assignment" % e.id)
                        continue
                    n_defs += 1
                    if not is_own_name(v) and not isinstance(v, ast.Name):
                        # a shortening: allowed form <name>[:-len(<suffix>)] on the absent side of the membership test
                        sliced = isinstance(v, ast.Subscript) and isinstance(v.slice, ast.Slice) and v.slice.lower is None \
                            and isinstance(v.slice.upper, ast.UnaryOp) and isinstance(v.slice.upper.op, ast.USub) \
                            and isinstance(v.slice.upper.operand, ast.Call) and call_name(v.slice.upper.operand) == "len"
                        guarded = bool(absent) and match.only_via_edges(cfg, cfg.nodes[d], absent)
                        if not sliced:
                            bad.append("%s derives the blueprint name from the spelling of the component's name" % short(v, 60))
                            continue
                        if not guarded:
                            bad.append("%s shortens the name although the component may exist under its own name" % short(v, 60))
                            continue
                        work.append((d, v.value))
                        continue
                    work.append((d, v))
                continue
            bad.append("%s is not the component's own name" % short(e, 60))
        ok = not bad
        ctx.ob(rule, call, ok,
               "the configuration is looked up under the component's own name, shortened only by its replica suffix when the name is "
               "not itself a component of the unreplicated description" if ok else
               "the component whose executable is hashed is chosen by the spelling of the name (%s): a component called 'run2' is hashed "
               "with the executable of 'run', and 'step7' without a component 'step' gets no hash at all - the hash depends on component "
               "names" % "; ".join(bad), construct="blueprint of the hashed executable <- own name / replica suffix by existence")


def run(ctx) -> None:
    ctx.explanation = (
        "Non-interference by a backward data slice (field-sensitive on constant dictionary keys, local functions inlined, "
        "content-hash calls as sanitizers, lookup arguments as selectors) of the dictionary returned by "
        "ComponentSpecification._compute_memoization_info on the non-custom path: no leaf may be an instance path, a "
        "component/stage name, the clock or randomness; required leaves (executable from the unreplicated configuration, "
        "arguments, file hash + method, producer hashes, container image) must be present. Plus: no hash while an input is "
        "missing (CFG under fuzzy=False), the fuzzy rule as a truth table, anchored longest-first substitution, sorted "
        "hash traversal, and cache/reset discipline. The 'exactly when' equivalence over all pairs of definitions is not decided.")
    ctx.rule("C16.R1-non-interference", "the hashed information does not depend on instance location, component/stage names, time or randomness")
    ctx.rule("C16.R2-required-ingredients", "executable (unreplicated configuration), substituted arguments, file hash and method, producer hashes and container image are in the hashed information")
    ctx.rule("C16.R3-no-hash-when-missing", "with fuzzy=False a missing input, a failing location() or any exception yields None")
    ctx.rule("C16.R4-fuzzy-ignores-produced-content", "in fuzzy mode the content of files produced by components is not hashed; the entry is 'fuzzy#<producer fuzzy hash>#<file>'")
    ctx.rule("C16.R5-anchored-substitution", "reference->hash substitution in the arguments is escaped, anchored and longest-first")
    ctx.rule("C16.R6-order-insensitive-hash", "_memoization_info_to_hash traverses dictionaries and lists through sorted()")
    ctx.rule("C16.R7-cache-discipline", "memoization_reset clears all four cached fields; None results are not cached")
    ctx.rule("C16.R8-stateless-computation", "_compute_memoization_info, its helpers and _memoization_info_to_hash keep no state on the "
                                             "component between computations (a failed attempt is retried later; anything remembered from "
                                             "it - e.g. file digests - would make the hash depend on history, not on the current contents)")
    ctx.rule("C16.R10-both-spellings-replaced", "in the substitution loop of _compute_memoization_info the test for the relative spelling of a "
             "reference is not skipped when the absolute spelling occurs as well (no if/elif between the two): a reference the "
             "arguments spell both ways is replaced by its content hash in both places, otherwise the producer's name stays in the hash")
    ctx.rule("C16.R17-relative-spelling-belongs-to-the-own-stage-producer", "in _compute_memoization_info the reference whose hash replaces a relative "
             "spelling found in the arguments is chosen with the component's own stage in view (own stage first, then the lowest stage - "
             "resolveArguments' rule): the code that fills the owner table reads identification.stageIndex")
    ctx.rule("C16.R11-serialisation-is-injective", "_memoization_info_to_hash separates the keys and values it concatenates (a delimiter, a length "
             "prefix, or a structured dump): without one, different (executable, arguments) pairs serialise to the same text")
    ctx.rule("C16.R12-no-hash-stays-no-hash", "the public hash properties post-process a computed hash (prefix, join, format) only when it is not None")
    ctx.rule("C16.R15-every-producer-is-hashed", "the producer -> hash table of _compute_memoization_info receives an entry for every producer of the "
             "component: the filling loop has no continue/break and its store is guarded only by the 'already present' membership test and the "
             "strong/fuzzy switch")
    ctx.rule("C16.R14-file-part-of-a-producer-reference-is-hashed", "when a reference is replaced by its PRODUCER's hash (the file is not hashed by "
             "content: a directory, fuzzy mode) the replacement still carries the file part of the reference (fileRef): 'ls prod/a:ref' and "
             "'ls prod/b:ref' are different command lines (fails on the current tree: known finding)")
    ctx.rule("C16.R13-one-entry-per-consumed-file", "the 'files' ingredient of the hashed information has one entry per consumed file: it is built as a "
             "list over the consumed files and never passes through a set (or dict keys): two distinct files with identical contents, consumed "
             "through the same method, are two entries - a component that consumes one of them is different work")
    ctx.rule("C16.R16-image-is-hashed-whole", "the container image that postprocess_backend puts into the hashed information is the configured image as a "
             "whole: no proper PART of it (an element of split/partition, a slice, a regular-expression group), directly or through a local helper - "
             "two different images must not be reduced to the same text")
    ctx.rule("C16.R9-own-executable", "the executable that is hashed is the component's own, after variable substitution: the configuration "
             "is fetched with raw=False, for the component's own name - shortened only by the replica index of the component and only "
             "when that name is not itself a component of the unreplicated description (never by stripping characters off the name)")
    ctx.assume("the slice is flow-insensitive: a name reused for two purposes merges their sources (over-approximation)")
    ctx.assume("arguments of method calls are treated as selectors (which object/entry), not as data")

    g = ctx.repo.module(GRAPH)
    fn = g.func("ComponentSpecification._compute_memoization_info")
    ctx.analysed(fn)
    sl = dslice.Slicer(fn, {"md5_of_file"})
    # role: the returned dictionary = the local bound to a literal with the keys files / command / backend
    RET = match.role(fn, lambda v: isinstance(v, ast.Dict) and {"files", "command"} <= {k.value for k in v.keys if isinstance(k, ast.Constant)}, "ret")
    rets = [n for n in source.walk_own(fn) if isinstance(n, ast.Assign) and any(isinstance(t, ast.Name) and t.id == RET for t in n.targets)
            and isinstance(n.value, ast.Dict)]
    ctx.require(len(rets) == 1, "anchor missing: the 'ret = {...}' literal of _compute_memoization_info")
    retd = rets[0].value
    final_ret = [r for r in source.walk_own(fn) if isinstance(r, ast.Return) and isinstance(r.value, ast.Name) and r.value.id == RET]
    ctx.require(bool(final_ret), "anchor missing: 'return ret' in _compute_memoization_info")
    parts: Dict[str, Set[str]] = {}
    for k, v in zip(retd.keys, retd.values):
        name = k.value if isinstance(k, ast.Constant) else source.src(k)
        parts[name] = sl.leaves(v)
    ctx.extra["slice_leaves"] = {k: sorted(v) for k, v in parts.items()}
    ctx.extra["slice_visits"] = sl.visits
    # other stores into ret on the non-custom path (ret['x'] = ...)
    for fpath, v in sl.field_defs.get(RET, []):
        parts.setdefault("ret[%s]" % (fpath[0] if fpath else "?"), set()).update(sl.leaves(v))

    # ---------------- R1 -------------------------------------------------------------------------------
    n_leaves = 0
    for part, leaves in sorted(parts.items()):
        for leaf in sorted(leaves):
            n_leaves += 1
            why = denied(leaf)
            ctx.ob("C16.R1-non-interference", rets[0], why is None,
                   "'%s' depends on %s (hash-relevant or selector-free source)" % (part, leaf) if why is None else
                   "the hashed information '%s' depends on %s, i.e. on %s: two components doing the same work get different "
                   "hashes (or the hash changes when the instance moves / is re-run)" % (part, leaf, why),
                   construct="ret[%s] <- %s" % (part, leaf))
    ctx.floor("C16.R1-non-interference", n_leaves, 10, "slice leaves of the returned dictionary")
    # ---------------- R2 -------------------------------------------------------------------------------
    allleaves = set().union(*parts.values()) if parts else set()
    required = [
        ("command", lambda L: any("_unreplicated" in x for x in L), "the executable comes from the unreplicated (pre-resolution) configuration"),
        ("command", lambda L: "self.commandDetails" in L, "the component's arguments"),
        ("files", lambda L: "<md5_of_file>(...)" in L, "the content hash of referenced files"),
        ("files", lambda L: "d.method" in L or any(x.endswith(".method") for x in L), "the reference method of each file"),
        ("command", lambda L: any(x.endswith("memoization_hash") for x in L), "the producers' strong hashes (substituted into the arguments)"),
        ("files", lambda L: any(x.endswith("memoization_hash_fuzzy") for x in L), "the producers' fuzzy hashes"),
        ("backend", lambda L: "self.resourceManager" in L, "the resource manager (container image)"),
    ]
    for part, pred, what in required:
        ok = part in parts and pred(parts[part])
        ctx.ob("C16.R2-required-ingredients", rets[0], ok, "hashed information contains %s" % what if ok else
               "hashed information no longer contains %s: components that differ in it get the same hash" % what,
               construct="ret[%s] contains %s" % (part, what))
    keys = {k.value for k in retd.keys if isinstance(k, ast.Constant)}
    ok = {"files", "command", "backend"} <= keys
    ctx.ob("C16.R2-required-ingredients", rets[0], ok, "ret has files/command/backend" if ok else "ret lost one of files/command/backend: %s" % sorted(keys),
           construct="ret keys %s" % sorted(keys))
    cmd_names = [v.id for k, v in zip(retd.keys, retd.values) if isinstance(k, ast.Constant) and k.value == "command" and isinstance(v, ast.Name)]
    cmd = match.assigned_value(fn, cmd_names[0]) if cmd_names else [v for k, v in zip(retd.keys, retd.values) if isinstance(k, ast.Constant) and k.value == "command"]
    ok = any(isinstance(v, ast.Dict) and {k.value for k in v.keys if isinstance(k, ast.Constant)} == {"executable", "arguments"} for v in cmd)
    ctx.ob("C16.R2-required-ingredients", cmd[0] if cmd else fn, ok, "command = {executable, arguments}" if ok else "info_commandline is no longer {executable, arguments}")
    pb = g.functions.get("ComponentSpecification._compute_memoization_info.postprocess_backend")
    ctx.require(pb is not None, "anchor missing: postprocess_backend")
    c0 = CFG(pb)
    psl = dslice.Slicer(pb, set())
    img = [n for n in c0.nodes if n.kind == "stmt" and isinstance(n.ast, ast.Return) and isinstance(n.ast.value, ast.Dict) and n.ast.value.keys]
    def backend_test(name: str):
        def pred(t: ast.AST) -> Optional[str]:
            cp = match.compare_parts(t)
            if not cp:
                return None
            if isinstance(cp[1], ast.Eq) and isinstance(cp[2], ast.Constant) and cp[2].value == name:
                return "T"
            if isinstance(cp[1], ast.In) and isinstance(cp[2], (ast.Tuple, ast.List, ast.Set)) and any(
                    isinstance(e, ast.Constant) and e.value == name for e in cp[2].elts):
                return "T"
            return None
        return pred
    kube = match.test_nodes(c0, backend_test("kubernetes"))
    lsf = match.test_nodes(c0, backend_test("lsf"))
    # table agreement: every backend whose default options have an 'image' (the container a task runs in) is covered
    fl16 = ctx.repo.module("python/experiment/model/frontends/flowir.py")
    dcs = fl16.functions.get("FlowIR.default_component_structure")
    image_backends = []
    if dcs is not None:
        for dct in ast.walk(dcs):
            if isinstance(dct, ast.Dict):
                for k, v in zip(dct.keys, dct.values):
                    if isinstance(k, ast.Constant) and isinstance(v, ast.Dict) and any(
                            isinstance(k2, ast.Constant) and k2.value == "image" for k2 in v.keys):
                        image_backends.append(k.value)
    ctx.floor("C16.R2-required-ingredients", len(image_backends), 2, "backends with an 'image' option in the default component structure")
    for b in sorted(set(image_backends)):
        bt = match.test_nodes(c0, backend_test(b))
        okb = bool(bt) and any(match.only_via_edges(c0, n, bt) and any(l.endswith("[image]") for l in psl.leaves(n.ast.value)) for n in img)
        ctx.ob("C16.R2-required-ingredients", pb, okb, "%s components hash their image" % b if okb else
               "the backend '%s' has an image option but postprocess_backend does not put it into the hashed information: two components that run "
               "the same command in different images get the same strong hash" % b, construct="%s -> image" % b)
    # R16: .. and as a whole.  'registry.local:5000/acme/solver:latest'.split(':')[0] is 'registry.local' - so is the mesher's image
    PART_METHODS = {"split", "rsplit", "partition", "rpartition", "splitlines", "group", "groups", "groupdict", "findall",
                    "removeprefix", "removesuffix", "replace", "lower", "upper", "casefold", "sub"}

    def takes_a_part(e: ast.AST, helpers_: Dict[str, ast.AST], depth: int = 0) -> Optional[ast.AST]:
        for x in ast.walk(e):
            if isinstance(x, ast.Subscript) and isinstance(x.slice, ast.Slice):
                return x
            if isinstance(x, ast.Call) and isinstance(x.func, ast.Attribute) and x.func.attr in PART_METHODS:
                return x
            if isinstance(x, ast.Call) and isinstance(x.func, ast.Name) and x.func.id in helpers_ and depth < 2:
                for r_ in [r for r in ast.walk(helpers_[x.func.id]) if isinstance(r, ast.Return) and r.value is not None]:
                    got = takes_a_part(r_.value, helpers_, depth + 1)
                    if got is not None:
                        return got
        return None
    local_helpers = {f_.name: f_ for f_ in ast.walk(pb) if isinstance(f_, ast.FunctionDef) and f_ is not pb}
    local_helpers.update({f_.name: f_ for f_ in ast.walk(fn) if isinstance(f_, ast.FunctionDef) and f_ is not pb and f_ is not fn})
    for n in img:
        for k_, v_ in zip(n.ast.value.keys, n.ast.value.values):
            if isinstance(k_, ast.Constant) and k_.value == "image":
                part = takes_a_part(v_, local_helpers)
                ctx.ob("C16.R16-image-is-hashed-whole", v_, part is None,
                       "the image is hashed as configured (%s)" % short(v_, 50) if part is None else
                       "the image that enters the hashed information is a PART of the configured image (%s): 'registry.local:5000/acme/solver:latest' and "
                       "'registry.local:5000/acme/mesher:latest' are both reduced to 'registry.local', so two components that differ only in their "
                       "container image get the same strong and fuzzy hash" % short(part, 50),
                       construct="postprocess_backend: the image is hashed whole")
    ok = bool(kube) and any(match.only_via_edges(c0, n, kube) and any(l.endswith("[image]") for l in psl.leaves(n.ast.value)) for n in img)
    ctx.ob("C16.R2-required-ingredients", pb, ok, "kubernetes components hash their image" if ok else "the kubernetes image is no longer part of the hash", construct="kubernetes -> image")
    ok = bool(lsf) and any(match.only_via_edges(c0, n, lsf) and any(l.endswith("[dockerImage]") for l in psl.leaves(n.ast.value)) for n in img)
    ctx.ob("C16.R2-required-ingredients", pb, ok, "lsf components with a docker image hash it" if ok else "the lsf dockerImage is no longer part of the hash", construct="lsf+dockerImage -> image")

    # ---------------- R3 -------------------------------------------------------------------------------
    cfg = CFG(fn)
    ctx.paths += cfg.paths_count()
    blocked = flow.specialise(cfg, {"fuzzy": False})
    none_rets = [n for n in cfg.nodes if n.kind == "stmt" and isinstance(n.ast, ast.Return)
                 and (n.ast.value is None or (isinstance(n.ast.value, ast.Constant) and n.ast.value.value is None))]
    ex_tests = match.test_nodes(cfg, lambda t: match.polarity(t, lambda e: isinstance(e, ast.Call) and call_name(e) == "os.path.exists"))
    ctx.require(bool(ex_tests) and bool(none_rets), "anchor missing: os.path.exists test / 'return None' in _compute_memoization_info")
    for (tn, lab) in ex_tests:
        succ = [m for (m, l2) in tn.succ if l2 == match.other(lab)]
        r = cfg.reach(succ, blocked=none_rets, blocked_edges=blocked, ignore_labels=("exc",))
        ok = cfg.exit.id not in r and not any(n.id in r for n in cfg.nodes if n.kind == "stmt" and isinstance(n.ast, ast.Return) and n not in none_rets)
        ctx.ob("C16.R3-no-hash-when-missing", tn.ast, ok,
               "strong mode: a referenced path that does not exist makes the function return None" if ok else
               "strong mode: the function can continue (and produce a hash) although a referenced input does not exist")
    # in EVERY mode (also fuzzy, where the content of a produced file is not hashed): the entry that a reference contributes to the hashed
    # information is stored only on paths that took the 'present' side of an existence test of the reference's location - a component
    # must not get a (fuzzy) hash, and the memoization database must not be queried, while a file it consumes from a producer is missing
    loc_vars = match.locals_where(fn, lambda v: isinstance(v, ast.Call) and last_attr(v) == "location")
    ctx.require(bool(loc_vars), "anchor missing: <local> = <reference>.location(...) in _compute_memoization_info")
    loc_defs = [n for n in cfg.nodes if n.kind == "stmt" and isinstance(n.ast, ast.Assign) and isinstance(n.ast.value, ast.Call)
                and last_attr(n.ast.value) == "location" and any(isinstance(t, ast.Name) and t.id in loc_vars for t in n.ast.targets)]
    present = match.test_nodes(cfg, lambda t: match.polarity(t, lambda e: isinstance(e, ast.Call) and call_name(e) in ("os.path.exists", "os.path.isfile")
                                                            and e.args and isinstance(e.args[0], ast.Name) and e.args[0].id in loc_vars))
    file_tables = set(match.locals_where(fn, lambda v: isinstance(v, ast.Dict) and not v.keys)) & {
        t.value.id for n in ast.walk(fn) if isinstance(n, ast.Assign) for t in n.targets
        if isinstance(t, ast.Subscript) and isinstance(t.value, ast.Name) and isinstance(n.value, ast.Dict)
        and any(isinstance(k, ast.Constant) and k.value == "hash" for k in n.value.keys)}
    entry_stores = [n for n in cfg.nodes if n.kind == "stmt" and isinstance(n.ast, ast.Assign) and any(
        isinstance(t, ast.Subscript) and isinstance(t.value, ast.Name) and t.value.id in file_tables for t in n.ast.targets)]
    ctx.require(bool(loc_defs) and bool(entry_stores), "anchor missing: the per-reference entries ({'hash': ...}) of _compute_memoization_info")
    r_missing = cfg.reach(loc_defs, blocked_edges=[(tn.id, lab) for (tn, lab) in present], ignore_labels=("exc",))
    for st_ in entry_stores:
        ok = st_.id not in r_missing
        ctx.ob("C16.R3-no-hash-when-missing", st_.ast, ok,
               "the entry of a reference is recorded only after an existence test of its location succeeded (every mode)" if ok else
               "the entry of a reference is recorded on a path on which no existence test of its location succeeded: with fuzzy=True, no "
               "embedding function and a file inside a producer's directory, the 'path does not exist' test lets the reference through and the "
               "is-it-a-file test no longer stands in its way - the component gets a fuzzy hash (and the memoization database is queried) while "
               "the producer's file is missing", construct="per-reference entry recorded only for an existing location")
    handlers = [n for n in cfg.nodes if n.kind == "handler"]
    for h in handlers:
        r = cfg.reach([h], blocked=none_rets, ignore_labels=("exc",))
        ok = cfg.exit.id not in r and not any(n.id in r for n in cfg.nodes if n.kind == "stmt" and isinstance(n.ast, ast.Return) and n not in none_rets)
        ctx.ob("C16.R3-no-hash-when-missing", h.ast, ok, "this failure handler returns None" if ok else
               "this failure handler lets the computation continue towards a hash", construct="handler at %s returns None" % short(h.ast.type, 60) if h.ast.type is not None else "bare handler returns None")
    outer = [st for st in fn.body if isinstance(st, ast.Try)]
    ok = bool(outer) and any(h.type is not None and "Exception" in source.src(h.type) for h in outer[-1].handlers) and \
        any(final_ret[0] is x for x in ast.walk(outer[-1]))
    ctx.ob("C16.R3-no-hash-when-missing", outer[-1] if outer else fn, ok, "the whole computation is inside a catch-all that returns None" if ok else
           "the computation is not wrapped in a catch-all handler", construct="outer try/except Exception")
    info_to_hash = g.func("ComponentSpecification._memoization_info_to_hash")
    first = info_to_hash.body[0]
    ok = isinstance(first, ast.If) and "info is None" in source.src(first.test) and any(isinstance(s, ast.Return) for s in first.body)
    ctx.ob("C16.R3-no-hash-when-missing", first, ok, "no information => no hash (None)" if ok else "_memoization_info_to_hash no longer returns None for missing information")

    # ---------------- R4 -------------------------------------------------------------------------------
    md5_nodes = match.nodes_calling(cfg, lambda c: call_name(c) == "md5_of_file")
    ctx.require(bool(md5_nodes), "anchor missing: md5_of_file call")

    # roles: CUSTOM = the local read from ...get('embeddingFunction'); PRODREF = the local that is None for files not produced
    # by a component (assigned None and an identifier)
    CUSTOM = match.role(fn, lambda v: "embeddingFunction" in source.src(v), "custom_js")
    PRODREF = match.role(fn, lambda v: isinstance(v, ast.Constant) and v.value is None and True, "prod_ref")
    cands = [nm for nm in match.locals_where(fn, lambda v: isinstance(v, ast.Constant) and v.value is None)
             if any(isinstance(v, ast.Name) for v in match.assigned_value(fn, nm)) and len(match.assigned_value(fn, nm)) == 2]
    PRODREF = cands[0] if cands else "prod_ref"

    def atomise(e):
        if isinstance(e, ast.Name) and e.id == "fuzzy":
            return ("fuzzy", True)
        if isinstance(e, ast.Name) and e.id == CUSTOM:
            return ("custom", True)
        cp = match.compare_parts(e)
        if cp and isinstance(cp[0], ast.Name) and cp[0].id == PRODREF and isinstance(cp[2], ast.Constant) and cp[2].value is None:
            if isinstance(cp[1], ast.Is):
                return ("prod_none", True)
            if isinstance(cp[1], ast.IsNot):
                return ("prod_none", False)
        return None
    for mn in md5_nodes:
        guard = None
        for a in source.ancestors(mn.ast):
            if isinstance(a, ast.If) and any(mn.ast is x for s in a.body for x in ast.walk(s)):
                guard = a
                break
        ctx.require(guard is not None, "md5_of_file is not under an if")
        try:
            table = boolx.truth_table(guard.test, ["fuzzy", "custom", "prod_none"], atomise)
        except boolx.Unrecognised as e:
            raise AnalysisError("cannot interpret the guard of md5_of_file: %s" % e)
        bad = [env for env, val in table if val != ((env["custom"] and env["fuzzy"]) or (not env["fuzzy"]) or (env["fuzzy"] and env["prod_none"]))
               and not any(k.startswith("?") for k in env)]
        free = [k for env, _ in table for k in env if k.startswith("?")]
        row = [val for env, val in table if env.get("fuzzy") and not env.get("custom") and not env.get("prod_none")]
        ok = not bad and not free and row == [False]
        ctx.ob("C16.R4-fuzzy-ignores-produced-content", guard.test, ok,
               "file content is hashed iff strong mode, or a direct (non-produced) file, or a custom embedding function" if ok else
               "the content of files produced by other components is hashed in fuzzy mode (or the guard changed): %s" % (bad[:1] or free[:1]),
               construct="guard of md5_of_file")
    # the fuzzy entry of a produced file: 'fuzzy' # <producer's fuzzy hash> # <file>, as '#'.join((..)) or as an f-string
    def fuzzy_entry(v: ast.AST):
        """(hash operand, file operand, form) when v builds the entry"""
        if isinstance(v, ast.Call) and last_attr(v) == "join" and isinstance(v.func.value, ast.Constant) and v.func.value.value == "#" \
                and v.args and isinstance(v.args[0], (ast.Tuple, ast.List)) and len(v.args[0].elts) == 3:
            el = v.args[0].elts
            if isinstance(el[0], ast.Constant) and el[0].value == "fuzzy":
                return el[1], el[2], "join"
        if isinstance(v, ast.JoinedStr):
            parts = v.values
            consts = [p_.value for p_ in parts if isinstance(p_, ast.Constant)]
            exprs = [p_.value for p_ in parts if isinstance(p_, ast.FormattedValue)]
            if len(exprs) == 2 and consts and consts[0] == "fuzzy#" and "#" in consts[1:]:
                return exprs[0], exprs[1], "format"
        if isinstance(v, ast.BinOp) and isinstance(v.op, ast.Mod) and isinstance(v.left, ast.Constant) and v.left.value == "fuzzy#%s#%s" \
                and isinstance(v.right, ast.Tuple) and len(v.right.elts) == 2:
            return v.right.elts[0], v.right.elts[1], "format"
        return None
    entries = [(n, fuzzy_entry(n.value)) for n in source.walk_own(fn) if isinstance(n, ast.Assign) and fuzzy_entry(n.value) is not None]
    ok = False
    why = "no 'fuzzy#<hash>#<file>' entry found"
    for (node, (h, f_, form)) in entries:
        h_src = [h] + ([x for x in match.assigned_value(fn, h.id)] if isinstance(h, ast.Name) else [])
        from_producer = any("memoization_hash_fuzzy" in source.src(x) for x in h_src)
        has_file = "fileRef" in source.src(f_)
        ok = from_producer and has_file
        why = "" if ok else "it is not built from the producer's memoization_hash_fuzzy and the file reference"
        # a producer that has no fuzzy hash (its own input is missing) must not yield an entry: '#'.join raises TypeError on None (the
        # surrounding handler turns that into 'no hash'); a formatting expression renders 'None' and needs an explicit test
        if ok and form != "join":
            en = [n for n in cfg.nodes if n.kind == "stmt" and n.ast is node]
            hname = h.id if isinstance(h, ast.Name) else None
            none_tests = match.test_nodes(cfg, lambda t, h=h, hname=hname: (
                "F" if (isinstance(t, ast.UnaryOp) and isinstance(t.op, ast.Not) and source.src(t.operand) == source.src(h)) else
                "T" if source.src(t) == source.src(h) else
                ("F" if isinstance(match.compare_parts(t)[1], (ast.Is, ast.Eq)) else "T")
                if (match.compare_parts(t) and source.src(match.compare_parts(t)[0]) == source.src(h)
                    and isinstance(match.compare_parts(t)[2], ast.Constant) and match.compare_parts(t)[2].value is None) else None))
            guarded = bool(en) and bool(none_tests) and match.only_via_edges(cfg, en[0], none_tests)
            if not guarded:
                ok = False
                why = ("the producer's fuzzy hash is formatted into the entry without a None test: a producer that cannot be hashed (its own input "
                       "is missing) contributes the text 'fuzzy#None#<file>', so every component downstream of it gets a fuzzy hash - the same "
                       "one for consumers of different un-hashable producers - instead of none")
    ctx.ob("C16.R4-fuzzy-ignores-produced-content", entries[0][0] if entries else fn, ok,
           "fuzzy entry of a produced file = 'fuzzy#<producer.memoization_hash_fuzzy>#<file>', and no entry when the producer has no hash" if ok else
           "the fuzzy entry of a produced file: %s" % why, construct="fuzzy entry of a produced file")

    # ---------------- R5 -------------------------------------------------------------------------------
    sites = [s for s in sub.find_sites(fn, include_nested=False) if not sub.is_literal_key(s)]
    ctx.floor("C16.R5-anchored-substitution", len(sites), 1, "substitution sites in _compute_memoization_info")
    for s in sites:
        # a plain \\b is NOT enough here although the keys are processed longest-first: two references of EQUAL length - the
        # relative spelling 'ab:ref' of stage1.ab and 'stage0.ab:ref' when both producers are called ab - are ordered by
        # declaration, and \\bab:ref\\b also matches inside 'stage0.ab:ref' (defect found through seed C15-2)
        strong = check_site(ctx, "C16.R5-anchored-substitution", fn, s, "a declared reference")
        order = sub.loop_order(fn, s)
        # with whole-reference anchors (and inserted text '<kind>:<digest>:<method>' that is no reference) the order in which
        # the references are processed cannot change the result; the longest-first order only matters for weaker anchors
        ok = order in ("longest-first", None) or strong
        ctx.ob("C16.R5-anchored-substitution", s.call, ok,
               ("references are substituted longest first" if order in ("longest-first", None) else
                "every reference is replaced as a whole, so the processing order is immaterial") if ok else
               "references are substituted in an order that is not longest-first and not as whole references: the relative spelling "
               "can be replaced inside an absolute one", construct=short(s.call, 80) + " <- order-independent")

    # ---------------- R15: every producer contributes its hash ------------------------------------------------
    # The table that maps a producer to its hash is filled for EVERY producer of the component: inside the loop nothing skips a
    # producer (no continue / break), and the store is guarded only by 'already in the table' and by the strong/fuzzy switch.  A
    # reference that the file loop leaves out (a directory) relies on this table.
    def reads_producer_hash(lp_: ast.AST) -> bool:
        # the hash is read off the loop's own variable: the loop ranges over the producers
        tv = {x.id for x in ast.walk(lp_.target) if isinstance(x, ast.Name)}
        return any(isinstance(x, ast.Attribute) and x.attr in ("memoization_hash", "memoization_hash_fuzzy") and isinstance(x.value, ast.Name)
                   and x.value.id in tv for x in ast.walk(lp_))
    fill_loops = [lp for lp in source.walk_own(fn) if isinstance(lp, ast.For) and reads_producer_hash(lp) and any(
        isinstance(a, ast.Assign) and any(isinstance(t, ast.Subscript) and isinstance(t.value, ast.Name) for t in a.targets) for a in ast.walk(lp))]
    ctx.floor("C16.R15-every-producer-is-hashed", len(fill_loops), 1, "loops that fill the producer -> hash table")
    for lp in fill_loops:
        table = next(t.value.id for a in ast.walk(lp) if isinstance(a, ast.Assign) for t in a.targets if isinstance(t, ast.Subscript) and isinstance(t.value, ast.Name))

        def only_already_listed(x: ast.AST) -> bool:
            """a continue that skips a producer which already HAS its entry ('if id in table: continue')"""
            g = next((anc for anc in source.ancestors(x) if isinstance(anc, ast.If)), None)
            return isinstance(x, ast.Continue) and g is not None and isinstance(g.test, ast.Compare) and isinstance(g.test.ops[0], ast.In) \
                and table in set(source.names_in(g.test)) and any(x is y for st_ in g.body for y in ast.walk(st_))
        skips = [x for x in ast.walk(lp) if isinstance(x, (ast.Continue, ast.Break)) and not only_already_listed(x)]
        bad_guards = []
        for a in ast.walk(lp):
            if isinstance(a, ast.Assign) and any(isinstance(t, ast.Subscript) and isinstance(t.value, ast.Name) and t.value.id == table for t in a.targets):
                for anc in source.ancestors(a):
                    if anc is lp:
                        break
                    if isinstance(anc, ast.If):
                        names = set(source.names_in(anc.test))
                        member = isinstance(anc.test, ast.Compare) and isinstance(anc.test.ops[0], (ast.In, ast.NotIn)) and table in names
                        switch = names <= {"fuzzy"} or (names & {"fuzzy"} and len(names) == 1)
                        if not (member or switch):
                            bad_guards.append(anc.test)
        ok = not skips and not bad_guards
        ctx.ob("C16.R15-every-producer-is-hashed", lp, ok,
               "every producer of the component gets an entry in %s" % table if ok else
               "the loop that fills %s skips producers (%s): a reference to a sub-directory of a producer (left out of the file entries because "
               "it is a directory) then has neither a file hash nor a producer hash - it stays verbatim in the hashed arguments, consumers of "
               "producers doing different work hash alike, and the hash depends on the producer's NAME" % (
                   table, short(skips[0], 30) if skips else short(bad_guards[0], 50)), construct="for <producer>: %s[<id>] = <producer hash>" % table)

    # ---------------- R14: the file part survives a replacement by the producer's hash ---------------------
    prod_repl = [a for a in source.walk_own(fn) if isinstance(a, ast.Assign) and len(a.targets) == 1 and isinstance(a.targets[0], ast.Name)
                 and isinstance(a.value, ast.Call) and last_attr(a.value) == "join"
                 and any(isinstance(x, ast.Constant) and x.value == "producer" for x in ast.walk(a.value))]
    ctx.floor("C16.R14-file-part-of-a-producer-reference-is-hashed", len(prod_repl), 1, "replacements of a reference by its producer's hash")
    for a in prod_repl:
        var = a.targets[0].id
        # every later re-assembly of the replacement (replacement = ':'.join((replacement, d.method))) counts
        chain = [a.value] + [b.value for b in source.walk_own(fn) if isinstance(b, ast.Assign) and any(isinstance(t, ast.Name) and t.id == var for t in b.targets)
                             and any(isinstance(x, ast.Name) and x.id == var for x in ast.walk(b.value))]
        has_file = any(isinstance(x, ast.Attribute) and x.attr in ("fileRef", "path", "filename") for e in chain for x in ast.walk(e))
        ctx.ob("C16.R14-file-part-of-a-producer-reference-is-hashed", a, has_file,
               "the replacement by the producer's hash keeps the file part of the reference" if has_file else
               "a reference that is replaced by 'producer:<producer hash>:<method>' loses its file part: 'ls prod/a:ref' and 'ls prod/b:ref' (two "
               "sub-directories of one producer) get the same strong and fuzzy hash although the command lines differ",
               construct="replacement = 'producer:<hash>' <- file part of the reference")

    # ---------------- R13: multiplicity of the consumed files ----------------------------------------------
    files_vals = [v for d_ in ast.walk(fn) if isinstance(d_, ast.Dict) for (k, v) in zip(d_.keys, d_.values)
                  if isinstance(k, ast.Constant) and k.value == "files"]
    ctx.floor("C16.R13-one-entry-per-consumed-file", len(files_vals), 1, "'files' entries of the hashed information")
    for v in files_vals:
        chain = [v] + ([x for x in match.assigned_value(fn, v.id)] if isinstance(v, ast.Name) else [])
        dedup = [x for c_ in chain for x in ast.walk(c_) if isinstance(x, (ast.SetComp, ast.Set, ast.DictComp))
                 or (isinstance(x, ast.Call) and (call_name(x) or "").split(".")[-1] in ("set", "frozenset", "fromkeys", "unique"))]
        ok = not dedup
        ctx.ob("C16.R13-one-entry-per-consumed-file", v, ok,
               "the consumed files are listed one entry per file" if ok else
               "the 'files' ingredient passes through %s: two distinct consumed files with byte-identical contents and the same method collapse "
               "into one entry, so a component that stages d1.txt and one that stages d1.txt AND the identical d2.txt get the same strong and "
               "fuzzy hash - can_memoize would reuse the outputs of different work" % short(dedup[0], 40),
               construct="'files': one entry per consumed file")

    # ---------------- R10: both spellings of one reference ---------------------------------------------
    def member_test(t: ast.AST, attr: str) -> Optional[str]:
        cp = match.compare_parts(t)
        if cp and isinstance(cp[1], (ast.In, ast.NotIn)) and isinstance(cp[0], ast.Attribute) and cp[0].attr == attr:
            return "T" if isinstance(cp[1], ast.In) else "F"
        return None
    abs_tests = match.test_nodes(cfg, lambda t: member_test(t, "absoluteReference"))
    # only the pairs of tests against one container: the map of spellings found in the arguments
    rel_tests = match.test_nodes(cfg, lambda t: member_test(t, "relativeReference"))
    abs_containers = {source.src(match.compare_parts(t.ast)[2]) for (t, _) in abs_tests}
    rel_tests = [(t, lab) for (t, lab) in rel_tests if source.src(match.compare_parts(t.ast)[2]) in abs_containers]
    ctx.floor("C16.R10-both-spellings-replaced", len(rel_tests), 1, "tests for the relative spelling of a reference in the arguments")
    for (rt, _) in rel_tests:
        cont = source.src(match.compare_parts(rt.ast)[2])
        mine = [(t, lab) for (t, lab) in abs_tests if source.src(match.compare_parts(t.ast)[2]) == cont]
        reach_ok = bool(mine) and all(rt.id in cfg.reach([m for (m, l2) in t.succ if l2 == lab], ignore_labels=("iter", "done", "continue")) for (t, lab) in mine)
        ctx.ob("C16.R10-both-spellings-replaced", rt.ast, reach_ok,
               "the relative spelling is looked for also when the absolute spelling was found" if reach_ok else
               "the relative spelling of a reference is looked for only when the absolute one does not occur (if/elif): in "
               "'stage0.P/out.txt:ref P/out.txt:ref' the second occurrence is hashed verbatim, so the strong hash changes when only the "
               "producer is renamed", construct="relative spelling test reachable after the absolute one matched")

    # ---------------- R17: whose the relative spelling is -------------------------------------------------
    # 'P/out.txt:ref' carries no stage: in the arguments it names the producer in the component's OWN stage when a reference points
    # there, else the one in the lowest stage (the rule resolveArguments applies, C10.R4).  Whatever form the choice takes, it cannot
    # prefer the own-stage producer without consulting the component's stage: the statements that fill the owner table (and the loops /
    # sort keys around them) mention identification.stageIndex, directly or through a local (seed C16-13: first claim in stage order).
    own_locals = set(match.locals_where(fn, lambda v: (dotted(v) or "").endswith("identification.stageIndex")))
    fills = []
    for x in source.walk_own(fn, include_nested=False):
        if isinstance(x, ast.Assign) and any(isinstance(t, ast.Subscript) and isinstance(t.slice, ast.Attribute) and t.slice.attr == "relativeReference"
                                             for t in x.targets):
            fills.append(x)
        elif isinstance(x, ast.Call) and last_attr(x) == "setdefault" and x.args and isinstance(x.args[0], ast.Attribute) \
                and x.args[0].attr == "relativeReference":
            fills.append(x)
    if not fills:
        # no owner is chosen at all: every reference replaces "its" relative spelling, the first one in the loop wins
        ctx.require(bool(rel_tests), "anchor missing: neither an owner table nor a test for the relative spelling in _compute_memoization_info")
        ctx.ob("C16.R17-relative-spelling-belongs-to-the-own-stage-producer", rel_tests[0][0].ast, False,
               "_compute_memoization_info replaces the relative spelling of a reference without choosing which reference owns it: with same-named "
               "producers in two stages 'P/out.txt:ref' is replaced by the hash of whichever reference the loop visits first, not by the "
               "own-stage producer's", construct="owner of a relative spelling <- own stage first")
    for fl_ in fills:
        region = [fl_] + [a for a in source.ancestors(fl_) if isinstance(a, (ast.For, ast.While)) and any(a is y for y in ast.walk(fn))]
        # what the loops iterate (sort keys included) belongs to the choice; the rest of an outer loop's body does not
        scope_nodes = [fl_] + [lp.iter for lp in region[1:] if isinstance(lp, ast.For)]
        # the statement that holds the fill (its guard, its value)
        holder = next((a for a in source.ancestors(fl_) if isinstance(a, ast.stmt)), fl_) if not isinstance(fl_, ast.stmt) else fl_
        guards = [a.test for a in source.ancestors(fl_) if isinstance(a, ast.If) and any(a is y for lp in region[1:] for y in ast.walk(lp))]
        scope_nodes += [holder] + guards
        # locals the scope reads (rivals = [...], owner = D.get(..), a key function bound to a name) count too, one level deep
        read = {y.id for sn in scope_nodes for y in ast.walk(sn) if isinstance(y, ast.Name)}
        for st_ in source.walk_own(fn, include_nested=False):
            if isinstance(st_, ast.Assign) and any(isinstance(t, ast.Name) and t.id in read for t in st_.targets):
                scope_nodes.append(st_.value)
        consults = any((isinstance(y, ast.Name) and y.id in own_locals) or (isinstance(y, ast.Attribute) and (dotted(y) or "").endswith("identification.stageIndex"))
                       for sn in scope_nodes for y in ast.walk(sn))
        ctx.ob("C16.R17-relative-spelling-belongs-to-the-own-stage-producer", fl_, consults,
               "the choice of the reference that owns a relative spelling consults the component's own stage" if consults else
               "the reference that owns a relative spelling is chosen without looking at the component's own stage (%s): with references "
               "[stage0.P/out.txt:ref, stage1.P/out.txt:ref] in a stage-1 component 'P/out.txt:ref' in the arguments - which is the stage-1 "
               "producer - is replaced by the hash of the stage-0 file, so the strong hash misses a change of the file the command really reads "
               "and changes with one it does not" % short(fl_, 70),
               construct="owner of a relative spelling <- own stage first")

    # ---------------- R11: separators -------------------------------------------------------------------
    accs = [n for n in source.walk_own(info_to_hash) if isinstance(n, ast.AugAssign) and isinstance(n.op, ast.Add) and isinstance(n.target, ast.Name)]
    dumps = [c for c in source.calls_in(info_to_hash) if (call_name(c) or "").endswith(("json.dumps", "repr", "pickle.dumps"))]
    ctx.floor("C16.R11-serialisation-is-injective", len(accs) + len(dumps), 1, "accumulations into the hashed text")
    for a in accs:
        v = a.value
        delimited = any(isinstance(x, ast.Constant) and isinstance(x.value, str) and x.value != "" for x in ast.walk(v)) or \
            any(isinstance(x, ast.Call) and call_name(x) in ("len", "repr", "json.dumps") for x in ast.walk(v))
        ctx.ob("C16.R11-serialisation-is-injective", a, delimited,
               "every piece is appended with a delimiter / length / quoting" if delimited else
               "_memoization_info_to_hash appends %s with nothing between the pieces: {executable: 'yexecutableexecutable', arguments: 'x'} "
               "and {executable: 'executable', arguments: 'xexecutabley'} both serialise to '...argumentsxexecutableyexecutableexecutable...' "
               "and receive the same strong hash although executable and arguments differ" % short(v, 30),
               construct="_memoization_info_to_hash: %s %s= %s <- delimiter" % (a.target.id, "+", short(v, 30)))

    # ---------------- R12: None stays None ----------------------------------------------------------------
    n12 = 0
    for q in ("ComponentSpecification.memoization_hash", "ComponentSpecification.memoization_hash_fuzzy"):
        pf = g.func(q)
        ctx.analysed(pf)
        pc = CFG(pf)
        field = None
        for r_ in source.walk_own(pf):
            if isinstance(r_, ast.Return) and isinstance(r_.value, ast.Attribute):
                field = source.src(r_.value)
        if field is None:
            continue
        for nd in pc.nodes:
            if nd.kind == "stmt" and isinstance(nd.ast, ast.Assign) and any(source.src(t) == field for t in nd.ast.targets) \
                    and any(source.src(x) == field for x in ast.walk(nd.ast.value)):
                n12 += 1
                tests = match.test_nodes(pc, lambda t, field=field: (
                    ("F" if isinstance(match.compare_parts(t)[1], (ast.Is, ast.Eq)) else "T")
                    if (match.compare_parts(t) and source.src(match.compare_parts(t)[0]) == field
                        and isinstance(match.compare_parts(t)[2], ast.Constant) and match.compare_parts(t)[2].value is None) else None))
                ok = bool(tests) and match.only_via_edges(pc, nd, tests)
                ctx.ob("C16.R12-no-hash-stays-no-hash", nd.ast, ok,
                       "%s post-processes the hash only when it is not None" % q.split(".")[-1] if ok else
                       "%s post-processes %s (%s) without testing it for None: while an input is missing the hash is None and the "
                       "expression raises TypeError out of the property (or renders the text 'None' into a hash) instead of 'no hash'" % (
                           q.split(".")[-1], field, short(nd.ast.value, 50)),
                       construct="%s: %s <- is not None" % (q.split(".")[-1], short(nd.ast.value, 50)))
    ctx.floor("C16.R12-no-hash-stays-no-hash", n12, 1, "post-processing assignments in the hash properties")

    # ---------------- R6 -------------------------------------------------------------------------------
    iters = [n.iter for n in source.walk_own(info_to_hash) if isinstance(n, ast.For)]
    for it in iters:
        ok = isinstance(it, ast.Call) and call_name(it) == "sorted"
        ctx.ob("C16.R6-order-insensitive-hash", it, ok, "sorted traversal" if ok else "the hash routine iterates %s unsorted" % short(it, 50))
    ctx.floor("C16.R6-order-insensitive-hash", len(iters), 2, "loops in _memoization_info_to_hash")

    # ---------------- R8 -------------------------------------------------------------------------------
    MUTATORS = {"update", "append", "add", "setdefault", "pop", "clear", "extend", "insert", "remove", "popitem", "discard", "__setitem__"}

    def self_rooted(e: ast.AST) -> bool:
        while isinstance(e, (ast.Attribute, ast.Subscript)):
            e = e.value
        return isinstance(e, ast.Name) and e.id in ("self", "cls")

    def local_names(f: ast.AST) -> Set[str]:
        out: Set[str] = set()
        for n in ast.walk(f):
            if isinstance(n, ast.Name) and isinstance(n.ctx, ast.Store):
                out.add(n.id)
            elif isinstance(n, ast.arg):
                out.add(n.arg)
            elif isinstance(n, (ast.FunctionDef, ast.ClassDef)):
                out.add(n.name)
            elif isinstance(n, ast.ExceptHandler) and n.name:
                out.add(n.name)
            elif isinstance(n, (ast.Import, ast.ImportFrom)):
                out.update((a.asname or a.name).split(".")[0] for a in n.names)
        return out

    def root_name(e: ast.AST) -> Optional[str]:
        while isinstance(e, (ast.Attribute, ast.Subscript)):
            e = e.value
        return e.id if isinstance(e, ast.Name) else None
    _locals: Dict[int, Set[str]] = {}

    def is_self_store_target(t: ast.AST) -> bool:
        """a store into the component (self/cls rooted) or into anything that is not a local of the computation (module state)"""
        if not isinstance(t, (ast.Attribute, ast.Subscript)):
            return False
        if self_rooted(t):
            return True
        r = root_name(t)
        return r is not None and r not in _cur_locals
    n8 = 0
    for f in (fn, g.func("ComponentSpecification._memoization_info_to_hash")):
        ctx.analysed(f)
        bad = []
        _cur_locals = local_names(f)
        for n in ast.walk(f):
            if isinstance(n, (ast.Assign, ast.AnnAssign, ast.AugAssign)):
                targets = n.targets if isinstance(n, ast.Assign) else [n.target]
                flat = []
                for t in targets:
                    flat.extend(t.elts if isinstance(t, (ast.Tuple, ast.List)) else [t])
                bad.extend(n for t in flat if is_self_store_target(t))
            elif isinstance(n, ast.Delete):
                bad.extend(n for t in n.targets if is_self_store_target(t))
            elif isinstance(n, ast.Call) and isinstance(n.func, ast.Attribute) and n.func.attr in MUTATORS and (
                    (self_rooted(n.func.value) and isinstance(n.func.value, (ast.Attribute, ast.Subscript)))
                    or (root_name(n.func.value) is not None and root_name(n.func.value) not in _cur_locals
                        and root_name(n.func.value) not in ("self", "cls") and isinstance(n.func.value, ast.Name))):
                bad.append(n)
            elif isinstance(n, ast.Global):
                bad.append(n)
            elif isinstance(n, ast.FunctionDef) and any("cache" in source.src(d).lower() for d in n.decorator_list):
                bad.append(n.decorator_list[0])
            n8 += 1
        reads = [n for n in ast.walk(f) if isinstance(n, ast.Attribute) and isinstance(n.value, ast.Name) and n.value.id == "self"
                 and n.attr.startswith("_memoization") and isinstance(n.ctx, ast.Load) and n.attr not in ("_memoization_info_to_hash",)]
        ok = not bad and not reads
        where = (bad + reads)[0] if (bad or reads) else f
        ctx.ob("C16.R8-stateless-computation", where, ok,
               "%s neither stores to nor reads remembered state of the component" % f.name if ok else
               "%s keeps state on the component between hash computations (%s): a digest or partial result remembered from an "
               "earlier (possibly failed) attempt is re-used after the files changed, so the hash no longer identifies the "
               "current contents" % (f.name, short(where, 70)), construct="%s is stateless" % f.name)
    ctx.floor("C16.R8-stateless-computation", n8, 100, "AST nodes of the hash computation inspected")

    # ---------------- R9 -------------------------------------------------------------------------------
    check_own_executable(ctx, fn)

    # ---------------- R7 -------------------------------------------------------------------------------
    reset = g.func("ComponentSpecification.memoization_reset")
    cleared = {source.src(t) for n in source.walk_own(reset) if isinstance(n, ast.Assign) and isinstance(n.value, ast.Constant) and n.value.value is None for t in n.targets}
    need = {"self._memoization_hash", "self._memoization_info", "self._memoization_info_fuzzy", "self._memoization_hash_fuzzy"}
    ok = need <= cleared
    ctx.ob("C16.R7-cache-discipline", reset, ok, "memoization_reset clears all four cached fields" if ok else
           "memoization_reset leaves %s cached: a stale hash survives a reset" % sorted(need - cleared), construct="reset clears %s" % sorted(cleared))
    for prop, field in (("memoization_info", "_memoization_info"), ("memoization_hash", "_memoization_hash"),
                        ("memoization_info_fuzzy", "_memoization_info_fuzzy"), ("memoization_hash_fuzzy", "_memoization_hash_fuzzy")):
        f = g.func("ComponentSpecification." + prop)
        ifs = [n for n in f.body if isinstance(n, ast.If)]
        ok = bool(ifs) and source.src(ifs[0].test) in ("not self.%s" % field, "self.%s is None" % field)
        ctx.ob("C16.R7-cache-discipline", ifs[0] if ifs else f, ok, "%s recomputes while the cached value is empty/None" % prop if ok else
               "%s no longer recomputes when its cache is empty" % prop)
        fuzzy_expected = "fuzzy" in prop
        calls = [c for c in source.calls_in(f) if last_attr(c) == "_compute_memoization_info"]
        for c in calls:
            val = c.args[0].value if c.args and isinstance(c.args[0], ast.Constant) else None
            ok = val is fuzzy_expected
            ctx.ob("C16.R7-cache-discipline", c, ok, "%s computes with fuzzy=%s" % (prop, fuzzy_expected) if ok else
                   "%s computes the %s information" % (prop, "fuzzy" if val else "strong"))
        for c in [c for c in source.calls_in(f) if last_attr(c) == "_memoization_info_to_hash"]:
            ok = bool(c.args) and source.src(c.args[0]) == ("self.memoization_info_fuzzy" if fuzzy_expected else "self.memoization_info")
            ctx.ob("C16.R7-cache-discipline", c, ok, "%s hashes the matching information" % prop if ok else
                   "%s hashes %s" % (prop, short(c.args[0], 40) if c.args else "nothing"))
