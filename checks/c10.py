"""C10 - command-line reference substitution is exact.  See DESIGN.md section C10 and the SUB engine."""
from __future__ import annotations

import ast
from typing import List, Optional

from vlib import match, source, sub
from vlib.source import AnalysisError, call_name, dotted, last_attr, short

GRAPH = "python/experiment/model/graph.py"
REF_ATTRS = ("absoluteReference", "relativeReference", "stringRepresentation")


def key_is_reference_spelling(e: Optional[ast.AST]) -> bool:
    if e is None:
        return False
    for n in ast.walk(e):
        if isinstance(n, ast.Attribute) and n.attr in REF_ATTRS:
            return True
    return False


def check_site(ctx, rule: str, fn: ast.AST, site: sub.Site, what: str, word_boundary_ok: Optional[str] = None) -> bool:
    """Apply the SUB rule to one site; returns ok.  A plain \\b left anchor is accepted only where ``word_boundary_ok``
    gives the (frozen) reason why no key can occur right after '.', '#' or '-' in the text being rewritten."""
    if site.kind == "plain":
        return ctx.ob(rule, site.call, False,
                      "%s is substituted with str.replace(%s, ...): unanchored, so a reference whose spelling is a "
                      "suffix/prefix of another one (A:ref in BA:ref or in stage0.A:ref, X:copy in X:copyout) rewrites "
                      "the other reference; the result depends on declaration order" % (what, short(site.key, 60)))
    pats = sub.resolve_pattern(fn, site.pattern)
    ok_all = True
    for (p, pfn, binds) in pats:
        info = sub.pattern_anchoring(p, pfn, binds)
        ok = bool(info["escaped_keys"]) and info["left"] and info["right"] and not info["raw_interpolation"]
        weak = ok and info.get("left_kind") != "strong"
        if weak and not word_boundary_ok:
            ok = False
        ok_all = ok_all and ok
        why = []
        if weak and not word_boundary_ok:
            why.append("the left anchor is only a word boundary: '.', '#' and '-' are legal inside references, so the key also "
                       "matches inside 'stage1.<key>', '0#<key>' or 'x-<key>' (e.g. inside text inserted by an earlier substitution)")
        if not info["escaped_keys"] or info["raw_interpolation"]:
            why.append("the reference text is interpolated into the regular expression without re.escape")
        if not info["left"]:
            why.append("no left anchor")
        if not info["right"]:
            why.append("no right anchor")
        ctx.ob(rule, site.call, ok,
               ("%s is substituted through a boundary-anchored, escaped pattern (%s)%s" % (
                   what, info["shape"], "; word-boundary anchor accepted: " + word_boundary_ok if weak else "")) if ok else
               ("%s is substituted through pattern %s: %s" % (what, info["shape"], "; ".join(why))),
               construct="%s / pattern %s" % (short(site.call, 100), info["shape"]))
    return ok_all


def run(ctx) -> None:
    ctx.explanation = (
        "SUB rule on ComponentSpecification.resolveArguments: every content-based substitution whose key is a reference "
        "spelling must go through an escaped, boundary-anchored pattern (then the loop over the declared references is "
        "order independent); the replacement must be the value resolved from the same reference; the argument string is "
        "modified nowhere else. Decides the structural necessary condition, not equality with an oracle substitution.")
    ctx.rule("C10.R1-anchored-substitution", "every substitution of a reference spelling in resolveArguments is escaped and boundary-anchored")
    ctx.rule("C10.R2-own-value", "each reference is replaced by the value resolved from that same reference")
    ctx.rule("C10.R3-only-substitutions-touch-arguments", "the argument string is assigned only from substitutions of declared "
                                                          "references, its initial read and the final variable fill-in")
    ctx.rule("C10.R4-one-spelling-per-reference", "the relative spelling (which carries no stage and can be shared by same-named "
             "producers of different stages) is substituted only on paths where this reference's absolute spelling was not "
             "found in the arguments")
    ctx.assume("\\b / look-around anchors are accepted as boundaries (the idiom of rewrite_all_references and "
               "_compute_memoization_info)")

    g = ctx.repo.module(GRAPH)
    fn = g.func("ComponentSpecification.resolveArguments")
    ctx.analysed(fn)
    sites = [s for s in sub.find_sites(fn) if not sub.is_literal_key(s)]
    def regex_keys(s):
        out = []
        for (p, pfn, binds) in sub.resolve_pattern(fn, s.pattern):
            out.extend(sub.pattern_anchoring(p, pfn, binds)["escaped_key_nodes"])
            out.extend(binds.values())
            out.append(p)
        return out
    ref_sites = [s for s in sites if key_is_reference_spelling(s.key if s.kind == "plain" else None) or
                 (s.kind == "regex" and any(key_is_reference_spelling(k) for k in regex_keys(s)))]
    ctx.floor("C10.R1-anchored-substitution", len(ref_sites), 2, "reference substitutions in resolveArguments")

    loops = [n for n in source.walk_own(fn) if isinstance(n, ast.For) and "dataReferences" in source.src(n.iter)]
    ctx.require(bool(loops), "anchor missing: loop over self.dataReferences in resolveArguments")
    loop = loops[0]
    loopvar = loop.target.id if isinstance(loop.target, ast.Name) else None

    for s in ref_sites:
        check_site(ctx, "C10.R1-anchored-substitution", fn, s, "a declared reference")
        # R2
        keyexpr = s.key if s.kind == "plain" else None
        if keyexpr is None:
            cands = [k for k in regex_keys(s) if key_is_reference_spelling(k)]
            keyexpr = cands[0] if cands else None
        root = keyexpr
        while isinstance(root, ast.Attribute):
            root = root.value
        key_ok = isinstance(root, ast.Name) and root.id == loopvar
        val = s.value
        if isinstance(val, ast.Lambda):
            val = val.body
        val_ok = False
        if isinstance(val, ast.Name):
            names = {val.id}
            for v in match.assigned_value(fn, val.id):
                if isinstance(v, ast.Name):
                    names.add(v.id)
            if "reference_value" in names:
                rv = match.assigned_value(fn, "reference_value")
                val_ok = any(isinstance(v, ast.Call) and last_attr(v) == "resolve" and dotted(v.func.value) == loopvar
                             for v in rv)
        ctx.ob("C10.R2-own-value", s.call, key_ok and val_ok,
               "the key is a spelling of the loop's reference and the replacement is that reference's resolved value"
               if key_ok and val_ok else
               "the replacement is not (provably) the value resolved from the reference whose spelling is replaced",
               construct=short(s.call, 120) + " <- own value")
    # R3: who assigns `arguments`
    for n in source.walk_own(fn):
        if isinstance(n, ast.Assign) and any(isinstance(t, ast.Name) and t.id == "arguments" for t in n.targets):
            v = n.value
            is_site = any(v is s.call for s in sites)
            is_init = isinstance(v, ast.Call) and last_attr(v) == "get" and v.args and isinstance(v.args[0], ast.Constant) \
                and v.args[0].value == "arguments"
            is_fill = isinstance(v, ast.Call) and last_attr(v) == "fill_in"
            ok = is_site or is_init or is_fill
            ctx.ob("C10.R3-only-substitutions-touch-arguments", n, ok,
                   "arguments assigned from %s" % ("a reference substitution" if is_site else "its initial value" if is_init else "fill_in")
                   if ok else "the argument string is rewritten by something other than a reference substitution",
                   trivial=not is_site)

    # R4: relative spelling only when the absolute one is absent
    from vlib.cfg import CFG, own_calls

    def spelling_of(e: ast.AST, depth: int = 0) -> Optional[str]:
        """'absolute' / 'relative' when the pattern expression e is built from that spelling of the loop's reference."""
        if e is None or depth > 4:
            return None
        for n in ast.walk(e):
            if isinstance(n, ast.Attribute) and n.attr in ("absoluteReference", "relativeReference"):
                return "absolute" if n.attr == "absoluteReference" else "relative"
        if isinstance(e, ast.Name):
            kinds = {spelling_of(v, depth + 1) for v in match.assigned_value(fn, e.id)}
            kinds.discard(None)
            if len(kinds) == 1:
                return kinds.pop()
        return None

    def search_call_spelling(c: ast.AST) -> Optional[str]:
        if isinstance(c, ast.Call) and isinstance(c.func, ast.Attribute) and c.func.attr in ("search", "match", "findall", "finditer"):
            k = spelling_of(c.func.value)
            if k is None and c.args:
                k = spelling_of(c.args[0])
            return k
        if isinstance(c, ast.Compare) and len(c.ops) == 1 and isinstance(c.ops[0], (ast.In, ast.NotIn)):
            return spelling_of(c.left)
        return None

    def found_label(t: ast.AST, which: str) -> Optional[str]:
        """edge label of test t on which the `which` spelling was FOUND in the arguments."""
        if isinstance(t, ast.Compare) and len(t.ops) == 1 and isinstance(t.comparators[0], ast.Constant) \
                and t.comparators[0].value is None and search_call_spelling(t.left) == which:
            return "T" if isinstance(t.ops[0], (ast.IsNot, ast.NotEq)) else "F"
        if isinstance(t, ast.Compare) and len(t.ops) == 1 and isinstance(t.ops[0], (ast.In, ast.NotIn)) and spelling_of(t.left) == which:
            return "T" if isinstance(t.ops[0], ast.In) else "F"
        if search_call_spelling(t) == which and isinstance(t, ast.Call):
            return "T"
        return None

    cfg = CFG(fn)
    ctx.paths += cfg.paths_count()
    abs_tests = match.test_nodes(cfg, lambda t: found_label(t, "absolute"))
    rel_sites = [s for s in ref_sites if spelling_of(s.pattern if s.kind == "regex" else s.key) == "relative"]
    abs_sites = [s for s in ref_sites if spelling_of(s.pattern if s.kind == "regex" else s.key) == "absolute"]
    ctx.floor("C10.R4-one-spelling-per-reference", len(rel_sites), 2, "substitutions of the relative spelling in resolveArguments")
    for s in rel_sites:
        nodes = [n for n in cfg.nodes if n.ast is not None and n.kind in ("stmt", "test") and any(c is s.call for c in own_calls(n.ast))]
        ctx.require(bool(nodes), "cannot locate the CFG node of %s" % short(s.call, 60))
        absent = [(n, match.other(l)) for n, l in abs_tests]
        ok = bool(abs_tests) and all(match.only_via_edges(cfg, n, absent) for n in nodes)
        # accepted alternative guard: an explicit stage comparison on the producer
        if not ok:
            stage_tests = match.test_nodes(cfg, lambda t: "T" if (isinstance(t, ast.Compare) and "stageIndex" in source.src(t)
                                                                   and isinstance(t.ops[0], ast.Eq)) else None)
            ok = bool(stage_tests) and all(match.only_via_edges(cfg, n, stage_tests) for n in nodes)
        ctx.ob("C10.R4-one-spelling-per-reference", s.call, ok,
               "the relative spelling is substituted only when this reference's absolute spelling does not occur in the arguments" if ok else
               "the relative spelling is substituted also when the reference's absolute spelling was found: 'A:ref' is shared by "
               "stage0.A and stage1.A, so with references [stage0.A:ref, stage1.A:ref] and arguments '-a stage0.A:ref -b A:ref' "
               "the occurrence that belongs to stage1.A gets stage0.A's value (declaration-order dependent)",
               construct=short(s.call, 100) + " <- absolute spelling absent")

    if ctx.tier == "thorough":
        # information only: the same idiom elsewhere in the repository (outside the property's scope)
        n_other = 0
        for m in ctx.repo.modules():
            for q, f in m.functions.items():
                if m.rel == GRAPH and q == "ComponentSpecification.resolveArguments":
                    continue
                for s in sub.find_sites(f, include_nested=False):
                    if s.kind == "plain" and key_is_reference_spelling(s.key):
                        n_other += 1
                        ctx.note("unanchored reference substitution outside resolveArguments (not part of C10): %s:%d %s %s"
                                 % (m.rel, s.call.lineno, q, short(s.call, 80)))
        ctx.extra["other_unanchored_reference_substitutions"] = n_other
