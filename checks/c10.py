"""C10 - command-line reference substitution is exact.  See DESIGN.md section C10 and the SUB engine."""
from __future__ import annotations

import ast
from typing import List, Optional

from vlib import flow, match, source, state, sub
from vlib.source import AnalysisError, call_name, dotted, last_attr, short

GRAPH = "python/experiment/model/graph.py"
REF_ATTRS = ("absoluteReference", "relativeReference", "stringRepresentation")


def key_is_reference_spelling(e: Optional[ast.AST]) -> bool:
    if e is None:
        return False
    for n in ast.walk(e):
        if isinstance(n, ast.Attribute) and n.attr in REF_ATTRS:
            return True
    return False


def check_site(ctx, rule: str, fn: ast.AST, site: sub.Site, what: str, word_boundary_ok: Optional[str] = None) -> bool:
    """Apply the SUB rule to one site; returns ok.  A plain \\b left anchor is accepted only where ``word_boundary_ok``
    gives the (frozen) reason why no key can occur right after '.', '#' or '-' in the text being rewritten."""
    if site.kind == "plain":
        return ctx.ob(rule, site.call, False,
                      "%s is substituted with str.replace(%s, ...): unanchored, so a reference whose spelling is a "
                      "suffix/prefix of another one (A:ref in BA:ref or in stage0.A:ref, X:copy in X:copyout) rewrites "
                      "the other reference; the result depends on declaration order" % (what, short(site.key, 60)))
    pats = sub.resolve_pattern(fn, site.pattern)
    ok_all = True
    # every occurrence: the substitution is not limited by a count argument (pattern.sub(repl, text, count) / re.sub(p, repl, text, count))
    c_ = site.call
    is_module_sub = (call_name(c_) or "").startswith("re.")
    pos = 3 if is_module_sub else 2
    limit = c_.args[pos] if len(c_.args) > pos else next((k.value for k in c_.keywords if k.arg == "count"), None)
    unlimited = limit is None or (isinstance(limit, ast.Constant) and limit.value == 0)
    ctx.ob(rule, site.call, unlimited,
           "%s is substituted at every occurrence" % what if unlimited else
           "%s is substituted at most %s time(s) per string: a string that uses the same reference twice ('x:output vs x:output') keeps the "
           "second occurrence as it was - for a looped component the second loop-carried input still names the binding / the placeholder" % (
               what, short(limit, 10)), construct="%s <- no count limit" % short(site.call, 80))
    ok_all = ok_all and unlimited
    for (p, pfn, binds) in pats:
        info = sub.pattern_anchoring(p, pfn, binds)
        ok = bool(info["escaped_keys"]) and info["left"] and info["right"] and not info["raw_interpolation"]
        lk = str(info.get("left_kind") or "")
        wide = lk.startswith("wide:")
        weak = ok and lk != "strong" and not wide
        if weak and not word_boundary_ok:
            ok = False
        if wide:
            ok = False
        ok_all = ok_all and ok
        why = []
        if wide:
            why.append("the look-behind also excludes %s (a range inside the character class?): an occurrence that directly follows one of these "
                       "characters - '--inputs=stage0.A/a:ref,stage0.B/b:ref', \"sh -c 'cat stage0.A/out.txt:ref'\", '$((1+stage0.N:output))' - is "
                       "taken for the inside of a longer reference and stays in the command line verbatim" % " ".join(repr(c) for c in lk[5:]))
        if weak and not word_boundary_ok:
            why.append("the left anchor does not exclude all of '.', '#', '/' and word characters, which are legal inside a longer "
                       "reference: the key also matches inside 'stage1.<key>', '0#<key>', 'data/<key>' (or inside text inserted by an "
                       "earlier substitution)")
        if not info["escaped_keys"] or info["raw_interpolation"]:
            why.append("the reference text is interpolated into the regular expression without re.escape")
        if not info["left"]:
            why.append("no left anchor")
        if not info["right"]:
            why.append("no right anchor")
        ctx.ob(rule, site.call, ok,
               ("%s is substituted through a boundary-anchored, escaped pattern (%s)%s" % (
                   what, info["shape"], "; word-boundary anchor accepted: " + word_boundary_ok if weak else "")) if ok else
               ("%s is substituted through pattern %s: %s" % (what, info["shape"], "; ".join(why))),
               construct="%s / pattern %s" % (short(site.call, 100), info["shape"]))
    return ok_all


class Registration:
    """``table.setdefault(<spelling>, <value>)`` / ``table[<spelling>] = <value>``: the plan of a single-pass substitution."""

    def __init__(self, node: ast.AST, table: str, key: ast.AST, value: ast.AST):
        self.node, self.table, self.key, self.value = node, table, key, value


def find_registrations(fn: ast.AST) -> List[Registration]:
    out: List[Registration] = []
    for n in source.walk_own(fn):
        if isinstance(n, ast.Call) and isinstance(n.func, ast.Attribute) and n.func.attr == "setdefault" and len(n.args) == 2 \
                and isinstance(n.func.value, ast.Name) and key_is_reference_spelling(n.args[0]):
            out.append(Registration(n, n.func.value.id, n.args[0], n.args[1]))
        if isinstance(n, ast.Assign) and len(n.targets) == 1 and isinstance(n.targets[0], ast.Subscript) \
                and isinstance(n.targets[0].value, ast.Name) and key_is_reference_spelling(n.targets[0].slice) \
                and not (isinstance(n.value, ast.Call) and call_name(n.value) in ("min", "max", "sorted")):   # an ownership table, not a plan
            # ... nor a table that stores the reference OBJECT under its own spelling (the incremental form of an ownership table)
            key_owner = n.targets[0].slice.value if isinstance(n.targets[0].slice, ast.Attribute) else None
            if isinstance(n.value, ast.Name) and isinstance(key_owner, ast.Name) and key_owner.id == n.value.id:
                continue
            out.append(Registration(n, n.targets[0].value.id, n.targets[0].slice, n.value))
    return out


def check_contents_read_verbatim(ctx, g) -> None:
    RID = "C10.R8-file-contents-read-verbatim"
    resolve = g.func("DataReference.resolve")
    ctx.analysed(resolve)
    opens = [c for c in ast.walk(resolve) if isinstance(c, ast.Call) and isinstance(c.func, ast.Name) and c.func.id == "open" and c.args]
    ctx.floor(RID, len(opens), 2, "files opened in DataReference.resolve (:output and :loopoutput)")
    for c in opens:
        mode = c.args[1] if len(c.args) > 1 else next((k.value for k in c.keywords if k.arg == "mode"), None)
        binary = isinstance(mode, ast.Constant) and isinstance(mode.value, str) and "b" in mode.value
        no_translation = any(k.arg == "newline" and isinstance(k.value, ast.Constant) and k.value.value == "" for k in c.keywords)
        writes = isinstance(mode, ast.Constant) and isinstance(mode.value, str) and any(x in mode.value for x in "wax+")
        ok = binary or no_translation or writes
        ctx.ob(RID, c, ok,
               "the referenced file is read without newline translation" if ok else
               "DataReference.resolve reads %s in text mode (%s): universal newlines turn every '\\r\\n' and lone '\\r' of the file into '\\n' (a CRLF "
               "file, a progress meter written with '\\r'), and a strict decoder makes a file that is not valid UTF-8 count as missing - what is "
               "substituted is not the contents of the referenced file" % (short(c.args[0], 30), short(c, 60)),
               construct="resolve: open(<referenced file>, 'rb')")


def check_value_afresh(ctx, g, resolve_args: ast.AST) -> None:
    """R7: the value substituted for a reference is that reference's value *now*."""
    from vlib.cfg import CFG, own_calls
    rule = "C10.R7-value-computed-afresh"
    resolve = g.func("DataReference.resolve")
    ctx.analysed(resolve)
    n_nodes = 0
    for f, allowed in ((resolve, ()), (resolve_args, ())):
        eff = state.nonlocal_effects(f)
        n_nodes += sum(1 for _ in ast.walk(f))
        ctx.ob(rule, eff[0] if eff else f, not eff,
               "%s stores nothing that outlives the call" % f.name if not eff else
               "%s keeps state between calls (%s): a value (path, or contents of an :output file) remembered from an earlier "
               "resolution is substituted after the producer rewrote the file, so the command line no longer carries the "
               "contents of the referenced file" % (f.name, short(eff[0], 80)), construct="%s is stateless" % f.name)
    ctx.floor(rule, n_nodes, 300, "AST nodes of resolve/resolveArguments inspected")

    # the :output branch: the test comparing <..>.method with <..>.Output
    def is_output_test(t: ast.AST) -> Optional[str]:
        parts = match.compare_parts(t)
        if not parts:
            return None
        l, op, r = parts
        if not isinstance(op, (ast.Eq, ast.NotEq, ast.Is, ast.IsNot)):
            return None
        sides = (l, r)
        if any(isinstance(x, ast.Attribute) and x.attr == "Output" for x in sides) and any(isinstance(x, ast.Attribute) and x.attr == "method" for x in sides):
            return "T" if isinstance(op, (ast.Eq, ast.Is)) else "F"
        return None
    cfg = CFG(resolve)
    ctx.paths += cfg.paths_count()
    tests = match.test_nodes(cfg, is_output_test)
    ctx.require(bool(tests), "anchor missing: the test of the reference method against DataReference.Output in DataReference.resolve")
    rets = [n for n in cfg.nodes if n.kind == "stmt" and isinstance(n.ast, ast.Return) and n.ast.value is not None
            and match.only_via_edges(cfg, n, tests)]
    ctx.floor(rule, len(rets), 1, "return statements of the :output branch of DataReference.resolve")

    def opened_handles() -> dict:
        out = {}
        for w in source.walk_own(resolve):
            if isinstance(w, ast.With):
                for it in w.items:
                    if isinstance(it.context_expr, ast.Call) and (call_name(it.context_expr) or "").split(".")[-1] == "open" \
                            and isinstance(it.optional_vars, ast.Name):
                        out.setdefault(it.optional_vars.id, []).append(w)
        return out
    handles = opened_handles()
    PURE_STR = {"decode", "rstrip", "strip", "lstrip", "encode"}
    for rn in rets:
        bad = None
        ok = False
        seen = set()
        work = [(rn.id, rn.ast.value)]
        n_leaves = 0
        while work and bad is None:
            here, e = work.pop()
            if (here, id(e)) in seen:
                continue
            seen.add((here, id(e)))
            if isinstance(e, ast.Call) and isinstance(e.func, ast.Attribute) and e.func.attr in PURE_STR:
                work.append((here, e.func.value))
                continue
            if isinstance(e, ast.Call) and isinstance(e.func, ast.Attribute) and e.func.attr == "read" \
                    and isinstance(e.func.value, ast.Name) and e.func.value.id in handles:
                if any(x is e for w in handles[e.func.value.id] for x in ast.walk(w)):
                    n_leaves += 1
                    continue
                bad = "%s is read outside the with-block that opens it" % e.func.value.id
                break
            if isinstance(e, ast.Name):
                rd = flow.reaching_defs(cfg, e.id, ignore_labels=()).get(here, frozenset())
                if -1 in rd or not rd:
                    bad = "'%s' may be undefined or a parameter here" % e.id
                    break
                for d in rd:
                    v = flow.def_value(cfg, d, e.id)
                    if v is None:
                        bad = "'%s' is not defined by a plain assignment (%s)" % (e.id, short(cfg.nodes[d].ast, 50))
                        break
                    work.append((d, v))
                continue
            bad = "%s is not the contents just read" % short(e, 60)
        ok = bad is None and n_leaves > 0
        ctx.ob(rule, rn.ast, ok,
               "the :output value returned is <handle>.read() of a file opened in this call (through decode/strip only)" if ok else
               "the value returned for an :output reference is not, on every path, what was just read from the referenced file (%s): "
               "a rewrite of the file between two resolutions (same time stamp, or between the read and the bookkeeping) leaves the "
               "old contents on the command line" % bad, construct="return of the :output branch <- read() in this call")


def run(ctx) -> None:
    from vlib.cfg import CFG, own_calls
    ctx.explanation = (
        "SUB rule on ComponentSpecification.resolveArguments: every content-based substitution whose key is a reference "
        "spelling goes through an escaped, strongly anchored pattern; the replacement is the value resolved from the same "
        "reference and is inserted verbatim (through a callable); the stage-less relative spelling is used only when the "
        "absolute one is absent; inserted values are never rescanned for other references (single pass outside the loop "
        "over the references); the argument string is modified nowhere else. Decides these structural necessary "
        "conditions, not equality with an oracle substitution.")
    ctx.rule("C10.R1-anchored-substitution", "every substitution of a reference spelling in resolveArguments is escaped and boundary-anchored")
    ctx.rule("C10.R2-own-value", "each reference is replaced by the value resolved from that same reference")
    ctx.rule("C10.R3-only-substitutions-touch-arguments", "the argument string is assigned only from substitutions of declared "
                                                          "references, its initial read and the final variable fill-in")
    ctx.rule("C10.R4-one-spelling-per-reference", "the relative spelling (which carries no stage and can be shared by same-named "
             "producers of different stages) is registered only for the reference that owns it - decided before the substitution "
             "loop by a key of the reference alone - and also when the absolute spelling occurs in the same string")
    ctx.rule("C10.R5-verbatim-insertion", "the value is inserted verbatim: a regex substitution receives it through a callable (or "
             "with its backslashes escaped), never as a replacement *template* in which \\1, \\g<0>, \\n are interpreted")
    ctx.rule("C10.R6-no-rescan", "text inserted for one reference is never scanned for the other references: the string that is "
             "searched/rewritten is not modified inside the loop over the references (substitution in one pass)")
    ctx.rule("C10.R8-file-contents-read-verbatim", "the file behind an output-family reference is read as BYTES in DataReference.resolve (open mode with 'b', "
             "or text mode with newline=''): text mode translates '\\r\\n' and '\\r' into '\\n', so what is inserted would not be the contents of the file")
    ctx.rule("C10.R7-value-computed-afresh", "DataReference.resolve and resolveArguments remember nothing between calls (no store into "
             "the reference, its class or a module global; no memoising decorator), and what resolve returns for an :output "
             "reference is, on every path, the result of reading the referenced file in this very call")
    ctx.assume("look-around anchors with a class containing \\w . # / are accepted as strong boundaries")

    # the boundary classes mean what the SUB engine reads them as: the helpers that compile the whole-reference patterns pass no flag
    # that changes them - re.ASCII narrows \\w to [a-zA-Z0-9_], so 'é' before or after a reference counts as a delimiter and 'éA:ref'
    # (another producer) is rewritten; IGNORECASE / VERBOSE / LOCALE change the match as well (seed C10-14)
    BAD_FLAGS = {"A", "ASCII", "I", "IGNORECASE", "X", "VERBOSE", "L", "LOCALE"}
    flm10 = ctx.repo.module("python/experiment/model/frontends/flowir.py")
    n_comp = 0
    for q10, f10 in flm10.functions.items():
        if "." in q10:
            continue
        for r10 in [r for r in source.walk_own(f10) if isinstance(r, ast.Return) and isinstance(r.value, ast.Call) and call_name(r.value) == "re.compile"]:
            c10_ = r10.value
            if not any(isinstance(x, ast.Call) and call_name(x) == "re.escape" for x in ast.walk(c10_)) and "reference" not in f10.name:
                continue
            n_comp += 1
            ctx.analysed(f10)
            flags = list(c10_.args[1:]) + [k.value for k in c10_.keywords if k.arg == "flags"]
            bad = [x for fl_ in flags for x in ast.walk(fl_) if isinstance(x, ast.Attribute) and x.attr in BAD_FLAGS]
            inline = [x for x in ast.walk(c10_.args[0]) if isinstance(x, ast.Constant) and isinstance(x.value, str)
                      and any(x.value.startswith("(?" + ch) or ("(?" + ch) in x.value for ch in "aiLx")]
            ok10 = not bad and not inline
            ctx.ob("C10.R1-anchored-substitution", c10_, ok10,
                   "%s compiles its pattern without flags that change the boundary classes" % q10 if ok10 else
                   "%s compiles the reference pattern with %s: \\w in the look-arounds then stands for ASCII letters only (or the match ignores case / "
                   "white space), so a reference glued to a non-ASCII word character - 'caféA:ref', 'éA:ref' of another producer - is rewritten "
                   "although it is not an occurrence of the declared reference" % (q10, short((bad or inline)[0], 30)),
                   construct="%s: re.compile(<pattern>) without narrowing flags" % q10)
    ctx.require(n_comp >= 2, "anchor missing: the helpers of flowir.py that compile the whole-reference patterns (found %d)" % n_comp)

    g = ctx.repo.module(GRAPH)
    fn = g.func("ComponentSpecification.resolveArguments")
    ctx.analysed(fn)
    cfg = CFG(fn)
    ctx.paths += cfg.paths_count()
    def over_references(it: ast.AST) -> bool:
        if "dataReferences" in source.src(it):
            return True
        return isinstance(it, ast.Name) and any("dataReferences" in source.src(v) for v in match.assigned_value(fn, it.id))
    loops = [n for n in source.walk_own(fn) if isinstance(n, ast.For) and over_references(n.iter)]
    ctx.require(bool(loops), "anchor missing: loop over self.dataReferences in resolveArguments")
    # the substitution loop is the one that resolves the references (an ownership table may be filled by an earlier loop)
    resolving = [lp for lp in loops if any(isinstance(c, ast.Call) and last_attr(c) == "resolve" for c in ast.walk(lp))]
    loop = (resolving or loops)[0]
    loopvar = loop.target.id if isinstance(loop.target, ast.Name) else None

    regs = find_registrations(fn)
    tables = {r.table for r in regs}
    sites = [s for s in sub.find_sites(fn) if not sub.is_literal_key(s)]

    def regex_keys(s):
        out = []
        for (p, pfn, binds) in sub.resolve_pattern(fn, s.pattern):
            out.extend(sub.pattern_anchoring(p, pfn, binds)["escaped_key_nodes"])
            out.extend(binds.values())
            out.append(p)
        return out

    def is_table(k) -> bool:
        """the spelling table itself, or a variable iterating over its keys"""
        if not isinstance(k, ast.Name):
            return False
        if k.id in tables:
            return True
        for lp in source.walk_own(fn):
            if isinstance(lp, ast.For):
                tg = lp.target.elts[0] if isinstance(lp.target, ast.Tuple) and lp.target.elts else lp.target
                if isinstance(tg, ast.Name) and tg.id == k.id and any(isinstance(x, ast.Name) and x.id in tables for x in ast.walk(lp.iter)):
                    return True
            # a key unpacked from the table: (spelling, value), = table.items()
            if isinstance(lp, ast.Assign) and any(isinstance(x, ast.Name) and x.id in tables for x in ast.walk(lp.value)) and any(
                    isinstance(x, ast.Name) and x.id == k.id and isinstance(x.ctx, ast.Store) for t in lp.targets if not isinstance(t, ast.Name) for x in ast.walk(t)):
                return True
        return False
    ref_sites = [s for s in sites if key_is_reference_spelling(s.key if s.kind == "plain" else None) or (s.kind == "plain" and is_table(s.key)) or
                 (s.kind == "regex" and any(key_is_reference_spelling(k) or is_table(k) for k in regex_keys(s)))]
    table_sites = [s for s in ref_sites if s.kind == "regex" and any(is_table(k) for k in regex_keys(s))]
    legacy_sites = [s for s in ref_sites if s not in table_sites]
    ctx.floor("C10.R1-anchored-substitution", len(ref_sites), 1, "reference substitutions in resolveArguments")
    ctx.floor("C10.R2-own-value", len(regs) + len(legacy_sites), 2, "registrations / substitutions of a reference's value")

    def in_loop(node: ast.AST) -> bool:
        return any(node is x for x in ast.walk(loop))

    # locals that hold the value resolved from the loop's reference: assigned from <loopvar>.resolve(..), or from another
    # such local (possibly `x or ""`); identified by their definitions, not by their names
    own_names = set()
    changed = True
    while changed:
        changed = False
        for n in source.walk_own(fn):
            if isinstance(n, ast.Assign) and len(n.targets) == 1 and isinstance(n.targets[0], ast.Name) and n.targets[0].id not in own_names:
                v = n.value
                cands = list(v.values) if isinstance(v, ast.BoolOp) else [v]
                if any((isinstance(c, ast.Call) and last_attr(c) == "resolve" and dotted(c.func.value) == loopvar)
                       or (isinstance(c, ast.Name) and c.id in own_names) for c in cands):
                    own_names.add(n.targets[0].id)
                    changed = True

    def value_is_own(v: ast.AST) -> bool:
        if isinstance(v, ast.Lambda):
            v = v.body
        return isinstance(v, ast.Name) and v.id in own_names

    def key_root_is_loopvar(k: Optional[ast.AST]) -> bool:
        root = k
        while isinstance(root, ast.Attribute):
            root = root.value
        return isinstance(root, ast.Name) and root.id == loopvar

    # ---------------- R1 -------------------------------------------------------------------------------
    for s in ref_sites:
        check_site(ctx, "C10.R1-anchored-substitution", fn, s, "a declared reference")

    # ---------------- R2 -------------------------------------------------------------------------------
    for r in regs:
        ok = in_loop(r.node) and key_root_is_loopvar(r.key) and value_is_own(r.value)
        ctx.ob("C10.R2-own-value", r.node, ok,
               "the spelling of the loop's reference is registered with that reference's resolved value" if ok else
               "a spelling is registered with something other than the value resolved from the same reference",
               construct=short(r.node, 110) + " <- own value")
    for s in table_sites:
        v = s.value
        body = v.body if isinstance(v, ast.Lambda) else None
        ok = isinstance(body, ast.Subscript) and isinstance(body.value, ast.Name) and body.value.id in tables \
            and isinstance(body.slice, ast.Call) and last_attr(body.slice) == "group" and isinstance(v, ast.Lambda) \
            and v.args.args and dotted(body.slice.func.value) == v.args.args[0].arg \
            and (not body.slice.args or (isinstance(body.slice.args[0], ast.Constant) and body.slice.args[0].value == 0))
        ctx.ob("C10.R2-own-value", s.call, ok,
               "the single pass replaces each matched spelling by the value registered for exactly that spelling" if ok else
               "the single-pass substitution does not look the value up by the matched spelling (table[m.group(0)])",
               construct=short(s.call, 110) + " <- value of the matched spelling")
    for s in legacy_sites:
        keyexpr = s.key if s.kind == "plain" else None
        if keyexpr is None:
            cands = [k for k in regex_keys(s) if key_is_reference_spelling(k)]
            keyexpr = cands[0] if cands else None
        ok = key_root_is_loopvar(keyexpr) and value_is_own(s.value)
        ctx.ob("C10.R2-own-value", s.call, ok,
               "the key is a spelling of the loop's reference and the replacement is that reference's resolved value" if ok else
               "the replacement is not (provably) the value resolved from the reference whose spelling is replaced",
               construct=short(s.call, 120) + " <- own value")

    # R2, freshness: the value that is registered was computed for THIS reference - every path from the start of a loop iteration
    # to a registration (exception handlers included) assigns the value local; nothing is carried over from the previous reference
    loop_nodes = [n for n in cfg.nodes if n.kind == "for" and n.ast is loop]
    ctx.require(bool(loop_nodes), "cannot locate the CFG node of the loop over the references")
    body_first = [m for (m, lab) in loop_nodes[0].succ if m.ast is not None and any(m.ast is x or any(m.ast is y for y in ast.walk(x)) for x in loop.body)]
    for r in regs:
        vnames = {x.id for x in ast.walk(r.value) if isinstance(x, ast.Name) and x.id in own_names}
        rn = [n for n in cfg.nodes if n.ast is not None and n.kind in ("stmt", "test") and (n.ast is r.node or any(c is r.node for c in own_calls(n.ast)))]
        if not vnames or not rn or not body_first:
            continue
        for vn in sorted(vnames):
            defs = [n for n in cfg.nodes if n.kind == "stmt" and isinstance(n.ast, ast.Assign) and any(
                isinstance(t, ast.Name) and t.id == vn for t in n.ast.targets) and any(n.ast is x for x in ast.walk(loop))
                and vn not in source.names_in(n.ast.value)]     # 'x = x or ""' passes the old value on: not a fresh definition
            # an assignment whose right-hand side raised did not happen: leave such a node through its exception edge unblocked
            reach = cfg.reach(body_first, blocked=[], blocked_edges=[(d.id, lab) for d in defs for (m, lab) in d.succ if lab != "exc"])
            ok = rn[0].id not in reach
            ctx.ob("C10.R2-own-value", r.node, ok,
                   "'%s' is assigned on every path of the iteration that reaches this registration" % vn if ok else
                   "a path through the loop body reaches this registration without assigning '%s' (for instance through the handler of a "
                   "failed resolve()): the value that is substituted for this reference is the one left over from the reference declared "
                   "before it - and depends on the declaration order" % vn,
                   construct=short(r.node, 90) + " <- %s assigned in this iteration" % vn)

    # ---------------- R5 -------------------------------------------------------------------------------
    def verbatim(e: ast.AST) -> bool:
        if isinstance(e, ast.Lambda):
            return True
        if isinstance(e, ast.Name) and any(isinstance(d, ast.FunctionDef) and d.name == e.id for d in ast.walk(fn)):
            return True
        if isinstance(e, ast.Constant) and isinstance(e.value, str) and "\\" not in e.value:
            return True
        if isinstance(e, ast.Call) and isinstance(e.func, ast.Attribute) and e.func.attr == "replace" and len(e.args) == 2 \
                and isinstance(e.args[0], ast.Constant) and e.args[0].value == "\\" \
                and isinstance(e.args[1], ast.Constant) and e.args[1].value == "\\\\":
            return True
        return False
    for s in ref_sites:
        if s.kind != "regex":
            continue
        v = s.value
        vals = [v]
        if isinstance(v, ast.Name):
            vals = match.assigned_value(fn, v.id) or [v]
        ok = all(verbatim(x) for x in vals)
        ctx.ob("C10.R5-verbatim-insertion", s.call, ok,
               "the reference's value reaches re.sub through a callable: it is inserted as is" if ok else
               "the reference's value is passed to re.sub as a replacement template (%s): backslashes in a path or in the contents "
               "of an :output file are interpreted ('\\n' becomes a newline, '\\1' a group reference, 'C:\\data' raises re.error) "
               "instead of being inserted verbatim" % short(v, 40), construct=short(s.call, 100) + " <- verbatim")

    # ---------------- R3 / R6 --------------------------------------------------------------------------
    # the argument string: the local initialised from <..>.get('arguments')
    arg_names = {t.id for n in source.walk_own(fn) if isinstance(n, ast.Assign) and isinstance(n.value, ast.Call) and last_attr(n.value) == "get"
                 and n.value.args and isinstance(n.value.args[0], ast.Constant) and n.value.args[0].value == "arguments"
                 for t in n.targets if isinstance(t, ast.Name)}
    ctx.require(bool(arg_names), "anchor missing: <local> = ....get('arguments') in resolveArguments")
    arg_assigns = [n for n in source.walk_own(fn) if isinstance(n, ast.Assign)
                   and any(isinstance(t, ast.Name) and t.id in arg_names for t in n.targets)]
    for n in arg_assigns:
        v = n.value
        is_site = any(v is s.call for s in sites)
        is_init = isinstance(v, ast.Call) and last_attr(v) == "get" and v.args and isinstance(v.args[0], ast.Constant) \
            and v.args[0].value == "arguments"
        is_fill = isinstance(v, ast.Call) and last_attr(v) == "fill_in"
        ok = is_site or is_init
        if is_fill:
            # the variable fill-in is legitimate on the text the user wrote, but not on text that was inserted for a reference: it must
            # not be reachable after a substitution site (the contents of an :output file would be scanned for %(variable)s)
            fn_nodes = [x for x in cfg.nodes if x.kind == "stmt" and x.ast is n]
            sub_nodes = [x for x in cfg.nodes if x.kind == "stmt" and isinstance(x.ast, ast.Assign) and any(x.ast.value is s_.call for s_ in sites)]
            after = bool(fn_nodes) and bool(sub_nodes) and any(fn_nodes[0].id in cfg.reach([sn_], include_starts=False) for sn_ in sub_nodes)
            ctx.ob("C10.R3-only-substitutions-touch-arguments", n, not after,
                   "the variable fill-in runs on the text the user wrote, before any reference value is inserted" if not after else
                   "after the references were substituted the whole string - inserted values included - passes through FlowIR.fill_in: the "
                   "contents '100%(foo)s' of an :output file become '100bar' when the consumer has a variable foo=bar, i.e. the reference is "
                   "not replaced by the contents of the referenced file",
                   construct="%s <- not applied to inserted values" % short(n, 80))
            continue
        ctx.ob("C10.R3-only-substitutions-touch-arguments", n, ok,
               "arguments assigned from %s" % ("a reference substitution" if is_site else "its initial value")
               if ok else "the argument string is rewritten by something other than a reference substitution",
               trivial=not is_site)
        if is_site:
            # inside the loop over the references - or inside ANY loop: a second pass scans what the first one inserted
            inside = in_loop(n) or any(isinstance(a_, (ast.For, ast.While)) for a_ in source.ancestors(n))
            ctx.ob("C10.R6-no-rescan", n, not inside,
                   "the references are substituted in one pass after the loop over the references" if not inside else
                   "the argument string is rewritten inside the loop over the references: the text inserted for one reference (the "
                   "contents of an :output file, a path) is searched again for the references processed later - "
                   "references [A/note.txt:output, B:ref] with note.txt containing 'see B:ref' give a different result than "
                   "[B:ref, A/note.txt:output]", construct=short(n, 90) + " <- outside the reference loop")
    # ... and at most one substitution of the argument string lies on any path (two consecutive passes re-scan as well)
    site_nodes = [x for x in cfg.nodes if x.kind == "stmt" and any(x.ast is n_ for n_ in arg_assigns) and any(x.ast.value is s_.call for s_ in sites)]
    if site_nodes:
        rng = cfg.count_range(lambda nd: nd in site_nodes, ignore_labels=("exc",))
        lo_hi = rng.get(cfg.exit.id, (0, 0))
        ctx.ob("C10.R6-no-rescan", site_nodes[0].ast, lo_hi[1] <= 1,
               "at most one substitution of the argument string lies on any path" if lo_hi[1] <= 1 else
               "the argument string passes through %d reference substitutions on one path: the second scans the text the first inserted - an "
               ":output file containing 'see B:ref' has its contents rewritten when B:ref is substituted afterwards" % lo_hi[1],
               construct="reference substitutions of the argument string per path <= 1")
    n_site_assign = sum(1 for n in arg_assigns if any(n.value is s.call for s in sites))
    ctx.floor("C10.R6-no-rescan", n_site_assign, 1, "assignments of the argument string from a reference substitution")

    # ---------------- R4 -------------------------------------------------------------------------------
    def spelling_of(e: ast.AST, depth: int = 0) -> Optional[str]:
        """'absolute' / 'relative' when the expression e is built from that spelling of the loop's reference."""
        if e is None or depth > 4:
            return None
        for n in ast.walk(e):
            if isinstance(n, ast.Attribute) and n.attr in ("absoluteReference", "relativeReference"):
                return "absolute" if n.attr == "absoluteReference" else "relative"
        if isinstance(e, ast.Name):
            kinds = {spelling_of(v, depth + 1) for v in match.assigned_value(fn, e.id)}
            kinds.discard(None)
            if len(kinds) == 1:
                return kinds.pop()
        return None

    def search_call_spelling(c: ast.AST) -> Optional[str]:
        if isinstance(c, ast.Call) and isinstance(c.func, ast.Attribute) and c.func.attr in ("search", "match", "findall", "finditer"):
            k = spelling_of(c.func.value)
            if k is None and c.args:
                k = spelling_of(c.args[0])
            return k
        if isinstance(c, ast.Compare) and len(c.ops) == 1 and isinstance(c.ops[0], (ast.In, ast.NotIn)):
            return spelling_of(c.left)
        return None

    def found_label(t: ast.AST, which: str) -> Optional[str]:
        """edge label of test t on which the `which` spelling was FOUND in the arguments."""
        if isinstance(t, ast.Compare) and len(t.ops) == 1 and isinstance(t.comparators[0], ast.Constant) \
                and t.comparators[0].value is None and search_call_spelling(t.left) == which:
            return "T" if isinstance(t.ops[0], (ast.IsNot, ast.NotEq)) else "F"
        if isinstance(t, ast.Compare) and len(t.ops) == 1 and isinstance(t.ops[0], (ast.In, ast.NotIn)) and spelling_of(t.left) == which:
            return "T" if isinstance(t.ops[0], ast.In) else "F"
        if search_call_spelling(t) == which and isinstance(t, ast.Call):
            return "T"
        return None

    abs_tests = match.test_nodes(cfg, lambda t: found_label(t, "absolute"))
    rel_uses: List[ast.AST] = [r.node for r in regs if spelling_of(r.key) == "relative"]
    rel_uses += [s.call for s in legacy_sites if spelling_of(s.pattern if s.kind == "regex" else s.key) == "relative"]
    ctx.floor("C10.R4-one-spelling-per-reference", len(rel_uses), 2, "uses of the relative spelling (registrations / substitutions)")

    # who owns a relative spelling: a table filled before the substitution loop, D[<ref>.relativeReference] = min(.., key=f(ref))
    owner_tables = {}
    for n in source.walk_own(fn):
        if isinstance(n, ast.Assign) and len(n.targets) == 1 and isinstance(n.targets[0], ast.Subscript) and isinstance(n.targets[0].value, ast.Name) \
                and spelling_of(n.targets[0].slice) == "relative" and isinstance(n.value, ast.Call) and call_name(n.value) in ("min", "max", "sorted"):
            owner_tables[n.targets[0].value.id] = n
    for tname, node in owner_tables.items():
        key = next((k.value for k in node.value.keywords if k.arg == "key"), None)
        ok = isinstance(key, ast.Lambda) and len(key.args.args) == 1
        if ok:
            prm = key.args.args[0].arg
            loop_bound = {x.id for lp2 in source.walk_own(fn) if isinstance(lp2, ast.For) for x in ast.walk(lp2.target) if isinstance(x, ast.Name)}
            used = {x.id for x in ast.walk(key.body) if isinstance(x, ast.Name)} - {prm}
            ok = not (used & loop_bound) and not any(isinstance(c, ast.Call) and call_name(c) in ("enumerate", "id", "len") for c in ast.walk(key.body))
        ctx.ob("C10.R4-one-spelling-per-reference", node, ok,
               "the owner of a relative spelling is chosen by a key of the reference alone (its stage against the component's stage)" if ok else
               "the owner of a relative spelling is chosen by something that depends on the position of the reference: the outcome depends on the "
               "declaration order", construct=short(node, 100) + " <- order-independent choice")

    # the incremental form:  for ref in refs: owner = D.get(ref.relativeReference); if P(ref, owner): D[ref.relativeReference] = ref
    # P must hold when there is no owner yet or ref is strictly better under the key (stage != own stage, stage), and must not hold when
    # the owner is strictly better: then the final owner is the minimum whatever the declaration order.  Decided on the truth table
    # of P over the atoms  N: owner is None, A/B: ref/owner is in the component's own stage, C/D: stage(ref) </> stage(owner).
    from vlib import boolx
    for lp_ in [x for x in source.walk_own(fn) if isinstance(x, ast.For) and isinstance(x.target, ast.Name)]:
        rv = lp_.target.id
        for st in ast.walk(lp_):
            if not (isinstance(st, ast.Assign) and len(st.targets) == 1 and isinstance(st.targets[0], ast.Subscript)
                    and isinstance(st.targets[0].value, ast.Name) and spelling_of(st.targets[0].slice) == "relative"
                    and isinstance(st.value, ast.Name) and st.value.id == rv and st.targets[0].value.id not in owner_tables):
                continue
            tname = st.targets[0].value.id
            owner_tables[tname] = st
            guards = [i for i in ast.walk(lp_) if isinstance(i, ast.If) and any(st is x for b in i.body for x in ast.walk(b))]
            ovars = {n_.targets[0].id for n_ in ast.walk(lp_) if isinstance(n_, ast.Assign) and len(n_.targets) == 1 and isinstance(n_.targets[0], ast.Name)
                     and isinstance(n_.value, ast.Call) and last_attr(n_.value) == "get" and isinstance(n_.value.func.value, ast.Name)
                     and n_.value.func.value.id == tname}
            own_names = {x for x in match.locals_where(fn, lambda v: (dotted(v) or "").endswith("identification.stageIndex"))}

            def stage_expr(e: ast.AST) -> Optional[str]:
                """'ref' / 'owner' when e is the stage of that object: X.stageIndex, or a one-argument local helper applied to X"""
                if isinstance(e, ast.Attribute) and e.attr == "stageIndex" and isinstance(e.value, ast.Name):
                    return "ref" if e.value.id == rv else "owner" if e.value.id in ovars else None
                if isinstance(e, ast.Call) and isinstance(e.func, ast.Name) and len(e.args) == 1 and isinstance(e.args[0], ast.Name):
                    return "ref" if e.args[0].id == rv else "owner" if e.args[0].id in ovars else None
                return None

            def atomise(e: ast.AST):
                cp_ = match.compare_parts(e)
                if not cp_:
                    return None
                l_, op_, r_ = cp_
                if isinstance(l_, ast.Name) and l_.id in ovars and isinstance(r_, ast.Constant) and r_.value is None:
                    return ("N", isinstance(op_, (ast.Is, ast.Eq)))
                for a_, b_ in ((l_, r_), (r_, l_)):
                    if isinstance(b_, ast.Name) and b_.id in own_names and stage_expr(a_) and isinstance(op_, (ast.Eq, ast.NotEq)):
                        return ("A" if stage_expr(a_) == "ref" else "B", isinstance(op_, ast.Eq))
                sl, sr = stage_expr(l_), stage_expr(r_)
                if sl and sr and sl != sr:
                    lt_ref = (sl == "ref")          # the left operand is the reference's stage
                    if isinstance(op_, ast.Lt):
                        return ("C", True) if lt_ref else ("D", True)
                    if isinstance(op_, ast.Gt):
                        return ("D", True) if lt_ref else ("C", True)
                    if isinstance(op_, ast.LtE):
                        return ("D", False) if lt_ref else ("C", False)
                    if isinstance(op_, ast.GtE):
                        return ("C", False) if lt_ref else ("D", False)
                return None
            verdict, why = True, ""
            if len(guards) != 1:
                verdict, why = False, "the assignment is not under exactly one guard"
            else:
                P = guards[0].test
                try:
                    for N in (True, False):
                        for A in (True, False):
                            for B in (True, False):
                                for C in (True, False):
                                    for D in (True, False):
                                        if (C and D) or (A and B and (C or D)):
                                            continue
                                        val = boolx.evaluate(P, {"N": N, "A": A, "B": B, "C": C, "D": D}, atomise)
                                        better = (A and not B) or ((A == B) and C)
                                        worse = (B and not A) or ((A == B) and D)
                                        if N and not val:
                                            verdict, why = False, "the first candidate is not recorded"
                                        if not N and better and not val:
                                            verdict, why = False, "a strictly better candidate (own stage first, then the lowest stage) does not replace the owner"
                                        if not N and worse and val:
                                            verdict, why = False, ("a worse candidate replaces the owner (e.g. a lower-stage reference declared after the own-stage "
                                                                   "one takes the relative spelling away from it)")
                except boolx.Unrecognised as u_:
                    verdict, why = False, "its guard contains a condition the rule cannot interpret (%s)" % u_
            ctx.ob("C10.R4-one-spelling-per-reference", st, verdict,
                   "the owner of a relative spelling is updated exactly when the new reference is better under (own stage first, lowest stage): "
                   "order-independent" if verdict else
                   "the owner of a relative spelling is chosen incrementally and %s: which reference owns 'A:ref' - and whose value replaces it - "
                   "depends on the declaration order of the references" % why,
                   construct=short(st, 100) + " <- order-independent choice")

    def owns_label(t: ast.AST) -> Optional[str]:
        """edge label on which THIS reference owns its relative spelling:  D[<ref>.relativeReference] is <ref>  (through locals)"""
        t = match.resolve_local(fn, t) if isinstance(t, ast.Name) else t
        neg = False
        if isinstance(t, ast.Compare) and len(t.ops) == 1 and isinstance(t.comparators[0], ast.Constant) and isinstance(t.comparators[0].value, bool):
            # owns_relative is False / is True
            inner = owns_label(t.left)
            if inner is None:
                return None
            same = isinstance(t.ops[0], (ast.Is, ast.Eq)) == t.comparators[0].value
            return inner if same else match.other(inner)
        cp = match.compare_parts(t)
        if cp and isinstance(cp[1], (ast.Is, ast.IsNot, ast.Eq, ast.NotEq)):
            for a, b in ((cp[0], cp[2]), (cp[2], cp[0])):
                if isinstance(a, ast.Subscript) and isinstance(a.value, ast.Name) and a.value.id in owner_tables and spelling_of(a.slice) == "relative" \
                        and isinstance(b, ast.Name) and b.id == loopvar:
                    return "T" if isinstance(cp[1], (ast.Is, ast.Eq)) else "F"
        return None
    own_tests = match.test_nodes(cfg, owns_label)
    for u in rel_uses:
        nodes = [n for n in cfg.nodes if n.ast is not None and n.kind in ("stmt", "test")
                 and (n.ast is u or any(c is u for c in own_calls(n.ast)))]
        ctx.require(bool(nodes), "cannot locate the CFG node of %s" % short(u, 60))
        ok = bool(owner_tables) and bool(own_tests) and all(match.only_via_edges(cfg, n, own_tests) for n in nodes)
        ctx.ob("C10.R4-one-spelling-per-reference", u, ok,
               "the relative spelling is registered only for the reference that owns it (own stage first, decided before the loop)" if ok else
               "the relative spelling, which carries no stage, is registered for a reference without deciding whether the spelling belongs to "
               "it: with references [stage0.A:ref, stage1.A:ref] in a stage-1 component 'A:ref' gets the value of whichever reference is "
               "declared first (or, when every reference registers it, of the first one) - the result depends on the declaration order",
               construct=short(u, 100) + " <- this reference owns the relative spelling")
    # every occurrence in either spelling: a reference that was found under its absolute spelling must still be able to register the
    # relative one - the relative registration may not be confined to the 'absolute spelling absent' side
    absent = [(n, match.other(l)) for n, l in abs_tests]
    for u in rel_uses:
        nodes = [n for n in cfg.nodes if n.ast is not None and n.kind in ("stmt", "test")
                 and (n.ast is u or any(c is u for c in own_calls(n.ast)))]
        excl = bool(absent) and all(match.only_via_edges(cfg, n, absent) for n in nodes)
        ctx.ob("C10.R4-one-spelling-per-reference", u, not excl,
               "the relative spelling is substituted also when the absolute one occurs in the same string" if not excl else
               "the relative spelling is registered only when the absolute spelling is absent: in 'stage1.A:ref A:ref' (one reference, both "
               "spellings) the relative occurrence is left in the text", construct=short(u, 100) + " <- not only when the absolute spelling is absent")

    check_value_afresh(ctx, g, fn)
    check_contents_read_verbatim(ctx, g)

    if ctx.tier == "thorough":
        # information only: the same idiom elsewhere in the repository (outside the property's scope)
        n_other = 0
        for m in ctx.repo.modules():
            for q, f in m.functions.items():
                if m.rel == GRAPH and q == "ComponentSpecification.resolveArguments":
                    continue
                for s in sub.find_sites(f, include_nested=False):
                    if s.kind == "plain" and key_is_reference_spelling(s.key):
                        n_other += 1
                        ctx.note("unanchored reference substitution outside resolveArguments (not part of C10): %s:%d %s %s"
                                 % (m.rel, s.call.lineno, q, short(s.call, 80)))
        ctx.extra["other_unanchored_reference_substitutions"] = n_other
