"""C10 - command-line reference substitution is exact.  See DESIGN.md section C10 and the SUB engine."""
from __future__ import annotations

import ast
from typing import List, Optional

from vlib import match, source, sub
from vlib.source import AnalysisError, call_name, dotted, last_attr, short

GRAPH = "python/experiment/model/graph.py"
REF_ATTRS = ("absoluteReference", "relativeReference", "stringRepresentation")


def key_is_reference_spelling(e: Optional[ast.AST]) -> bool:
    if e is None:
        return False
    for n in ast.walk(e):
        if isinstance(n, ast.Attribute) and n.attr in REF_ATTRS:
            return True
    return False


def check_site(ctx, rule: str, fn: ast.AST, site: sub.Site, what: str, word_boundary_ok: Optional[str] = None) -> bool:
    """Apply the SUB rule to one site; returns ok.  A plain \\b left anchor is accepted only where ``word_boundary_ok``
    gives the (frozen) reason why no key can occur right after '.', '#' or '-' in the text being rewritten."""
    if site.kind == "plain":
        return ctx.ob(rule, site.call, False,
                      "%s is substituted with str.replace(%s, ...): unanchored, so a reference whose spelling is a "
                      "suffix/prefix of another one (A:ref in BA:ref or in stage0.A:ref, X:copy in X:copyout) rewrites "
                      "the other reference; the result depends on declaration order" % (what, short(site.key, 60)))
    pats = sub.resolve_pattern(fn, site.pattern)
    ok_all = True
    for (p, pfn, binds) in pats:
        info = sub.pattern_anchoring(p, pfn, binds)
        ok = bool(info["escaped_keys"]) and info["left"] and info["right"] and not info["raw_interpolation"]
        weak = ok and info.get("left_kind") != "strong"
        if weak and not word_boundary_ok:
            ok = False
        ok_all = ok_all and ok
        why = []
        if weak and not word_boundary_ok:
            why.append("the left anchor is only a word boundary: '.', '#' and '-' are legal inside references, so the key also "
                       "matches inside 'stage1.<key>', '0#<key>' or 'x-<key>' (e.g. inside text inserted by an earlier substitution)")
        if not info["escaped_keys"] or info["raw_interpolation"]:
            why.append("the reference text is interpolated into the regular expression without re.escape")
        if not info["left"]:
            why.append("no left anchor")
        if not info["right"]:
            why.append("no right anchor")
        ctx.ob(rule, site.call, ok,
               ("%s is substituted through a boundary-anchored, escaped pattern (%s)%s" % (
                   what, info["shape"], "; word-boundary anchor accepted: " + word_boundary_ok if weak else "")) if ok else
               ("%s is substituted through pattern %s: %s" % (what, info["shape"], "; ".join(why))),
               construct="%s / pattern %s" % (short(site.call, 100), info["shape"]))
    return ok_all


def run(ctx) -> None:
    ctx.explanation = (
        "SUB rule on ComponentSpecification.resolveArguments: every content-based substitution whose key is a reference "
        "spelling must go through an escaped, boundary-anchored pattern (then the loop over the declared references is "
        "order independent); the replacement must be the value resolved from the same reference; the argument string is "
        "modified nowhere else. Decides the structural necessary condition, not equality with an oracle substitution.")
    ctx.rule("C10.R1-anchored-substitution", "every substitution of a reference spelling in resolveArguments is escaped and boundary-anchored")
    ctx.rule("C10.R2-own-value", "each reference is replaced by the value resolved from that same reference")
    ctx.rule("C10.R3-only-substitutions-touch-arguments", "the argument string is assigned only from substitutions of declared "
                                                          "references, its initial read and the final variable fill-in")
    ctx.assume("\\b / look-around anchors are accepted as boundaries (the idiom of rewrite_all_references and "
               "_compute_memoization_info)")

    g = ctx.repo.module(GRAPH)
    fn = g.func("ComponentSpecification.resolveArguments")
    ctx.analysed(fn)
    sites = [s for s in sub.find_sites(fn) if not sub.is_literal_key(s)]
    def regex_keys(s):
        out = []
        for (p, pfn, binds) in sub.resolve_pattern(fn, s.pattern):
            out.extend(sub.pattern_anchoring(p, pfn, binds)["escaped_key_nodes"])
            out.extend(binds.values())
            out.append(p)
        return out
    ref_sites = [s for s in sites if key_is_reference_spelling(s.key if s.kind == "plain" else None) or
                 (s.kind == "regex" and any(key_is_reference_spelling(k) for k in regex_keys(s)))]
    ctx.floor("C10.R1-anchored-substitution", len(ref_sites), 2, "reference substitutions in resolveArguments")

    loops = [n for n in source.walk_own(fn) if isinstance(n, ast.For) and "dataReferences" in source.src(n.iter)]
    ctx.require(bool(loops), "anchor missing: loop over self.dataReferences in resolveArguments")
    loop = loops[0]
    loopvar = loop.target.id if isinstance(loop.target, ast.Name) else None

    for s in ref_sites:
        check_site(ctx, "C10.R1-anchored-substitution", fn, s, "a declared reference")
        # R2
        keyexpr = s.key if s.kind == "plain" else None
        if keyexpr is None:
            cands = [k for k in regex_keys(s) if key_is_reference_spelling(k)]
            keyexpr = cands[0] if cands else None
        root = keyexpr
        while isinstance(root, ast.Attribute):
            root = root.value
        key_ok = isinstance(root, ast.Name) and root.id == loopvar
        val = s.value
        if isinstance(val, ast.Lambda):
            val = val.body
        val_ok = False
        if isinstance(val, ast.Name):
            names = {val.id}
            for v in match.assigned_value(fn, val.id):
                if isinstance(v, ast.Name):
                    names.add(v.id)
            if "reference_value" in names:
                rv = match.assigned_value(fn, "reference_value")
                val_ok = any(isinstance(v, ast.Call) and last_attr(v) == "resolve" and dotted(v.func.value) == loopvar
                             for v in rv)
        ctx.ob("C10.R2-own-value", s.call, key_ok and val_ok,
               "the key is a spelling of the loop's reference and the replacement is that reference's resolved value"
               if key_ok and val_ok else
               "the replacement is not (provably) the value resolved from the reference whose spelling is replaced",
               construct=short(s.call, 120) + " <- own value")
    # R3: who assigns `arguments`
    for n in source.walk_own(fn):
        if isinstance(n, ast.Assign) and any(isinstance(t, ast.Name) and t.id == "arguments" for t in n.targets):
            v = n.value
            is_site = any(v is s.call for s in sites)
            is_init = isinstance(v, ast.Call) and last_attr(v) == "get" and v.args and isinstance(v.args[0], ast.Constant) \
                and v.args[0].value == "arguments"
            is_fill = isinstance(v, ast.Call) and last_attr(v) == "fill_in"
            ok = is_site or is_init or is_fill
            ctx.ob("C10.R3-only-substitutions-touch-arguments", n, ok,
                   "arguments assigned from %s" % ("a reference substitution" if is_site else "its initial value" if is_init else "fill_in")
                   if ok else "the argument string is rewritten by something other than a reference substitution",
                   trivial=not is_site)

    if ctx.tier == "thorough":
        # information only: the same idiom elsewhere in the repository (outside the property's scope)
        n_other = 0
        for m in ctx.repo.modules():
            for q, f in m.functions.items():
                if m.rel == GRAPH and q == "ComponentSpecification.resolveArguments":
                    continue
                for s in sub.find_sites(f, include_nested=False):
                    if s.kind == "plain" and key_is_reference_spelling(s.key):
                        n_other += 1
                        ctx.note("unanchored reference substitution outside resolveArguments (not part of C10): %s:%d %s %s"
                                 % (m.rel, s.call.lineno, q, short(s.call, 80)))
        ctx.extra["other_unanchored_reference_substitutions"] = n_other
