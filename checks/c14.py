"""C14 - experiment state files are updated atomically and read back faithfully (ATOM engine).  DESIGN.md section C14."""
from __future__ import annotations

import ast
from typing import Dict, List, Optional, Tuple

from vlib import match, source
from vlib.cfg import CFG, Node, own_calls
from vlib.source import AnalysisError, call_name, dotted, last_attr, short

DATA = "python/experiment/model/data.py"
OUTPUT = "python/experiment/runtime/output.py"
CONF = "python/experiment/model/conf.py"

# writers of exactly the state files the property names
WRITERS = [
    (DATA, "Status.update", "output/status.txt"),
    (OUTPUT, "OutputAgent.updateLogs", "output/output.txt + output/output.json"),
    (OUTPUT, "StatusMonitor.try_generate_status_details", "output/status_details.json"),
    (CONF, "FlowIRExperimentConfiguration.store_unreplicated_flowir_to_disk", "conf/flowir_instance.yaml"),
    (CONF, "FlowIRExperimentConfiguration._generate_instance_files", "conf/manifest.yaml"),
]
STATE_NAMES = ("flowir_instance.yaml", "manifest.yaml", "status_details.json", "status.txt", "output.txt", "output.json")


def write_mode(call: ast.Call) -> Optional[str]:
    if call_name(call) not in ("open", "io.open", "codecs.open"):
        return None
    mode = None
    if len(call.args) >= 2 and isinstance(call.args[1], ast.Constant) and isinstance(call.args[1].value, str):
        mode = call.args[1].value
    for k in call.keywords:
        if k.arg == "mode" and isinstance(k.value, ast.Constant):
            mode = k.value.value
    if mode and any(ch in mode for ch in "wax+"):
        return mode
    return None


def find_write_opens(cfg: CFG) -> List[Tuple[Node, ast.Call]]:
    out = []
    for n in cfg.nodes:
        if n.ast is None or n.kind not in ("with", "stmt"):
            continue
        for c in own_calls(n.ast):
            if write_mode(c):
                out.append((n, c))
    return out


def renames(cfg: CFG) -> List[Tuple[Node, ast.Call]]:
    out = []
    for n in cfg.nodes:
        if n.ast is None or n.kind not in ("stmt", "with", "test"):
            continue
        for c in own_calls(n.ast):
            if call_name(c) in ("os.rename", "os.replace", "shutil.move") and len(c.args) >= 2:
                out.append((n, c))
    return out


def enclosing_try_handlers(node: ast.AST, fn: ast.AST) -> List[ast.ExceptHandler]:
    """Handlers of every try statement (inside fn) whose *body* lexically contains node."""
    out: List[ast.ExceptHandler] = []
    child = node
    for a in source.ancestors(node):
        if isinstance(a, ast.Try) and any(child is s or any(child is x for x in ast.walk(s)) for s in a.body):
            out.extend(a.handlers)
        if a is fn:
            break
        child = a
    return out


def check_writer(ctx, m, fn: ast.FunctionDef, label: str, informational: bool = False) -> int:
    cfg = CFG(fn)
    ctx.analysed(fn)
    ctx.paths += cfg.paths_count()
    opens = find_write_opens(cfg)
    rens = renames(cfg)
    n = 0
    # A5: the destination of a rename is never removed by the same writer
    dests = {source.src(rc.args[1]) for (_, rc) in rens}
    # .. and the locals that name a state file (their definition mentions one of the file names): the rename may live in a helper
    for nn in source.walk_own(fn):
        if isinstance(nn, ast.Assign) and len(nn.targets) == 1 and isinstance(nn.targets[0], ast.Name) and any(
                isinstance(k_, ast.Constant) and isinstance(k_.value, str) and any(k_.value.endswith(sn) for sn in STATE_NAMES) for k_ in ast.walk(nn.value)):
            dests.add(nn.targets[0].id)

    def removed_paths(c: ast.Call) -> Set[str]:
        """what the first argument of a remove may denote: itself, or - for the variable of a loop over a display - the elements of the display"""
        a0 = c.args[0]
        out = {source.src(a0)}
        if isinstance(a0, ast.Name):
            for lp in source.ancestors(c):
                if isinstance(lp, ast.For) and isinstance(lp.target, ast.Name) and lp.target.id == a0.id and isinstance(lp.iter, (ast.Tuple, ast.List, ast.Set)):
                    out |= {source.src(e) for e in lp.iter.elts}
        return out
    for c in source.calls_in(fn, include_nested=True):
        cn = call_name(c) or ""
        if cn in ("os.remove", "os.unlink", "os.truncate", "shutil.rmtree") and c.args and removed_paths(c) & dests:
            ctx.ob("C14.A5-destination-never-removed", c, False,
                   "%s: %s removes the state file before the temporary file is renamed over it: a crash (or a failing rename, whose "
                   "error is only collected) between the two leaves no version of the file at all" % (label, short(c, 60)),
                   construct="%s in %s" % (short(c, 80), source.qualname(fn)))
    if dests and not any((call_name(c) or "") in ("os.remove", "os.unlink", "os.truncate", "shutil.rmtree") and c.args and removed_paths(c) & dests
                         for c in source.calls_in(fn, include_nested=True)):
        ctx.ob("C14.A5-destination-never-removed", fn, True, "%s: the state file is replaced only by the rename" % label,
               construct="no remove of %s in %s" % (sorted(dests), source.qualname(fn)))
    # an update that is skipped because "nothing changed since what I wrote last time" (a return guarded by a comparison with an attribute
    # that this very function binds) is sound only if the remembered state is recorded after EVERY rename of the function succeeded: a
    # snapshot taken after the first file was published makes the next call skip the repair of a second file whose update failed
    memo_attrs = {}
    for nd in cfg.nodes:
        if nd.kind == "stmt" and isinstance(nd.ast, ast.Assign):
            for t in nd.ast.targets:
                if isinstance(t, ast.Attribute) and isinstance(t.value, ast.Name) and t.value.id == "self":
                    memo_attrs.setdefault(t.attr, []).append(nd)
    for tn in [x for x in cfg.nodes if x.kind == "test" and isinstance(x.ast, ast.Compare)]:
        used = ({a.attr for a in ast.walk(tn.ast) if isinstance(a, ast.Attribute) and isinstance(a.value, ast.Name) and a.value.id == "self"}
                | {a.args[1].value for a in ast.walk(tn.ast) if isinstance(a, ast.Call) and call_name(a) == "getattr" and len(a.args) >= 2
                   and isinstance(a.args[0], ast.Name) and a.args[0].id == "self" and isinstance(a.args[1], ast.Constant)}) & set(memo_attrs)
        if not used:
            continue
        # does one side of the test leave the function without reaching any rename?
        skips = False
        for (m_, lab) in tn.succ:
            if lab in ("T", "F"):
                r_ = cfg.reach([m_])
                if cfg.exit.id in r_ and not any(rn.id in r_ for (rn, _) in rens) and rens:
                    skips = True
        if not skips:
            continue
        for attr in sorted(used):
            for st_ in memo_attrs[attr]:
                ok_m = all(cfg.every_path_to_passes(st_, gates=[rn]) for (rn, _) in rens)
                ctx.ob("C14.A2-rename-on-success-only", st_.ast, ok_m,
                       "%s: self.%s (which lets a later call skip the update) is recorded only after every rename" % (label, attr) if ok_m else
                       "%s: the update is skipped when %s, and self.%s is recorded on a path that does not pass every rename of the function: when "
                       "the second file's update fails (I/O error in its half) the snapshot still says 'written', the next fault-free call "
                       "returns early and the second file keeps its stale contents - the two listings disagree until a key-output changes again"
                       % (label, short(tn.ast, 50), attr), construct="%s: skip-if-unchanged snapshot after every rename" % source.qualname(fn))
    # A6: the publish step is an atomic rename on ONE file system: os.rename / os.replace (shutil.move falls back to copy + unlink
    # across file systems, truncating the live file), and the temporary file lives in the directory of the state file
    for (rn, rc) in rens:
        atomic = call_name(rc) in ("os.rename", "os.replace")
        ctx.ob("C14.A6-atomic-publish-same-directory", rc, atomic,
               "%s: published with %s" % (label, call_name(rc)) if atomic else
               "%s: the temporary file is published with %s, which copies and then unlinks when source and destination are on different file "
               "systems: the copy opens the live state file for writing, so a crash or ENOSPC during it leaves an empty or half-written file"
               % (label, call_name(rc)), construct="%s is an atomic rename in %s" % (short(rc, 60), source.qualname(fn)))
        tmp = rc.args[0]

        def scratch_rooted(e: ast.AST, depth: int = 0) -> Optional[ast.AST]:
            """the sub-expression that roots a path in the system's scratch directory (another file system than the instance, in general)"""
            if depth > 5:
                return None
            for x in ast.walk(e):
                if isinstance(x, ast.Call) and (call_name(x) or "").split(".")[0] == "tempfile":
                    if not any(k.arg == "dir" for k in x.keywords):
                        return x
                if isinstance(x, ast.Constant) and isinstance(x.value, str) and (
                        x.value in ("/tmp", "/var/tmp", "/dev/shm", "TMPDIR") or x.value.startswith(("/tmp/", "/var/tmp/", "/dev/shm/"))):
                    return x
                if isinstance(x, ast.Name) and x is not e:
                    for v in match.assigned_value(fn, x.id):
                        r = scratch_rooted(v, depth + 1)
                        if r is not None:
                            return r
            if isinstance(e, ast.Name):
                for v in match.assigned_value(fn, e.id):
                    r = scratch_rooted(v, depth + 1)
                    if r is not None:
                        return r
            return None
        # A9: .. and it is this CALL's own file.  Nothing serialises the writers of a state file (a new loop iteration and a parametrize()
        # both store the instance description): two overlapping updates that share one temporary path truncate each other's half-written
        # file, the first rename publishes a garbled document and the second one fails - with a per-call name each writer renames its own
        # complete file
        def unique_token(e: ast.AST, depth: int = 0) -> bool:
            for x in ast.walk(e):
                if isinstance(x, ast.Call):
                    cn_ = call_name(x) or ""
                    if cn_.split(".")[0] in ("uuid", "tempfile", "secrets") or cn_.split(".")[-1] in ("uuid4", "uuid1", "mkstemp", "mkdtemp", "NamedTemporaryFile",
                                                                                                   "token_hex", "token_urlsafe"):
                        return True
                if isinstance(x, ast.Name) and depth < 4:
                    for v in match.assigned_value(fn, x.id):
                        if v is not e and unique_token(v, depth + 1):
                            return True
            return False
        uniq = unique_token(tmp)
        ctx.ob("C14.A9-temporary-name-is-unique-per-call", rc, uniq,
               "%s: the temporary file carries a per-call unique token" % label if uniq else
               "%s: the temporary path %s is the same for every update made by this process (no uuid / tempfile token in its definition): two overlapping "
               "updates - nothing locks the writers - write into one temporary file, the first rename publishes a garbled document and the second "
               "raises FileNotFoundError; the newest description (the loop iteration just added) is never published and the stored one may not load"
               % (label, short(tmp, 40)), construct="%s: temporary name unique per call" % source.qualname(fn))
        foreign = scratch_rooted(tmp)
        ctx.ob("C14.A6-atomic-publish-same-directory", rc, foreign is None,
               "%s: the temporary file is not placed in the system's scratch directory" % label if foreign is None else
               "%s: the temporary file is created under %s, in general another file system than the instance directory (instance on GPFS/NFS, "
               "scratch node-local): rename(2) then fails with EXDEV, and a copying fallback truncates the live state file"
               % (label, short(foreign, 40)),
               construct="%s: temporary file not in the scratch directory" % source.qualname(fn))
    # A7: the bytes reach the temporary file through a writer that loops until everything is written or raises (a Python file object,
    # json/yaml dump into one, shutil copies).  os.write() is write(2): it returns how much was accepted and does NOT loop - when the
    # count is dropped, a short write (ENOSPC / quota / RLIMIT_FSIZE boundary: the call that crosses it returns a short count, only the
    # next one raises) is taken for a complete one and the rename publishes a prefix of the document
    raw = [c for c in source.calls_in(fn, include_nested=True) if call_name(c) in ("os.write", "os.pwrite", "os.writev")]
    for c in raw:
        st_ = source.stmt_of(c)
        dropped = isinstance(st_, ast.Expr) and st_.value is c
        if not dropped and isinstance(st_, ast.Assign) and st_.value is c and len(st_.targets) == 1 and isinstance(st_.targets[0], ast.Name):
            nm = st_.targets[0].id
            dropped = not any(isinstance(x, ast.Name) and x.id == nm and isinstance(x.ctx, ast.Load) for x in ast.walk(fn))
        ctx.ob("C14.A7-complete-writes", c, not dropped,
               "%s: the count returned by %s is consumed" % (label, call_name(c)) if not dropped else
               "%s: %s is write(2) - it may accept only part of the buffer (disk full, quota, file-size limit: the short count comes first, "
               "the error only with the next call) and its count is dropped: no exception reaches the publisher's handler, the rename "
               "installs a prefix of the document over the good state file, which then cannot be loaded" % (label, short(c, 60)),
               construct="%s: raw write with a dropped count" % source.qualname(fn))
    if not raw:
        ctx.ob("C14.A7-complete-writes", fn, True, "%s: no raw os.write in the writer: data goes through file objects, which write everything or raise" % label,
               construct="no os.write in %s" % source.qualname(fn))
    # every rename publishes a file whose production the rules above have seen: a recognised write-open (or raw os.open) of its source
    for (rn, rc) in rens:
        srcs = source.src(rc.args[0])
        produced = any(oc.args and source.src(oc.args[0]) == srcs for (_, oc) in opens) or any(
            call_name(c) in ("os.open", "shutil.copyfile", "shutil.copy", "shutil.copy2") and any(source.src(a_) == srcs for a_ in c.args)
            for c in source.calls_in(fn, include_nested=True)) or any(
            last_attr(c) in ("write_text", "write_bytes") and isinstance(c.func, ast.Attribute) and srcs in source.src(c.func.value)
            for c in source.calls_in(fn, include_nested=True)) or any(
            (call_name(c) or "").startswith("tempfile.") for c in source.calls_in(fn, include_nested=True))
        inplace = any(oc.args and any(source.src(oc.args[0]) == source.src(r2.args[1]) for (_, r2) in rens) for (_, oc) in opens)
        ctx.require(produced or inplace, "C14: %s renames %s but no recognised producer (open for writing, os.open, copy, write_text) of that path is in "
                              "the function - the write discipline of this file cannot be decided" % (source.qualname(fn), srcs))
    for (on, oc) in opens:
        n += 1
        path_expr = oc.args[0] if oc.args else None
        psrc = source.src(path_expr) if path_expr is not None else "?"
        # A1/A3: the opened path is the source of a rename in the same function
        my_rens = [(rn, rc) for (rn, rc) in rens if source.src(rc.args[0]) == psrc]
        is_dest = any(source.src(rc.args[1]) == psrc for (_, rc) in rens)
        ok_a1 = bool(my_rens) and not is_dest
        ctx.ob("C14.A1-temp-then-rename", oc, ok_a1,
               "%s: data is written to a temporary path (%s) that is later renamed over the state file" % (label, psrc) if ok_a1 else
               "%s: the state file %s is opened for writing in place (mode truncates/modifies the live file): a crash or an "
               "exception between open and close leaves an empty or partial file and the previous version is gone" % (label, psrc),
               construct="%s in %s" % (short(oc, 80), source.qualname(fn)))
        if not ok_a1:
            continue
        # the temporary path is never the state file itself: no arm of the local's definition (x if c else y) is the rename's destination,
        # and the rename is not skipped on a normal path from the open to the exit
        def arms(e: ast.AST, depth: int = 0) -> List[ast.AST]:
            if isinstance(e, ast.IfExp):
                return arms(e.body, depth) + arms(e.orelse, depth)
            if isinstance(e, ast.BoolOp):
                return [a for v in e.values for a in arms(v, depth)]
            if isinstance(e, ast.Name) and depth < 3:
                vals = match.assigned_value(fn, e.id)
                if vals:
                    return [a for v in vals for a in arms(v, depth + 1)] + [e]
            return [e]
        dests = {source.src(rc.args[1]) for (_, rc) in my_rens}
        aliased = [a for a in arms(path_expr) if source.src(a) in dests] if path_expr is not None else []
        ctx.ob("C14.A1-temp-then-rename", oc, not aliased,
               "%s: no definition of %s is the state file itself" % (label, psrc) if not aliased else
               "%s: %s is the state file itself on one arm of its definition (%s): on that arm the file is written in place - a process that "
               "dies between open and close leaves a truncated %s, which is neither the previous version (absent) nor the new one, and later "
               "loads do not regenerate an existing file" % (label, psrc, short(match.assigned_value(fn, path_expr.id)[0], 70)
                                                            if isinstance(path_expr, ast.Name) and match.assigned_value(fn, path_expr.id) else psrc, label),
               construct="%s: temporary path is never the destination" % source.qualname(fn))
        published = all(cfg.every_path_from_passes(on, [rn for (rn, _) in my_rens], ignore_labels=("exc", "except", "raise", "uncaught")) for _ in [0])
        ctx.ob("C14.A1-temp-then-rename", my_rens[0][1], published,
               "%s: every normal path from the write reaches the rename" % label if published else
               "%s: the rename of %s is skipped on a normal path after the write: what was written is then either lost or was written in place"
               % (label, psrc), construct="%s: rename on every normal path" % source.qualname(fn))
        # A2: rename only on the success path of this write
        same_path_opens = [o2 for (o2, c2) in opens if c2.args and source.src(c2.args[0]) == psrc]
        handlers = enclosing_try_handlers(oc, fn)
        for (rn, rc) in my_rens:
            # this open governs the rename iff the rename is reachable from it without passing another write of the path
            others = [o2 for o2 in same_path_opens if o2 is not on]
            if rn.id not in cfg.reach([on], blocked=others, include_starts=False):
                continue
            bad = None
            for h in handlers:
                hn = cfg.nodes_of(h)
                r = cfg.reach(hn, blocked=same_path_opens, include_starts=False)
                if rn.id in r:
                    bad = h
            ok = bad is None and cfg.every_path_to_passes(rn, gates=same_path_opens)
            # A3: the temporary file must be closed (flushed) before it is renamed over the state file
            if isinstance(on.ast, (ast.With, ast.AsyncWith)):
                inside = any(rc is x for st_ in on.ast.body for x in ast.walk(st_))
                ctx.ob("C14.A3-close-before-rename", rc, not inside,
                       "%s: the temporary file is closed (the with block ended) before it is renamed" % label if not inside else
                       "%s: %s is renamed over the state file inside the 'with open(...)' block, i.e. before the data is flushed and "
                       "the file closed: a crash right after the rename, or an I/O error raised by the flush at close (ENOSPC), "
                       "leaves an empty/truncated state file and the previous version is gone" % (label, psrc),
                       construct="%s relative to the with block of %s" % (short(rc, 80), psrc))
            else:
                hname = None
                st_ = source.stmt_of(oc)
                if isinstance(st_, ast.Assign) and isinstance(st_.targets[0], ast.Name):
                    hname = st_.targets[0].id
                closes = [n for n in cfg.nodes if n.ast is not None and n.kind == "stmt" and any(
                    last_attr(c) == "close" and dotted(c.func.value) == hname for c in own_calls(n.ast))] if hname else []
                okc = bool(closes) and cfg.every_path_to_passes(rn, gates=closes)
                ctx.ob("C14.A3-close-before-rename", rc, okc,
                       "%s: the handle is closed on every path before the rename" % label if okc else
                       "%s: the temporary file opened without 'with' is not provably closed before it is renamed" % label,
                       construct="%s after close of %s" % (short(rc, 80), psrc))
            # ... nor may a handler INSIDE the write block swallow the I/O error of a write: the block then ends normally, the 'else' /
            # fall-through publishes an incomplete temporary file
            if isinstance(on.ast, (ast.With, ast.AsyncWith)):
                IO_NAMES = {"OSError", "IOError", "EnvironmentError", "Exception", "BaseException"}
                for t_ in [x for st_ in on.ast.body for x in ast.walk(st_) if isinstance(x, ast.Try)]:
                    writes_inside = any(isinstance(c_, ast.Call) and last_attr(c_) in ("write", "writelines", "dump", "print") or (
                        isinstance(c_, ast.Call) and call_name(c_) == "print") for st_ in t_.body for c_ in ast.walk(st_))
                    if not writes_inside:
                        continue
                    for h_ in t_.handlers:
                        caught = {"*"} if h_.type is None else {source.src(x).split(".")[-1] for x in (h_.type.elts if isinstance(h_.type, ast.Tuple) else [h_.type])}
                        swallows = bool(caught & (IO_NAMES | {"*"})) and not any(isinstance(x, ast.Raise) for st_ in h_.body for x in ast.walk(st_))
                        ctx.ob("C14.A2-rename-on-success-only", h_, not swallows,
                               "%s: the handler inside the write block re-raises (or cannot catch) the I/O error of a write" % label if not swallows else
                               "%s: a handler inside the 'with open(%s)' block catches %s around the writes and carries on: a write that fails "
                               "(EIO, ENOSPC) no longer reaches the publisher's 'except IOError', the block ends normally and the incomplete "
                               "temporary file is renamed over the state file - neither the previous nor the new version" % (
                                   label, psrc, "/".join(sorted(caught))),
                               construct="%s: handler inside the write block of %s" % (label, psrc))
            ctx.ob("C14.A2-rename-on-success-only", rc, ok,
                   "%s: the rename is reachable only after the write completed normally" % label if ok else
                   "%s: the rename of %s over the state file is reachable from the handler that swallowed a failed write "
                   "(line %s): a partial temporary file replaces the good state file" % (label, psrc, getattr(bad, "lineno", "?")),
                   construct="%s after write of %s" % (short(rc, 80), psrc))
        # A4: serialisers called inside the with body do not assign to self.*
        if isinstance(on.ast, (ast.With, ast.AsyncWith)):
            for c in source.calls_in(on.ast, include_nested=False):
                cn = call_name(c) or ""
                if cn.startswith("self.") and cn.count(".") == 1:
                    cls = source.enclosing_class(fn)
                    tgt = None
                    if cls is not None:
                        for st in cls.body:
                            if isinstance(st, ast.FunctionDef) and st.name == cn[5:]:
                                tgt = st
                    if tgt is None:
                        continue
                    ctx.analysed(tgt)
                    muts = mutations_of_self(tgt)
                    for mu in muts:
                        ctx.ob("C14.A4-serialiser-is-pure", mu, False,
                               "%s: the serialiser %s assigns to the object it persists (%s): every update changes the stored "
                               "values again (e.g. escaping applied n times after n updates), so reading back does not return "
                               "what was written" % (label, cn, short(mu, 80)))
                    if not muts:
                        ctx.ob("C14.A4-serialiser-is-pure", tgt, True,
                               "%s: serialiser %s does not modify the object it persists" % (label, cn),
                               construct="%s has no assignment to self.*" % cn)
    return n


MUTATORS = {"update", "pop", "popitem", "setdefault", "clear", "append", "extend", "insert", "remove", "sort", "reverse",
            "add", "discard", "__setitem__", "__delitem__"}


def mutations_of_self(fn: ast.AST) -> List[ast.AST]:
    """statements of fn that modify the receiver: stores / deletes / mutator calls whose target is rooted at self.<attr>
    or at a local name that aliases (without copying) something rooted at self.<attr>."""
    def root_of(e: ast.AST):
        while isinstance(e, (ast.Subscript, ast.Attribute)):
            if isinstance(e, ast.Attribute) and isinstance(e.value, ast.Name) and e.value.id == "self":
                return "self"
            e = e.value
        return e.id if isinstance(e, ast.Name) else None
    aliases = set()
    changed = True
    while changed:
        changed = False
        for x in source.walk_own(fn):
            if isinstance(x, ast.Assign) and len(x.targets) == 1 and isinstance(x.targets[0], ast.Name):
                v = x.value
                # a plain reference (no call, no literal, no comprehension): the same object; `a or b` / `a if c else b`
                # hand out one of their operands
                operands = [v]
                if isinstance(v, ast.BoolOp):
                    operands = list(v.values)
                elif isinstance(v, ast.IfExp):
                    operands = [v.body, v.orelse]
                for v_ in operands:
                    if isinstance(v_, (ast.Attribute, ast.Subscript, ast.Name)):
                        r = root_of(v_)
                        if (r == "self" and not isinstance(v_, ast.Name)) or (r in aliases):
                            if x.targets[0].id not in aliases:
                                aliases.add(x.targets[0].id)
                                changed = True
                # dict.get / setdefault hand out the stored object
                if isinstance(v, ast.Call) and isinstance(v.func, ast.Attribute) and v.func.attr in ("get", "setdefault"):
                    r = root_of(v.func.value)
                    if r == "self" or r in aliases:
                        if x.targets[0].id not in aliases:
                            aliases.add(x.targets[0].id)
                            changed = True
    muts: List[ast.AST] = []

    def is_target(t: ast.AST) -> bool:
        if not isinstance(t, (ast.Subscript, ast.Attribute)):
            return False
        r = root_of(t)
        return r == "self" or r in aliases
    for x in source.walk_own(fn):
        tg = x.targets if isinstance(x, ast.Assign) else [x.target] if isinstance(x, (ast.AugAssign, ast.AnnAssign)) else []
        flat = []
        for t in tg:
            flat.extend(t.elts if isinstance(t, (ast.Tuple, ast.List)) else [t])
        if any(is_target(t) for t in flat):
            muts.append(x)
        if isinstance(x, ast.Delete) and any(is_target(t) for t in x.targets):
            muts.append(x)
        if isinstance(x, ast.Call) and isinstance(x.func, ast.Attribute) and x.func.attr in MUTATORS:
            recv = x.func.value
            r = root_of(recv)
            if (r == "self" and not (isinstance(recv, ast.Name))) or (r in aliases):
                muts.append(x)
    return muts


def run(ctx) -> None:
    ctx.explanation = (
        "ATOM rule over the writers of the state files the property names (status.txt, output.txt/json, "
        "status_details.json, flowir_instance.yaml, manifest.yaml): every write-open targets a temporary path that is the "
        "source of a rename in the same function, the rename is unreachable from handlers that swallowed a failed write, "
        "nothing opens the final path for writing, and the serialiser does not mutate the persisted object; plus "
        "escape/unescape agreement of the status file codec. Decides the write discipline for every crash point at once; "
        "byte-level outcomes at each crash point are not enumerated.")
    ctx.rule("C14.A1-temp-then-rename", "state files are written to a temporary path that is then renamed; the final path is never opened for writing")
    ctx.rule("C14.A2-rename-on-success-only", "the rename is reachable only after the write completed normally")
    ctx.rule("C14.A3-close-before-rename", "the temporary file is closed before it is renamed over the state file")
    ctx.rule("C14.A6-atomic-publish-same-directory", "the temporary file is published with os.rename / os.replace (not shutil.move, whose "
             "cross-file-system fallback copies over the live file) and is not created in the system's scratch directory (tempfile.* "
             "without dir=, /tmp, TMPDIR); that it IS next to the state file depends on attributes set elsewhere and is not decided")
    ctx.rule("C14.A5-destination-never-removed", "the state file itself is never removed/unlinked/truncated by its writer: only the "
             "atomic rename replaces it (between a remove and the rename no version exists on disk)")
    ctx.rule("C14.A4-serialiser-is-pure", "the serialiser does not modify the object it persists")
    ctx.rule("C14.R8-values-are-written-whole", "the serialiser of the status file writes every value whole: no slice of a value (a length cap) on the way to "
             "the stream - a truncated value is not the value last written, and a cut inside an escape sequence leaves a file the loader rejects")
    ctx.rule("C14.A9-temporary-name-is-unique-per-call", "the temporary file of an update is this call's own: its name carries a per-call unique token (uuid, tempfile), "
             "not only the process id or a constant - overlapping updates of one state file must not share a temporary path")
    ctx.rule("C14.R10-nothing-of-an-earlier-update-is-written", "a writer that serialises into a buffer kept on the object (an io.StringIO / BytesIO attribute) empties "
             "it on every path before it reads it back (truncate after the seek, or a fresh buffer): otherwise a shorter update is followed by the tail "
             "of a longer earlier one and old 'key=value' lines win on load")
    ctx.rule("C14.A7-complete-writes", "no writer hands bytes to a raw os.write and drops the count it returns (a short write must not be published)")
    ctx.rule("C14.R5-escape-agreement", "keys escaped by Status.writeToStream equal keys unescaped by Status.statusFromFile with inverse codecs; one 'key=value' line per key")
    ctx.assume("os.rename within one directory is atomic (POSIX); durability (fsync) is not part of the property")
    ctx.assume("implicit exceptions are modelled only inside try blocks")

    total = 0
    for rel, q, label in WRITERS:
        m = ctx.repo.module(rel)
        fn = m.func(q)
        total += check_writer(ctx, m, fn, label)
        # R10: a buffer that outlives the call
        cls_ = source.enclosing_class(fn)
        kept = set()
        if cls_ is not None:
            for a_ in ast.walk(cls_):
                if isinstance(a_, ast.Assign) and isinstance(a_.value, ast.Call) and (call_name(a_.value) or "").split(".")[-1] in ("StringIO", "BytesIO"):
                    for t_ in a_.targets:
                        if isinstance(t_, ast.Attribute) and isinstance(t_.value, ast.Name) and t_.value.id == "self" \
                                and source.enclosing_def(a_) is not fn:
                            kept.add(t_.attr)
        cfgw = CFG(fn)
        reads = [n for n in cfgw.nodes if n.ast is not None and n.kind in ("stmt", "with", "test") and any(
            last_attr(c) in ("getvalue", "read", "readlines") and isinstance(c.func.value, ast.Attribute) and c.func.value.attr in kept
            and isinstance(c.func.value.value, ast.Name) and c.func.value.value.id == "self" for c in own_calls(n.ast))]
        for rd in reads:
            attr = next(c.func.value.attr for c in own_calls(rd.ast) if last_attr(c) in ("getvalue", "read", "readlines") and isinstance(c.func.value, ast.Attribute)
                        and c.func.value.attr in kept)
            empties = [n for n in cfgw.nodes if n.ast is not None and n.kind == "stmt" and (any(
                last_attr(c) == "truncate" and isinstance(c.func.value, ast.Attribute) and c.func.value.attr == attr for c in own_calls(n.ast)) or (
                isinstance(n.ast, ast.Assign) and any(isinstance(t_, ast.Attribute) and t_.attr == attr for t_ in n.ast.targets)))]
            ok = bool(empties) and cfgw.every_path_to_passes(rd, gates=empties)
            ctx.ob("C14.R10-nothing-of-an-earlier-update-is-written", rd.ast, ok,
                   "%s: self.%s is emptied before it is read back" % (label, attr) if ok else
                   "%s: the text that is written comes from self.%s, a buffer that lives as long as the object, and it is not emptied (no truncate / fresh buffer) "
                   "on every path before it is read back: an update whose text is shorter than an earlier one is followed by the tail of the longer "
                   "text - whole old 'key=value' lines after the new ones, and the later duplicates win on load (experiment-state=running is read "
                   "back as failed)" % (label, attr), construct="%s: self.%s emptied before it is read" % (source.qualname(fn), attr))
        if not reads:
            ctx.ob("C14.R10-nothing-of-an-earlier-update-is-written", fn, True, "%s: no buffer that outlives the call is read back" % label,
                   construct="%s: no persistent serialisation buffer" % source.qualname(fn))
    ctx.floor("C14.A1-temp-then-rename", total, 5, "write-open sites in the state-file writers")

    # who else writes these files (path expression mentions a state-file name)
    scope = [ctx.repo.module(r) for r in (DATA, OUTPUT, CONF)]
    if ctx.tier == "thorough":
        scope = [m for m in ctx.repo.modules() if m.rel.startswith("python/experiment/model/") or m.rel.startswith("python/experiment/runtime/")
                 or m.rel.startswith("scripts/")]
    known = {(rel, q) for rel, q, _ in WRITERS}
    for m in scope:
        for q, fn in m.functions.items():
            if (m.rel, q) in known:
                continue
            names: Dict[str, str] = {}
            for nn in source.walk_own(fn):
                if isinstance(nn, ast.Assign) and len(nn.targets) == 1 and isinstance(nn.targets[0], ast.Name):
                    s = source.src(nn.value)
                    for sn in STATE_NAMES:
                        if "'%s'" % sn in s or '"%s"' % sn in s:
                            names[nn.targets[0].id] = sn
            for c in source.calls_in(fn):
                if write_mode(c) and c.args:
                    ps = source.src(c.args[0])
                    hit = [sn for sn in STATE_NAMES if sn in ps] or [names[x] for x in source.names_in(c.args[0]) if x in names]
                    if hit:
                        ctx.ob("C14.A1-temp-then-rename", c, False,
                               "%s opens the state file %s for writing in place (outside the anchored writers)" % (q, hit[0]))

    # ---------------- R5 escape agreement ---------------------------------------------------------------
    d = ctx.repo.module(DATA)
    w = d.func("Status.writeToStream")
    r = d.func("Status.statusFromFile")
    ctx.analysed(w)
    ctx.analysed(r)
    # R8: nothing on the write path takes a PART of a value.  The escaped error description of a deep traceback is long; a cap such as
    # value[:8192] returns a truncated description on read-back, and when the cut falls inside an escape sequence ('\\x..', a trailing
    # backslash) statusFromFile raises UnicodeDecodeError on a fully renamed file
    cuts = [x for x in ast.walk(w) if isinstance(x, ast.Subscript) and isinstance(x.slice, ast.Slice)]
    cuts += [x for x in ast.walk(w) if isinstance(x, ast.Call) and (call_name(x) or "").split(".")[-1] in ("shorten", "wrap", "truncate")]
    for x in cuts:
        ctx.ob("C14.R8-values-are-written-whole", x, False,
               "Status.writeToStream writes only a part of a value (%s): an error description longer than the cap is read back truncated although update() "
               "reported success, and a cut that lands inside an escape sequence of the escaped text leaves a status.txt that statusFromFile cannot "
               "decode (UnicodeDecodeError; Experiment.__init__ only guards that call with 'except OSError')" % short(x, 60),
               construct="Status.writeToStream: values are written whole")
    if not cuts:
        ctx.ob("C14.R8-values-are-written-whole", w, True, "Status.writeToStream takes no slice of the values it writes",
               construct="Status.writeToStream: values are written whole")

    def codec_keys(fn, enc_name, dec_name):
        keys = {}
        for n in source.walk_own(fn):
            if isinstance(n, ast.Call) and last_attr(n) == "decode" and isinstance(n.func.value, ast.Call) and last_attr(n.func.value) == "encode":
                enc = n.func.value.args[0].value if n.func.value.args and isinstance(n.func.value.args[0], ast.Constant) else None
                dec = n.args[0].value if n.args and isinstance(n.args[0], ast.Constant) else None
                subj = n.func.value.func.value
                key = None
                for s_ in ast.walk(subj):
                    if isinstance(s_, ast.Subscript) and isinstance(s_.slice, ast.Constant) and isinstance(s_.slice.value, str):
                        key = s_.slice.value
                if key:
                    keys[key] = (enc, dec, n)
        return keys
    wk = codec_keys(w, None, None)
    rk = codec_keys(r, None, None)
    ok = set(wk) == set(rk) and bool(wk)
    ctx.ob("C14.R5-escape-agreement", w, ok, "the same keys are escaped and unescaped: %s" % sorted(wk) if ok else
           "keys escaped on write %s differ from keys unescaped on read %s" % (sorted(wk), sorted(rk)), construct="escaped keys == unescaped keys")
    for k in sorted(set(wk) & set(rk)):
        we, wd, wn = wk[k]
        re_, rd, rn = rk[k]
        ok = (we, wd) == ("unicode_escape", "utf-8") and (re_, rd) == ("utf-8", "unicode_escape")
        ctx.ob("C14.R5-escape-agreement", wn, ok,
               "'%s' is written with encode(unicode_escape).decode(utf-8) and read with the inverse" % k if ok else
               "the codecs for '%s' are not inverse: write %s/%s, read %s/%s" % (k, we, wd, re_, rd))
    # one line per key, reader splits on the first '='
    fm = [n for n in source.walk_own(w) if isinstance(n, ast.BinOp) and isinstance(n.op, ast.Mod) and isinstance(n.left, ast.Constant)
          and n.left.value == "%s=%s\n"]
    sp = [n for n in source.walk_own(r) if isinstance(n, ast.Call) and last_attr(n) == "split" and n.args
          and isinstance(n.args[0], ast.Constant) and n.args[0].value == "=" and len(n.args) == 2
          and isinstance(n.args[1], ast.Constant) and n.args[1].value == 1]
    ok = bool(fm) and bool(sp)
    ctx.ob("C14.R5-escape-agreement", w, ok, "one 'key=value' line per key; the reader splits on the first '='" if ok else
           "line format of the status file differs between writer and reader", construct="'%s=%s\\n' <-> split('=', 1)")
    # the un-escaped value reaches the object as it is: the constructor the reader hands its dictionary to does not normalise
    # (strip/lower/...) the value of an escaped key
    NORMALISERS = ("strip", "lstrip", "rstrip", "lower", "upper", "title", "casefold")
    ctor = d.func("Status.__init__")
    ctx.analysed(ctor)
    cc = CFG(ctor)
    stores = [n for n in cc.nodes if n.kind == "stmt" and isinstance(n.ast, ast.Assign) and any(
        isinstance(t, ast.Subscript) and source.src(t.value) == "self.data" for t in n.ast.targets)
        and any(isinstance(c, ast.Call) and last_attr(c) in NORMALISERS for c in ast.walk(n.ast.value))]

    def escaped_key_label(t: ast.AST) -> Optional[str]:
        """edge label on which the key under consideration IS one of the escaped keys"""
        cp = match.compare_parts(t)
        if not cp:
            return None
        consts = {x.value for x in ast.walk(cp[2]) if isinstance(x, ast.Constant) and isinstance(x.value, str)} | \
                 {x.value for x in ast.walk(cp[0]) if isinstance(x, ast.Constant) and isinstance(x.value, str)}
        if not consts or not set(wk) <= consts:
            return None
        if isinstance(cp[1], (ast.Eq, ast.In)):
            return "T"
        if isinstance(cp[1], (ast.NotEq, ast.NotIn)):
            return "F"
        return None
    esc_tests = match.test_nodes(cc, escaped_key_label)
    for sn in stores:
        okn = bool(esc_tests) and match.only_via_edges(cc, sn, [(t, match.other(lab)) for (t, lab) in esc_tests])
        if isinstance(sn.ast.value, ast.IfExp):
            lab = escaped_key_label(sn.ast.value.test)
            if lab is not None:
                kept = sn.ast.value.body if lab == "T" else sn.ast.value.orelse
                okn = okn or not any(isinstance(c, ast.Call) and last_attr(c) in NORMALISERS for c in ast.walk(kept))
        ctx.ob("C14.R5-escape-agreement", sn.ast, okn,
               "values are normalised on reload only for keys that are not escaped (%s is kept as written)" % ", ".join(sorted(wk)) if okn else
               "Status.__init__ normalises (%s) every value it is given, also the free text %s that statusFromFile has just un-escaped: "
               "the trailing newline of a traceback and leading/trailing blanks are lost on reload - the value read back is not the value "
               "written" % ("/".join(sorted({last_attr(c) for c in ast.walk(sn.ast.value) if isinstance(c, ast.Call) and last_attr(c) in NORMALISERS})),
                            ", ".join(sorted(wk))),
               construct="Status.__init__: normalised store <- key is not escaped")
    # derived listings: a file written with raw values is parsed back without %-interpolation
    outm = ctx.repo.module(OUTPUT)
    ul = outm.func("OutputAgent.updateLogs")
    confm = ctx.repo.module(CONF)
    n_back = 0
    for c in source.calls_in(ul):
        if c.args and source.src(c.args[0]) == "self.outputFile" and last_attr(c) in {q.split(".")[-1] for q in confm.functions}:
            callee = confm.functions.get(last_attr(c))
            if callee is None:
                continue
            ctx.analysed(callee)
            for k in source.calls_in(callee):
                if (call_name(k) or "").split(".")[-1] in ("ConfigParser", "SafeConfigParser", "RawConfigParser"):
                    n_back += 1
                    raw = (call_name(k) or "").endswith("RawConfigParser") or any(
                        kw.arg == "interpolation" and isinstance(kw.value, ast.Constant) and kw.value.value is None for kw in k.keywords)
                    ctx.ob("C14.R5-escape-agreement", k, raw,
                           "%s parses the listing it derives output.json from without %%-interpolation" % last_attr(c) if raw else
                           "%s parses output.txt - written with raw values - with configparser's %%-interpolation: a key-output located at "
                           "'energies-100%%.csv' raises InterpolationSyntaxError out of updateLogs() after output.txt was renamed into place, "
                           "output.json stays at the previous version (and '%%(name)s' in a value is silently rewritten)" % last_attr(c),
                           construct="%s: ConfigParser(interpolation=None)" % last_attr(c))
            # the listing is read through an open handle: ConfigParser.read(<names>) silently skips a file it cannot open, the caller's
            # 'except IOError' never sees the failure and an empty output.json is renamed over the good one
            parsers = {t.id for a in source.walk_own(callee) if isinstance(a, ast.Assign) and isinstance(a.value, ast.Call)
                       and (call_name(a.value) or "").split(".")[-1] in ("ConfigParser", "SafeConfigParser", "RawConfigParser")
                       for t in a.targets if isinstance(t, ast.Name)}
            for k in source.calls_in(callee):
                if last_attr(k) in ("read", "read_file", "readfp", "read_string", "read_dict") and isinstance(k.func.value, ast.Name) and k.func.value.id in parsers:
                    silent_read = last_attr(k) == "read"
                    ctx.ob("C14.A2-rename-on-success-only", k, not silent_read,
                           "%s fills the parser through %s: a listing that cannot be opened raises" % (last_attr(c), last_attr(k)) if not silent_read else
                           "%s fills the parser with ConfigParser.read(<file names>), which SKIPS a file it cannot open: when output.txt is "
                           "unreadable (EIO, EACCES) the derived listing is empty, no IOError reaches updateLogs' handler, and '{}' is renamed "
                           "over a good output.json" % last_attr(c), construct="%s: parser filled from an open handle" % last_attr(c))
    ctx.floor("C14.R5-escape-agreement", n_back, 1, "parsers that read output.txt back to derive output.json")
    # the free text of the listing (the key-output's description - `description: |` in the workflow gives several lines) is written so
    # that the parser can read it back: every line after the first as a continuation line, or through an escaping helper (defect: the
    # raw text made ConfigurationFileToJson raise ParsingError after output.txt had been renamed into place)
    n_free = 0
    for c in source.calls_in(ul):
        if last_attr(c) != "write" or not c.args:
            continue
        a0 = c.args[0]
        if not (isinstance(a0, ast.BinOp) and isinstance(a0.op, ast.Mod) and isinstance(a0.left, ast.Constant) and isinstance(a0.left.value, str)
                and a0.left.value.startswith("description=")):
            continue
        n_free += 1
        val = match.resolve_local(ul, a0.right) if isinstance(a0.right, ast.Name) else a0.right
        protected = any(
            isinstance(x, ast.Call) and (
                (last_attr(x) == "replace" and len(x.args) == 2 and isinstance(x.args[0], ast.Constant) and x.args[0].value == "\n"
                 and isinstance(x.args[1], ast.Constant) and isinstance(x.args[1].value, str)
                 and (x.args[1].value[:1] != "\n" or x.args[1].value[1:2] in (" ", "\t")))
                or any(w_ in (last_attr(x) or call_name(x) or "").lower() for w_ in ("escape", "quote", "dumps")))
            for x in ast.walk(val))
        ctx.ob("C14.R5-escape-agreement", c, protected,
               "the description is written with its line breaks protected (%s)" % short(val, 60) if protected else
               "updateLogs writes the free-text description verbatim (%s): a description of several lines puts a line without '=' into "
               "output.txt, ConfigurationFileToJson raises ParsingError after output.txt was renamed into place, output.json is not written and "
               "the description cannot be read back" % short(val, 50),
               construct="updateLogs: description=<text with protected line breaks>")
    ctx.require(n_free >= 1, "anchor missing: the write of the key-output description in OutputAgent.updateLogs")
    # what is written is the escaped value (not the raw one)
    writes = [c for c in source.calls_in(w) if last_attr(c) == "write"]
    ctx.ob("C14.R5-escape-agreement", w, bool(writes), "writeToStream writes through stream.write", construct="stream.write present", trivial=True)
